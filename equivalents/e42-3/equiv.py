"""Equivalence check for refactoring 3: Array.__post_init__ in
ceos_alos2/array.py (chunk size normalisation at construction).

Run: PYTHONPATH=/tmp/wt6/e42 python _eq/3/equiv.py   (or with pytest)
The EXPECTED table was recorded from the unchanged code (git HEAD).
"""
import fsspec
import numpy as np

from ceos_alos2 import array


class Text(str):
    """a str subclass"""


def gen(items):
    yield from items


def make(byte_ranges, shape, records_per_chunk, **kwargs):
    fs = fsspec.filesystem("dir", path="/e42/post-init", fs=fsspec.filesystem("memory"))
    params = dict(
        fs=fs, url="image", byte_ranges=byte_ranges, shape=shape, dtype="uint16", type_code="IU2"
    )
    params.update(kwargs)
    if records_per_chunk != "<omitted>":
        params["records_per_chunk"] = records_per_chunk
    arr = array.Array(**params)

    return [
        arr.records_per_chunk,
        arr.chunk_offsets,
        repr(arr),
        arr.chunks,
        arr.ndim,
        arr.shape,
        (
            arr.byte_ranges
            if isinstance(arr.byte_ranges, (list, tuple, np.ndarray))
            else type(arr.byte_ranges).__name__
        ),
    ]


def cases():
    out = []

    def add(name, func, *args, **kwargs):
        out.append((name, lambda: func(*args, **kwargs)))

    regular = [(10 + 40 * i, 10 + 40 * (i + 1)) for i in range(7)]
    gaps = [(5, 25), (30, 50), (61, 81), (100, 120), (120, 140)]
    uneven = [(0, 7), (7, 13), (13, 21), (40, 41), (41, 90)]
    big = [(i * 2**20 * 30, (i + 1) * 2**20 * 30) for i in range(9)]
    layouts = {
        "regular": (regular, (7, 20)),
        "gaps": (gaps, (5, 10)),
        "uneven": (uneven, (5, 3)),
        "big": (big, (9, 15 * 2**20)),
        "single": ([(3, 43)], (1, 20)),
        "empty": ([], (0, 20)),
        "tuple": (tuple(regular), (7, 20)),
        "lists": ([list(r) for r in regular], [7, 20]),
        "1d": (regular, (7,)),
        "shape-mismatch": (regular, (3, 20)),
        "reversed": (regular[::-1], (7, 20)),
        "negative-size": ([(10, 5), (5, 0)], (2, 3)),
        "float-ranges": ([(0.0, 2.5), (2.5, 5.0), (5.0, 7.5)], (3, 1)),
        "np-ranges": ([(np.int64(a), np.int64(b)) for a, b in regular], (7, 20)),
        "array-ranges": (np.array(regular), (7, 20)),
    }
    sizes = [
        "<omitted>", None, "auto", "80B", "81B", "100B", "119B", "120B", "121B", "0B", "1kB", "1kiB",
        "1 MiB", "95MiB", "0.1 GB", "100", "1e2", "kB", "", "5 foos", "abc", "AUTO", " auto",
        Text("auto"), Text("160B"), -1, 0, 1, 2, 3, 4, 5, 6, 7, 8, 1024, -2, True, False,
        np.int64(3), np.int64(-1), np.int64(10**6), 2.0, 2.5, -1.0, float("nan"), float("inf"),
        b"auto", [2], (2,), {}, 1 + 0j,
    ]
    for layout, (byte_ranges, shape) in layouts.items():
        for size in sizes:
            add(f"{layout}|{type(size).__name__}:{size!r}", make, byte_ranges, shape, size)

    # malformed inputs: the order in which problems are detected must not change
    malformed = {
        "ranges-none": (None, (2, 3)),
        "ranges-int": (4, (2, 3)),
        "ranges-3-tuples": ([(0, 1, 2), (2, 3, 4)], (2, 3)),
        "ranges-1-tuples": ([(0,), (2,)], (2, 3)),
        "ranges-mixed": ([(0, 4), (4, 8), (8,)], (3, 2)),
        "ranges-ints": ([0, 4, 8], (3, 2)),
        "ranges-str": (["ab", "cd"], (2, 2)),
        "ranges-none-items": ([(None, 3), (3, 6)], (2, 2)),
        "shape-empty": (regular, ()),
        "shape-none": (regular, None),
        "shape-int": (regular, 7),
        "shape-str": (regular, "ab"),
        "shape-none-entry": (regular, (None, 20)),
        "shape-dict": (regular, {0: 7, 1: 20}),
        "shape-float": (regular, (2.5, 20)),
    }
    for layout, (byte_ranges, shape) in malformed.items():
        for size in [None, "auto", "80B", "5 foos", -1, 0, 2, 100, [2], 2.5]:
            add(f"{layout}|{type(size).__name__}:{size!r}", make, byte_ranges, shape, size)
    for size in [None, "auto", "80B", -1, 2]:
        add(
            f"ranges-gen|{size!r}",
            lambda size=size: make(gen(regular), (7, 20), size),
        )

    # other fields are untouched
    add("other-fields", make, gaps, (5, 10), 2, dtype=np.dtype("complex64"), type_code="C*8",
        url="some/where/IMG-HH")
    add("positional", lambda: repr(array.Array(None, "u", gaps, (5, 10), "uint16", "IU2", 3)))
    add("positional-default", lambda: repr(array.Array(None, "u", gaps, (5, 10), "uint16", "IU2")))

    # __post_init__ called again on a live object (dataclasses.replace-like use)
    def again(first, second):
        fs = fsspec.filesystem("memory")
        arr = array.Array(fs, "u", regular, (7, 20), "uint16", "IU2", first)
        before = [arr.records_per_chunk, arr.chunk_offsets]
        arr.records_per_chunk = second
        try:
            arr.__post_init__()
        except Exception as e:  # noqa: BLE001
            return [before, f"{type(e).__name__}: {e}", arr.records_per_chunk, arr.chunk_offsets]
        return [before, arr.records_per_chunk, arr.chunk_offsets]

    for first, second in [(2, None), (None, "auto"), (3, "100B"), (3, "bogus"), ("auto", 0),
                          (2, [1]), (-1, -1), (4, 50)]:
        add(f"again-{first!r}-{second!r}", again, first, second)

    def replaced(value):
        import dataclasses

        fs = fsspec.filesystem("memory")
        arr = array.Array(fs, "u", regular, (7, 20), "uint16", "IU2", 2)
        new = dataclasses.replace(arr, records_per_chunk=value, byte_ranges=gaps, shape=(5, 10))
        return [new.records_per_chunk, new.chunk_offsets, arr.records_per_chunk, arr == new,
                hash(arr) == hash(new)]

    for value in [None, "auto", "41B", -1, 2, 3]:
        add(f"replace-{value!r}", replaced, value)

    # the module constants used by the initialiser
    add("module-raw-dtypes", lambda: {k: str(v) for k, v in array.raw_dtypes.items()})

    return out


# recorded from the unchanged code
EXPECTED = {"regular|str:'<omitted>'": 'list(builtins.int:1024, dict{builtins.int:0: '
                            "dict{builtins.str:'offset': builtins.int:10, builtins.str:'size': "
                            'builtins.int:280}}, builtins.str:"Array(url=\'image\', shape=(7, 20), '
                            'dtype=\'uint16\', records_per_chunk=1024)", tuple(builtins.int:1024, '
                            'builtins.int:20), builtins.int:2, tuple(builtins.int:7, '
                            'builtins.int:20), list(tuple(builtins.int:10, builtins.int:50), '
                            'tuple(builtins.int:50, builtins.int:90), tuple(builtins.int:90, '
                            'builtins.int:130), tuple(builtins.int:130, builtins.int:170), '
                            'tuple(builtins.int:170, builtins.int:210), tuple(builtins.int:210, '
                            'builtins.int:250), tuple(builtins.int:250, builtins.int:290)))',
 'regular|NoneType:None': 'list(builtins.int:1024, dict{builtins.int:0: '
                          "dict{builtins.str:'offset': builtins.int:10, builtins.str:'size': "
                          'builtins.int:280}}, builtins.str:"Array(url=\'image\', shape=(7, 20), '
                          'dtype=\'uint16\', records_per_chunk=1024)", tuple(builtins.int:1024, '
                          'builtins.int:20), builtins.int:2, tuple(builtins.int:7, '
                          'builtins.int:20), list(tuple(builtins.int:10, builtins.int:50), '
                          'tuple(builtins.int:50, builtins.int:90), tuple(builtins.int:90, '
                          'builtins.int:130), tuple(builtins.int:130, builtins.int:170), '
                          'tuple(builtins.int:170, builtins.int:210), tuple(builtins.int:210, '
                          'builtins.int:250), tuple(builtins.int:250, builtins.int:290)))',
 "regular|str:'auto'": 'list(numpy.int64(np.int64(7)), dict{builtins.int:0: '
                       "dict{builtins.str:'offset': builtins.int:10, builtins.str:'size': "
                       'builtins.int:280}}, builtins.str:"Array(url=\'image\', shape=(7, 20), '
                       'dtype=\'uint16\', records_per_chunk=np.int64(7))", '
                       'tuple(numpy.int64(np.int64(7)), builtins.int:20), builtins.int:2, '
                       'tuple(builtins.int:7, builtins.int:20), list(tuple(builtins.int:10, '
                       'builtins.int:50), tuple(builtins.int:50, builtins.int:90), '
                       'tuple(builtins.int:90, builtins.int:130), tuple(builtins.int:130, '
                       'builtins.int:170), tuple(builtins.int:170, builtins.int:210), '
                       'tuple(builtins.int:210, builtins.int:250), tuple(builtins.int:250, '
                       'builtins.int:290)))',
 "regular|str:'80B'": 'list(numpy.int64(np.int64(2)), dict{builtins.int:0: '
                      "dict{builtins.str:'offset': builtins.int:10, builtins.str:'size': "
                      "builtins.int:80}, builtins.int:1: dict{builtins.str:'offset': "
                      "builtins.int:90, builtins.str:'size': builtins.int:80}, builtins.int:2: "
                      "dict{builtins.str:'offset': builtins.int:170, builtins.str:'size': "
                      "builtins.int:80}, builtins.int:3: dict{builtins.str:'offset': "
                      "builtins.int:250, builtins.str:'size': builtins.int:40}}, "
                      'builtins.str:"Array(url=\'image\', shape=(7, 20), dtype=\'uint16\', '
                      'records_per_chunk=np.int64(2))", tuple(numpy.int64(np.int64(2)), '
                      'builtins.int:20), builtins.int:2, tuple(builtins.int:7, builtins.int:20), '
                      'list(tuple(builtins.int:10, builtins.int:50), tuple(builtins.int:50, '
                      'builtins.int:90), tuple(builtins.int:90, builtins.int:130), '
                      'tuple(builtins.int:130, builtins.int:170), tuple(builtins.int:170, '
                      'builtins.int:210), tuple(builtins.int:210, builtins.int:250), '
                      'tuple(builtins.int:250, builtins.int:290)))',
 "regular|str:'81B'": 'list(numpy.int64(np.int64(2)), dict{builtins.int:0: '
                      "dict{builtins.str:'offset': builtins.int:10, builtins.str:'size': "
                      "builtins.int:80}, builtins.int:1: dict{builtins.str:'offset': "
                      "builtins.int:90, builtins.str:'size': builtins.int:80}, builtins.int:2: "
                      "dict{builtins.str:'offset': builtins.int:170, builtins.str:'size': "
                      "builtins.int:80}, builtins.int:3: dict{builtins.str:'offset': "
                      "builtins.int:250, builtins.str:'size': builtins.int:40}}, "
                      'builtins.str:"Array(url=\'image\', shape=(7, 20), dtype=\'uint16\', '
                      'records_per_chunk=np.int64(2))", tuple(numpy.int64(np.int64(2)), '
                      'builtins.int:20), builtins.int:2, tuple(builtins.int:7, builtins.int:20), '
                      'list(tuple(builtins.int:10, builtins.int:50), tuple(builtins.int:50, '
                      'builtins.int:90), tuple(builtins.int:90, builtins.int:130), '
                      'tuple(builtins.int:130, builtins.int:170), tuple(builtins.int:170, '
                      'builtins.int:210), tuple(builtins.int:210, builtins.int:250), '
                      'tuple(builtins.int:250, builtins.int:290)))',
 "regular|str:'100B'": 'list(numpy.int64(np.int64(2)), dict{builtins.int:0: '
                       "dict{builtins.str:'offset': builtins.int:10, builtins.str:'size': "
                       "builtins.int:80}, builtins.int:1: dict{builtins.str:'offset': "
                       "builtins.int:90, builtins.str:'size': builtins.int:80}, builtins.int:2: "
                       "dict{builtins.str:'offset': builtins.int:170, builtins.str:'size': "
                       "builtins.int:80}, builtins.int:3: dict{builtins.str:'offset': "
                       "builtins.int:250, builtins.str:'size': builtins.int:40}}, "
                       'builtins.str:"Array(url=\'image\', shape=(7, 20), dtype=\'uint16\', '
                       'records_per_chunk=np.int64(2))", tuple(numpy.int64(np.int64(2)), '
                       'builtins.int:20), builtins.int:2, tuple(builtins.int:7, builtins.int:20), '
                       'list(tuple(builtins.int:10, builtins.int:50), tuple(builtins.int:50, '
                       'builtins.int:90), tuple(builtins.int:90, builtins.int:130), '
                       'tuple(builtins.int:130, builtins.int:170), tuple(builtins.int:170, '
                       'builtins.int:210), tuple(builtins.int:210, builtins.int:250), '
                       'tuple(builtins.int:250, builtins.int:290)))',
 "regular|str:'119B'": 'list(numpy.int64(np.int64(3)), dict{builtins.int:0: '
                       "dict{builtins.str:'offset': builtins.int:10, builtins.str:'size': "
                       "builtins.int:120}, builtins.int:1: dict{builtins.str:'offset': "
                       "builtins.int:130, builtins.str:'size': builtins.int:120}, builtins.int:2: "
                       "dict{builtins.str:'offset': builtins.int:250, builtins.str:'size': "
                       'builtins.int:40}}, builtins.str:"Array(url=\'image\', shape=(7, 20), '
                       'dtype=\'uint16\', records_per_chunk=np.int64(3))", '
                       'tuple(numpy.int64(np.int64(3)), builtins.int:20), builtins.int:2, '
                       'tuple(builtins.int:7, builtins.int:20), list(tuple(builtins.int:10, '
                       'builtins.int:50), tuple(builtins.int:50, builtins.int:90), '
                       'tuple(builtins.int:90, builtins.int:130), tuple(builtins.int:130, '
                       'builtins.int:170), tuple(builtins.int:170, builtins.int:210), '
                       'tuple(builtins.int:210, builtins.int:250), tuple(builtins.int:250, '
                       'builtins.int:290)))',
 "regular|str:'120B'": 'list(numpy.int64(np.int64(3)), dict{builtins.int:0: '
                       "dict{builtins.str:'offset': builtins.int:10, builtins.str:'size': "
                       "builtins.int:120}, builtins.int:1: dict{builtins.str:'offset': "
                       "builtins.int:130, builtins.str:'size': builtins.int:120}, builtins.int:2: "
                       "dict{builtins.str:'offset': builtins.int:250, builtins.str:'size': "
                       'builtins.int:40}}, builtins.str:"Array(url=\'image\', shape=(7, 20), '
                       'dtype=\'uint16\', records_per_chunk=np.int64(3))", '
                       'tuple(numpy.int64(np.int64(3)), builtins.int:20), builtins.int:2, '
                       'tuple(builtins.int:7, builtins.int:20), list(tuple(builtins.int:10, '
                       'builtins.int:50), tuple(builtins.int:50, builtins.int:90), '
                       'tuple(builtins.int:90, builtins.int:130), tuple(builtins.int:130, '
                       'builtins.int:170), tuple(builtins.int:170, builtins.int:210), '
                       'tuple(builtins.int:210, builtins.int:250), tuple(builtins.int:250, '
                       'builtins.int:290)))',
 "regular|str:'121B'": 'list(numpy.int64(np.int64(3)), dict{builtins.int:0: '
                       "dict{builtins.str:'offset': builtins.int:10, builtins.str:'size': "
                       "builtins.int:120}, builtins.int:1: dict{builtins.str:'offset': "
                       "builtins.int:130, builtins.str:'size': builtins.int:120}, builtins.int:2: "
                       "dict{builtins.str:'offset': builtins.int:250, builtins.str:'size': "
                       'builtins.int:40}}, builtins.str:"Array(url=\'image\', shape=(7, 20), '
                       'dtype=\'uint16\', records_per_chunk=np.int64(3))", '
                       'tuple(numpy.int64(np.int64(3)), builtins.int:20), builtins.int:2, '
                       'tuple(builtins.int:7, builtins.int:20), list(tuple(builtins.int:10, '
                       'builtins.int:50), tuple(builtins.int:50, builtins.int:90), '
                       'tuple(builtins.int:90, builtins.int:130), tuple(builtins.int:130, '
                       'builtins.int:170), tuple(builtins.int:170, builtins.int:210), '
                       'tuple(builtins.int:210, builtins.int:250), tuple(builtins.int:250, '
                       'builtins.int:290)))',
 "regular|str:'0B'": 'list(numpy.int64(np.int64(1)), dict{builtins.int:0: '
                     "dict{builtins.str:'offset': builtins.int:10, builtins.str:'size': "
                     "builtins.int:40}, builtins.int:1: dict{builtins.str:'offset': "
                     "builtins.int:50, builtins.str:'size': builtins.int:40}, builtins.int:2: "
                     "dict{builtins.str:'offset': builtins.int:90, builtins.str:'size': "
                     "builtins.int:40}, builtins.int:3: dict{builtins.str:'offset': "
                     "builtins.int:130, builtins.str:'size': builtins.int:40}, builtins.int:4: "
                     "dict{builtins.str:'offset': builtins.int:170, builtins.str:'size': "
                     "builtins.int:40}, builtins.int:5: dict{builtins.str:'offset': "
                     "builtins.int:210, builtins.str:'size': builtins.int:40}, builtins.int:6: "
                     "dict{builtins.str:'offset': builtins.int:250, builtins.str:'size': "
                     'builtins.int:40}}, builtins.str:"Array(url=\'image\', shape=(7, 20), '
                     'dtype=\'uint16\', records_per_chunk=np.int64(1))", '
                     'tuple(numpy.int64(np.int64(1)), builtins.int:20), builtins.int:2, '
                     'tuple(builtins.int:7, builtins.int:20), list(tuple(builtins.int:10, '
                     'builtins.int:50), tuple(builtins.int:50, builtins.int:90), '
                     'tuple(builtins.int:90, builtins.int:130), tuple(builtins.int:130, '
                     'builtins.int:170), tuple(builtins.int:170, builtins.int:210), '
                     'tuple(builtins.int:210, builtins.int:250), tuple(builtins.int:250, '
                     'builtins.int:290)))',
 "regular|str:'1kB'": 'list(numpy.int64(np.int64(7)), dict{builtins.int:0: '
                      "dict{builtins.str:'offset': builtins.int:10, builtins.str:'size': "
                      'builtins.int:280}}, builtins.str:"Array(url=\'image\', shape=(7, 20), '
                      'dtype=\'uint16\', records_per_chunk=np.int64(7))", '
                      'tuple(numpy.int64(np.int64(7)), builtins.int:20), builtins.int:2, '
                      'tuple(builtins.int:7, builtins.int:20), list(tuple(builtins.int:10, '
                      'builtins.int:50), tuple(builtins.int:50, builtins.int:90), '
                      'tuple(builtins.int:90, builtins.int:130), tuple(builtins.int:130, '
                      'builtins.int:170), tuple(builtins.int:170, builtins.int:210), '
                      'tuple(builtins.int:210, builtins.int:250), tuple(builtins.int:250, '
                      'builtins.int:290)))',
 "regular|str:'1kiB'": 'list(numpy.int64(np.int64(7)), dict{builtins.int:0: '
                       "dict{builtins.str:'offset': builtins.int:10, builtins.str:'size': "
                       'builtins.int:280}}, builtins.str:"Array(url=\'image\', shape=(7, 20), '
                       'dtype=\'uint16\', records_per_chunk=np.int64(7))", '
                       'tuple(numpy.int64(np.int64(7)), builtins.int:20), builtins.int:2, '
                       'tuple(builtins.int:7, builtins.int:20), list(tuple(builtins.int:10, '
                       'builtins.int:50), tuple(builtins.int:50, builtins.int:90), '
                       'tuple(builtins.int:90, builtins.int:130), tuple(builtins.int:130, '
                       'builtins.int:170), tuple(builtins.int:170, builtins.int:210), '
                       'tuple(builtins.int:210, builtins.int:250), tuple(builtins.int:250, '
                       'builtins.int:290)))',
 "regular|str:'1 MiB'": 'list(numpy.int64(np.int64(7)), dict{builtins.int:0: '
                        "dict{builtins.str:'offset': builtins.int:10, builtins.str:'size': "
                        'builtins.int:280}}, builtins.str:"Array(url=\'image\', shape=(7, 20), '
                        'dtype=\'uint16\', records_per_chunk=np.int64(7))", '
                        'tuple(numpy.int64(np.int64(7)), builtins.int:20), builtins.int:2, '
                        'tuple(builtins.int:7, builtins.int:20), list(tuple(builtins.int:10, '
                        'builtins.int:50), tuple(builtins.int:50, builtins.int:90), '
                        'tuple(builtins.int:90, builtins.int:130), tuple(builtins.int:130, '
                        'builtins.int:170), tuple(builtins.int:170, builtins.int:210), '
                        'tuple(builtins.int:210, builtins.int:250), tuple(builtins.int:250, '
                        'builtins.int:290)))',
 "regular|str:'95MiB'": 'list(numpy.int64(np.int64(7)), dict{builtins.int:0: '
                        "dict{builtins.str:'offset': builtins.int:10, builtins.str:'size': "
                        'builtins.int:280}}, builtins.str:"Array(url=\'image\', shape=(7, 20), '
                        'dtype=\'uint16\', records_per_chunk=np.int64(7))", '
                        'tuple(numpy.int64(np.int64(7)), builtins.int:20), builtins.int:2, '
                        'tuple(builtins.int:7, builtins.int:20), list(tuple(builtins.int:10, '
                        'builtins.int:50), tuple(builtins.int:50, builtins.int:90), '
                        'tuple(builtins.int:90, builtins.int:130), tuple(builtins.int:130, '
                        'builtins.int:170), tuple(builtins.int:170, builtins.int:210), '
                        'tuple(builtins.int:210, builtins.int:250), tuple(builtins.int:250, '
                        'builtins.int:290)))',
 "regular|str:'0.1 GB'": 'list(numpy.int64(np.int64(7)), dict{builtins.int:0: '
                         "dict{builtins.str:'offset': builtins.int:10, builtins.str:'size': "
                         'builtins.int:280}}, builtins.str:"Array(url=\'image\', shape=(7, 20), '
                         'dtype=\'uint16\', records_per_chunk=np.int64(7))", '
                         'tuple(numpy.int64(np.int64(7)), builtins.int:20), builtins.int:2, '
                         'tuple(builtins.int:7, builtins.int:20), list(tuple(builtins.int:10, '
                         'builtins.int:50), tuple(builtins.int:50, builtins.int:90), '
                         'tuple(builtins.int:90, builtins.int:130), tuple(builtins.int:130, '
                         'builtins.int:170), tuple(builtins.int:170, builtins.int:210), '
                         'tuple(builtins.int:210, builtins.int:250), tuple(builtins.int:250, '
                         'builtins.int:290)))',
 "regular|str:'100'": 'list(numpy.int64(np.int64(2)), dict{builtins.int:0: '
                      "dict{builtins.str:'offset': builtins.int:10, builtins.str:'size': "
                      "builtins.int:80}, builtins.int:1: dict{builtins.str:'offset': "
                      "builtins.int:90, builtins.str:'size': builtins.int:80}, builtins.int:2: "
                      "dict{builtins.str:'offset': builtins.int:170, builtins.str:'size': "
                      "builtins.int:80}, builtins.int:3: dict{builtins.str:'offset': "
                      "builtins.int:250, builtins.str:'size': builtins.int:40}}, "
                      'builtins.str:"Array(url=\'image\', shape=(7, 20), dtype=\'uint16\', '
                      'records_per_chunk=np.int64(2))", tuple(numpy.int64(np.int64(2)), '
                      'builtins.int:20), builtins.int:2, tuple(builtins.int:7, builtins.int:20), '
                      'list(tuple(builtins.int:10, builtins.int:50), tuple(builtins.int:50, '
                      'builtins.int:90), tuple(builtins.int:90, builtins.int:130), '
                      'tuple(builtins.int:130, builtins.int:170), tuple(builtins.int:170, '
                      'builtins.int:210), tuple(builtins.int:210, builtins.int:250), '
                      'tuple(builtins.int:250, builtins.int:290)))',
 "regular|str:'1e2'": 'list(numpy.int64(np.int64(2)), dict{builtins.int:0: '
                      "dict{builtins.str:'offset': builtins.int:10, builtins.str:'size': "
                      "builtins.int:80}, builtins.int:1: dict{builtins.str:'offset': "
                      "builtins.int:90, builtins.str:'size': builtins.int:80}, builtins.int:2: "
                      "dict{builtins.str:'offset': builtins.int:170, builtins.str:'size': "
                      "builtins.int:80}, builtins.int:3: dict{builtins.str:'offset': "
                      "builtins.int:250, builtins.str:'size': builtins.int:40}}, "
                      'builtins.str:"Array(url=\'image\', shape=(7, 20), dtype=\'uint16\', '
                      'records_per_chunk=np.int64(2))", tuple(numpy.int64(np.int64(2)), '
                      'builtins.int:20), builtins.int:2, tuple(builtins.int:7, builtins.int:20), '
                      'list(tuple(builtins.int:10, builtins.int:50), tuple(builtins.int:50, '
                      'builtins.int:90), tuple(builtins.int:90, builtins.int:130), '
                      'tuple(builtins.int:130, builtins.int:170), tuple(builtins.int:170, '
                      'builtins.int:210), tuple(builtins.int:210, builtins.int:250), '
                      'tuple(builtins.int:250, builtins.int:290)))',
 "regular|str:'kB'": 'list(numpy.int64(np.int64(7)), dict{builtins.int:0: '
                     "dict{builtins.str:'offset': builtins.int:10, builtins.str:'size': "
                     'builtins.int:280}}, builtins.str:"Array(url=\'image\', shape=(7, 20), '
                     'dtype=\'uint16\', records_per_chunk=np.int64(7))", '
                     'tuple(numpy.int64(np.int64(7)), builtins.int:20), builtins.int:2, '
                     'tuple(builtins.int:7, builtins.int:20), list(tuple(builtins.int:10, '
                     'builtins.int:50), tuple(builtins.int:50, builtins.int:90), '
                     'tuple(builtins.int:90, builtins.int:130), tuple(builtins.int:130, '
                     'builtins.int:170), tuple(builtins.int:170, builtins.int:210), '
                     'tuple(builtins.int:210, builtins.int:250), tuple(builtins.int:250, '
                     'builtins.int:290)))',
 "regular|str:''": 'list(numpy.int64(np.int64(1)), dict{builtins.int:0: '
                   "dict{builtins.str:'offset': builtins.int:10, builtins.str:'size': "
                   "builtins.int:40}, builtins.int:1: dict{builtins.str:'offset': builtins.int:50, "
                   "builtins.str:'size': builtins.int:40}, builtins.int:2: "
                   "dict{builtins.str:'offset': builtins.int:90, builtins.str:'size': "
                   "builtins.int:40}, builtins.int:3: dict{builtins.str:'offset': "
                   "builtins.int:130, builtins.str:'size': builtins.int:40}, builtins.int:4: "
                   "dict{builtins.str:'offset': builtins.int:170, builtins.str:'size': "
                   "builtins.int:40}, builtins.int:5: dict{builtins.str:'offset': "
                   "builtins.int:210, builtins.str:'size': builtins.int:40}, builtins.int:6: "
                   "dict{builtins.str:'offset': builtins.int:250, builtins.str:'size': "
                   'builtins.int:40}}, builtins.str:"Array(url=\'image\', shape=(7, 20), '
                   'dtype=\'uint16\', records_per_chunk=np.int64(1))", '
                   'tuple(numpy.int64(np.int64(1)), builtins.int:20), builtins.int:2, '
                   'tuple(builtins.int:7, builtins.int:20), list(tuple(builtins.int:10, '
                   'builtins.int:50), tuple(builtins.int:50, builtins.int:90), '
                   'tuple(builtins.int:90, builtins.int:130), tuple(builtins.int:130, '
                   'builtins.int:170), tuple(builtins.int:170, builtins.int:210), '
                   'tuple(builtins.int:210, builtins.int:250), tuple(builtins.int:250, '
                   'builtins.int:290)))',
 "regular|str:'5 foos'": "raise builtins.ValueError: Could not interpret 'foos' as a byte unit",
 "regular|str:'abc'": "raise builtins.ValueError: Could not interpret 'abc' as a byte unit",
 "regular|str:'AUTO'": "raise builtins.ValueError: Could not interpret 'AUTO' as a byte unit",
 "regular|str:' auto'": "raise builtins.ValueError: Could not interpret 'auto' as a byte unit",
 "regular|Text:'auto'": 'list(numpy.int64(np.int64(7)), dict{builtins.int:0: '
                        "dict{builtins.str:'offset': builtins.int:10, builtins.str:'size': "
                        'builtins.int:280}}, builtins.str:"Array(url=\'image\', shape=(7, 20), '
                        'dtype=\'uint16\', records_per_chunk=np.int64(7))", '
                        'tuple(numpy.int64(np.int64(7)), builtins.int:20), builtins.int:2, '
                        'tuple(builtins.int:7, builtins.int:20), list(tuple(builtins.int:10, '
                        'builtins.int:50), tuple(builtins.int:50, builtins.int:90), '
                        'tuple(builtins.int:90, builtins.int:130), tuple(builtins.int:130, '
                        'builtins.int:170), tuple(builtins.int:170, builtins.int:210), '
                        'tuple(builtins.int:210, builtins.int:250), tuple(builtins.int:250, '
                        'builtins.int:290)))',
 "regular|Text:'160B'": 'list(numpy.int64(np.int64(4)), dict{builtins.int:0: '
                        "dict{builtins.str:'offset': builtins.int:10, builtins.str:'size': "
                        "builtins.int:160}, builtins.int:1: dict{builtins.str:'offset': "
                        "builtins.int:170, builtins.str:'size': builtins.int:120}}, "
                        'builtins.str:"Array(url=\'image\', shape=(7, 20), dtype=\'uint16\', '
                        'records_per_chunk=np.int64(4))", tuple(numpy.int64(np.int64(4)), '
                        'builtins.int:20), builtins.int:2, tuple(builtins.int:7, builtins.int:20), '
                        'list(tuple(builtins.int:10, builtins.int:50), tuple(builtins.int:50, '
                        'builtins.int:90), tuple(builtins.int:90, builtins.int:130), '
                        'tuple(builtins.int:130, builtins.int:170), tuple(builtins.int:170, '
                        'builtins.int:210), tuple(builtins.int:210, builtins.int:250), '
                        'tuple(builtins.int:250, builtins.int:290)))',
 'regular|int:-1': "list(builtins.int:7, dict{builtins.int:0: dict{builtins.str:'offset': "
                   "builtins.int:10, builtins.str:'size': builtins.int:280}}, "
                   'builtins.str:"Array(url=\'image\', shape=(7, 20), dtype=\'uint16\', '
                   'records_per_chunk=7)", tuple(builtins.int:7, builtins.int:20), builtins.int:2, '
                   'tuple(builtins.int:7, builtins.int:20), list(tuple(builtins.int:10, '
                   'builtins.int:50), tuple(builtins.int:50, builtins.int:90), '
                   'tuple(builtins.int:90, builtins.int:130), tuple(builtins.int:130, '
                   'builtins.int:170), tuple(builtins.int:170, builtins.int:210), '
                   'tuple(builtins.int:210, builtins.int:250), tuple(builtins.int:250, '
                   'builtins.int:290)))',
 'regular|int:0': 'list(builtins.int:0, dict{}, builtins.str:"Array(url=\'image\', shape=(7, 20), '
                  'dtype=\'uint16\', records_per_chunk=0)", tuple(builtins.int:0, '
                  'builtins.int:20), builtins.int:2, tuple(builtins.int:7, builtins.int:20), '
                  'list(tuple(builtins.int:10, builtins.int:50), tuple(builtins.int:50, '
                  'builtins.int:90), tuple(builtins.int:90, builtins.int:130), '
                  'tuple(builtins.int:130, builtins.int:170), tuple(builtins.int:170, '
                  'builtins.int:210), tuple(builtins.int:210, builtins.int:250), '
                  'tuple(builtins.int:250, builtins.int:290)))',
 'regular|int:1': "list(builtins.int:1, dict{builtins.int:0: dict{builtins.str:'offset': "
                  "builtins.int:10, builtins.str:'size': builtins.int:40}, builtins.int:1: "
                  "dict{builtins.str:'offset': builtins.int:50, builtins.str:'size': "
                  "builtins.int:40}, builtins.int:2: dict{builtins.str:'offset': builtins.int:90, "
                  "builtins.str:'size': builtins.int:40}, builtins.int:3: "
                  "dict{builtins.str:'offset': builtins.int:130, builtins.str:'size': "
                  "builtins.int:40}, builtins.int:4: dict{builtins.str:'offset': builtins.int:170, "
                  "builtins.str:'size': builtins.int:40}, builtins.int:5: "
                  "dict{builtins.str:'offset': builtins.int:210, builtins.str:'size': "
                  "builtins.int:40}, builtins.int:6: dict{builtins.str:'offset': builtins.int:250, "
                  'builtins.str:\'size\': builtins.int:40}}, builtins.str:"Array(url=\'image\', '
                  'shape=(7, 20), dtype=\'uint16\', records_per_chunk=1)", tuple(builtins.int:1, '
                  'builtins.int:20), builtins.int:2, tuple(builtins.int:7, builtins.int:20), '
                  'list(tuple(builtins.int:10, builtins.int:50), tuple(builtins.int:50, '
                  'builtins.int:90), tuple(builtins.int:90, builtins.int:130), '
                  'tuple(builtins.int:130, builtins.int:170), tuple(builtins.int:170, '
                  'builtins.int:210), tuple(builtins.int:210, builtins.int:250), '
                  'tuple(builtins.int:250, builtins.int:290)))',
 'regular|int:2': "list(builtins.int:2, dict{builtins.int:0: dict{builtins.str:'offset': "
                  "builtins.int:10, builtins.str:'size': builtins.int:80}, builtins.int:1: "
                  "dict{builtins.str:'offset': builtins.int:90, builtins.str:'size': "
                  "builtins.int:80}, builtins.int:2: dict{builtins.str:'offset': builtins.int:170, "
                  "builtins.str:'size': builtins.int:80}, builtins.int:3: "
                  "dict{builtins.str:'offset': builtins.int:250, builtins.str:'size': "
                  'builtins.int:40}}, builtins.str:"Array(url=\'image\', shape=(7, 20), '
                  'dtype=\'uint16\', records_per_chunk=2)", tuple(builtins.int:2, '
                  'builtins.int:20), builtins.int:2, tuple(builtins.int:7, builtins.int:20), '
                  'list(tuple(builtins.int:10, builtins.int:50), tuple(builtins.int:50, '
                  'builtins.int:90), tuple(builtins.int:90, builtins.int:130), '
                  'tuple(builtins.int:130, builtins.int:170), tuple(builtins.int:170, '
                  'builtins.int:210), tuple(builtins.int:210, builtins.int:250), '
                  'tuple(builtins.int:250, builtins.int:290)))',
 'regular|int:3': "list(builtins.int:3, dict{builtins.int:0: dict{builtins.str:'offset': "
                  "builtins.int:10, builtins.str:'size': builtins.int:120}, builtins.int:1: "
                  "dict{builtins.str:'offset': builtins.int:130, builtins.str:'size': "
                  "builtins.int:120}, builtins.int:2: dict{builtins.str:'offset': "
                  "builtins.int:250, builtins.str:'size': builtins.int:40}}, "
                  'builtins.str:"Array(url=\'image\', shape=(7, 20), dtype=\'uint16\', '
                  'records_per_chunk=3)", tuple(builtins.int:3, builtins.int:20), builtins.int:2, '
                  'tuple(builtins.int:7, builtins.int:20), list(tuple(builtins.int:10, '
                  'builtins.int:50), tuple(builtins.int:50, builtins.int:90), '
                  'tuple(builtins.int:90, builtins.int:130), tuple(builtins.int:130, '
                  'builtins.int:170), tuple(builtins.int:170, builtins.int:210), '
                  'tuple(builtins.int:210, builtins.int:250), tuple(builtins.int:250, '
                  'builtins.int:290)))',
 'regular|int:4': "list(builtins.int:4, dict{builtins.int:0: dict{builtins.str:'offset': "
                  "builtins.int:10, builtins.str:'size': builtins.int:160}, builtins.int:1: "
                  "dict{builtins.str:'offset': builtins.int:170, builtins.str:'size': "
                  'builtins.int:120}}, builtins.str:"Array(url=\'image\', shape=(7, 20), '
                  'dtype=\'uint16\', records_per_chunk=4)", tuple(builtins.int:4, '
                  'builtins.int:20), builtins.int:2, tuple(builtins.int:7, builtins.int:20), '
                  'list(tuple(builtins.int:10, builtins.int:50), tuple(builtins.int:50, '
                  'builtins.int:90), tuple(builtins.int:90, builtins.int:130), '
                  'tuple(builtins.int:130, builtins.int:170), tuple(builtins.int:170, '
                  'builtins.int:210), tuple(builtins.int:210, builtins.int:250), '
                  'tuple(builtins.int:250, builtins.int:290)))',
 'regular|int:5': "list(builtins.int:5, dict{builtins.int:0: dict{builtins.str:'offset': "
                  "builtins.int:10, builtins.str:'size': builtins.int:200}, builtins.int:1: "
                  "dict{builtins.str:'offset': builtins.int:210, builtins.str:'size': "
                  'builtins.int:80}}, builtins.str:"Array(url=\'image\', shape=(7, 20), '
                  'dtype=\'uint16\', records_per_chunk=5)", tuple(builtins.int:5, '
                  'builtins.int:20), builtins.int:2, tuple(builtins.int:7, builtins.int:20), '
                  'list(tuple(builtins.int:10, builtins.int:50), tuple(builtins.int:50, '
                  'builtins.int:90), tuple(builtins.int:90, builtins.int:130), '
                  'tuple(builtins.int:130, builtins.int:170), tuple(builtins.int:170, '
                  'builtins.int:210), tuple(builtins.int:210, builtins.int:250), '
                  'tuple(builtins.int:250, builtins.int:290)))',
 'regular|int:6': "list(builtins.int:6, dict{builtins.int:0: dict{builtins.str:'offset': "
                  "builtins.int:10, builtins.str:'size': builtins.int:240}, builtins.int:1: "
                  "dict{builtins.str:'offset': builtins.int:250, builtins.str:'size': "
                  'builtins.int:40}}, builtins.str:"Array(url=\'image\', shape=(7, 20), '
                  'dtype=\'uint16\', records_per_chunk=6)", tuple(builtins.int:6, '
                  'builtins.int:20), builtins.int:2, tuple(builtins.int:7, builtins.int:20), '
                  'list(tuple(builtins.int:10, builtins.int:50), tuple(builtins.int:50, '
                  'builtins.int:90), tuple(builtins.int:90, builtins.int:130), '
                  'tuple(builtins.int:130, builtins.int:170), tuple(builtins.int:170, '
                  'builtins.int:210), tuple(builtins.int:210, builtins.int:250), '
                  'tuple(builtins.int:250, builtins.int:290)))',
 'regular|int:7': "list(builtins.int:7, dict{builtins.int:0: dict{builtins.str:'offset': "
                  "builtins.int:10, builtins.str:'size': builtins.int:280}}, "
                  'builtins.str:"Array(url=\'image\', shape=(7, 20), dtype=\'uint16\', '
                  'records_per_chunk=7)", tuple(builtins.int:7, builtins.int:20), builtins.int:2, '
                  'tuple(builtins.int:7, builtins.int:20), list(tuple(builtins.int:10, '
                  'builtins.int:50), tuple(builtins.int:50, builtins.int:90), '
                  'tuple(builtins.int:90, builtins.int:130), tuple(builtins.int:130, '
                  'builtins.int:170), tuple(builtins.int:170, builtins.int:210), '
                  'tuple(builtins.int:210, builtins.int:250), tuple(builtins.int:250, '
                  'builtins.int:290)))',
 'regular|int:8': "list(builtins.int:7, dict{builtins.int:0: dict{builtins.str:'offset': "
                  "builtins.int:10, builtins.str:'size': builtins.int:280}}, "
                  'builtins.str:"Array(url=\'image\', shape=(7, 20), dtype=\'uint16\', '
                  'records_per_chunk=7)", tuple(builtins.int:7, builtins.int:20), builtins.int:2, '
                  'tuple(builtins.int:7, builtins.int:20), list(tuple(builtins.int:10, '
                  'builtins.int:50), tuple(builtins.int:50, builtins.int:90), '
                  'tuple(builtins.int:90, builtins.int:130), tuple(builtins.int:130, '
                  'builtins.int:170), tuple(builtins.int:170, builtins.int:210), '
                  'tuple(builtins.int:210, builtins.int:250), tuple(builtins.int:250, '
                  'builtins.int:290)))',
 'regular|int:1024': "list(builtins.int:7, dict{builtins.int:0: dict{builtins.str:'offset': "
                     "builtins.int:10, builtins.str:'size': builtins.int:280}}, "
                     'builtins.str:"Array(url=\'image\', shape=(7, 20), dtype=\'uint16\', '
                     'records_per_chunk=7)", tuple(builtins.int:7, builtins.int:20), '
                     'builtins.int:2, tuple(builtins.int:7, builtins.int:20), '
                     'list(tuple(builtins.int:10, builtins.int:50), tuple(builtins.int:50, '
                     'builtins.int:90), tuple(builtins.int:90, builtins.int:130), '
                     'tuple(builtins.int:130, builtins.int:170), tuple(builtins.int:170, '
                     'builtins.int:210), tuple(builtins.int:210, builtins.int:250), '
                     'tuple(builtins.int:250, builtins.int:290)))',
 'regular|int:-2': 'list(builtins.int:-2, dict{}, builtins.str:"Array(url=\'image\', shape=(7, '
                   '20), dtype=\'uint16\', records_per_chunk=-2)", tuple(builtins.int:-2, '
                   'builtins.int:20), builtins.int:2, tuple(builtins.int:7, builtins.int:20), '
                   'list(tuple(builtins.int:10, builtins.int:50), tuple(builtins.int:50, '
                   'builtins.int:90), tuple(builtins.int:90, builtins.int:130), '
                   'tuple(builtins.int:130, builtins.int:170), tuple(builtins.int:170, '
                   'builtins.int:210), tuple(builtins.int:210, builtins.int:250), '
                   'tuple(builtins.int:250, builtins.int:290)))',
 'regular|bool:True': "list(builtins.bool:True, dict{builtins.int:0: dict{builtins.str:'offset': "
                      "builtins.int:10, builtins.str:'size': builtins.int:40}, builtins.int:1: "
                      "dict{builtins.str:'offset': builtins.int:50, builtins.str:'size': "
                      "builtins.int:40}, builtins.int:2: dict{builtins.str:'offset': "
                      "builtins.int:90, builtins.str:'size': builtins.int:40}, builtins.int:3: "
                      "dict{builtins.str:'offset': builtins.int:130, builtins.str:'size': "
                      "builtins.int:40}, builtins.int:4: dict{builtins.str:'offset': "
                      "builtins.int:170, builtins.str:'size': builtins.int:40}, builtins.int:5: "
                      "dict{builtins.str:'offset': builtins.int:210, builtins.str:'size': "
                      "builtins.int:40}, builtins.int:6: dict{builtins.str:'offset': "
                      "builtins.int:250, builtins.str:'size': builtins.int:40}}, "
                      'builtins.str:"Array(url=\'image\', shape=(7, 20), dtype=\'uint16\', '
                      'records_per_chunk=True)", tuple(builtins.bool:True, builtins.int:20), '
                      'builtins.int:2, tuple(builtins.int:7, builtins.int:20), '
                      'list(tuple(builtins.int:10, builtins.int:50), tuple(builtins.int:50, '
                      'builtins.int:90), tuple(builtins.int:90, builtins.int:130), '
                      'tuple(builtins.int:130, builtins.int:170), tuple(builtins.int:170, '
                      'builtins.int:210), tuple(builtins.int:210, builtins.int:250), '
                      'tuple(builtins.int:250, builtins.int:290)))',
 'regular|bool:False': 'list(builtins.bool:False, dict{}, builtins.str:"Array(url=\'image\', '
                       'shape=(7, 20), dtype=\'uint16\', records_per_chunk=False)", '
                       'tuple(builtins.bool:False, builtins.int:20), builtins.int:2, '
                       'tuple(builtins.int:7, builtins.int:20), list(tuple(builtins.int:10, '
                       'builtins.int:50), tuple(builtins.int:50, builtins.int:90), '
                       'tuple(builtins.int:90, builtins.int:130), tuple(builtins.int:130, '
                       'builtins.int:170), tuple(builtins.int:170, builtins.int:210), '
                       'tuple(builtins.int:210, builtins.int:250), tuple(builtins.int:250, '
                       'builtins.int:290)))',
 'regular|int64:np.int64(3)': 'list(numpy.int64(np.int64(3)), dict{builtins.int:0: '
                              "dict{builtins.str:'offset': builtins.int:10, builtins.str:'size': "
                              "builtins.int:120}, builtins.int:1: dict{builtins.str:'offset': "
                              "builtins.int:130, builtins.str:'size': builtins.int:120}, "
                              "builtins.int:2: dict{builtins.str:'offset': builtins.int:250, "
                              "builtins.str:'size': builtins.int:40}}, "
                              'builtins.str:"Array(url=\'image\', shape=(7, 20), dtype=\'uint16\', '
                              'records_per_chunk=np.int64(3))", tuple(numpy.int64(np.int64(3)), '
                              'builtins.int:20), builtins.int:2, tuple(builtins.int:7, '
                              'builtins.int:20), list(tuple(builtins.int:10, builtins.int:50), '
                              'tuple(builtins.int:50, builtins.int:90), tuple(builtins.int:90, '
                              'builtins.int:130), tuple(builtins.int:130, builtins.int:170), '
                              'tuple(builtins.int:170, builtins.int:210), tuple(builtins.int:210, '
                              'builtins.int:250), tuple(builtins.int:250, builtins.int:290)))',
 'regular|int64:np.int64(-1)': 'list(builtins.int:7, dict{builtins.int:0: '
                               "dict{builtins.str:'offset': builtins.int:10, builtins.str:'size': "
                               'builtins.int:280}}, builtins.str:"Array(url=\'image\', shape=(7, '
                               '20), dtype=\'uint16\', records_per_chunk=7)", '
                               'tuple(builtins.int:7, builtins.int:20), builtins.int:2, '
                               'tuple(builtins.int:7, builtins.int:20), '
                               'list(tuple(builtins.int:10, builtins.int:50), '
                               'tuple(builtins.int:50, builtins.int:90), tuple(builtins.int:90, '
                               'builtins.int:130), tuple(builtins.int:130, builtins.int:170), '
                               'tuple(builtins.int:170, builtins.int:210), tuple(builtins.int:210, '
                               'builtins.int:250), tuple(builtins.int:250, builtins.int:290)))',
 'regular|int64:np.int64(1000000)': 'list(builtins.int:7, dict{builtins.int:0: '
                                    "dict{builtins.str:'offset': builtins.int:10, "
                                    "builtins.str:'size': builtins.int:280}}, "
                                    'builtins.str:"Array(url=\'image\', shape=(7, 20), '
                                    'dtype=\'uint16\', records_per_chunk=7)", '
                                    'tuple(builtins.int:7, builtins.int:20), builtins.int:2, '
                                    'tuple(builtins.int:7, builtins.int:20), '
                                    'list(tuple(builtins.int:10, builtins.int:50), '
                                    'tuple(builtins.int:50, builtins.int:90), '
                                    'tuple(builtins.int:90, builtins.int:130), '
                                    'tuple(builtins.int:130, builtins.int:170), '
                                    'tuple(builtins.int:170, builtins.int:210), '
                                    'tuple(builtins.int:210, builtins.int:250), '
                                    'tuple(builtins.int:250, builtins.int:290)))',
 'regular|float:2.0': "raise builtins.TypeError: can't multiply sequence by non-int of type "
                      "'float'",
 'regular|float:2.5': "raise builtins.TypeError: can't multiply sequence by non-int of type "
                      "'float'",
 'regular|float:-1.0': "list(builtins.int:7, dict{builtins.int:0: dict{builtins.str:'offset': "
                       "builtins.int:10, builtins.str:'size': builtins.int:280}}, "
                       'builtins.str:"Array(url=\'image\', shape=(7, 20), dtype=\'uint16\', '
                       'records_per_chunk=7)", tuple(builtins.int:7, builtins.int:20), '
                       'builtins.int:2, tuple(builtins.int:7, builtins.int:20), '
                       'list(tuple(builtins.int:10, builtins.int:50), tuple(builtins.int:50, '
                       'builtins.int:90), tuple(builtins.int:90, builtins.int:130), '
                       'tuple(builtins.int:130, builtins.int:170), tuple(builtins.int:170, '
                       'builtins.int:210), tuple(builtins.int:210, builtins.int:250), '
                       'tuple(builtins.int:250, builtins.int:290)))',
 'regular|float:nan': "raise builtins.TypeError: can't multiply sequence by non-int of type "
                      "'float'",
 'regular|float:inf': "list(builtins.int:7, dict{builtins.int:0: dict{builtins.str:'offset': "
                      "builtins.int:10, builtins.str:'size': builtins.int:280}}, "
                      'builtins.str:"Array(url=\'image\', shape=(7, 20), dtype=\'uint16\', '
                      'records_per_chunk=7)", tuple(builtins.int:7, builtins.int:20), '
                      'builtins.int:2, tuple(builtins.int:7, builtins.int:20), '
                      'list(tuple(builtins.int:10, builtins.int:50), tuple(builtins.int:50, '
                      'builtins.int:90), tuple(builtins.int:90, builtins.int:130), '
                      'tuple(builtins.int:130, builtins.int:170), tuple(builtins.int:170, '
                      'builtins.int:210), tuple(builtins.int:210, builtins.int:250), '
                      'tuple(builtins.int:250, builtins.int:290)))',
 "regular|bytes:b'auto'": "raise builtins.TypeError: '>' not supported between instances of "
                          "'bytes' and 'int'",
 'regular|list:[2]': "raise builtins.TypeError: '>' not supported between instances of 'list' and "
                     "'int'",
 'regular|tuple:(2,)': "raise builtins.TypeError: '>' not supported between instances of 'tuple' "
                       "and 'int'",
 'regular|dict:{}': "raise builtins.TypeError: '>' not supported between instances of 'dict' and "
                    "'int'",
 'regular|complex:(1+0j)': "raise builtins.TypeError: '>' not supported between instances of "
                           "'complex' and 'int'",
 "gaps|str:'<omitted>'": "list(builtins.int:1024, dict{builtins.int:0: dict{builtins.str:'offset': "
                         "builtins.int:5, builtins.str:'size': builtins.int:135}}, "
                         'builtins.str:"Array(url=\'image\', shape=(5, 10), dtype=\'uint16\', '
                         'records_per_chunk=1024)", tuple(builtins.int:1024, builtins.int:10), '
                         'builtins.int:2, tuple(builtins.int:5, builtins.int:10), '
                         'list(tuple(builtins.int:5, builtins.int:25), tuple(builtins.int:30, '
                         'builtins.int:50), tuple(builtins.int:61, builtins.int:81), '
                         'tuple(builtins.int:100, builtins.int:120), tuple(builtins.int:120, '
                         'builtins.int:140)))',
 'gaps|NoneType:None': "list(builtins.int:1024, dict{builtins.int:0: dict{builtins.str:'offset': "
                       "builtins.int:5, builtins.str:'size': builtins.int:135}}, "
                       'builtins.str:"Array(url=\'image\', shape=(5, 10), dtype=\'uint16\', '
                       'records_per_chunk=1024)", tuple(builtins.int:1024, builtins.int:10), '
                       'builtins.int:2, tuple(builtins.int:5, builtins.int:10), '
                       'list(tuple(builtins.int:5, builtins.int:25), tuple(builtins.int:30, '
                       'builtins.int:50), tuple(builtins.int:61, builtins.int:81), '
                       'tuple(builtins.int:100, builtins.int:120), tuple(builtins.int:120, '
                       'builtins.int:140)))',
 "gaps|str:'auto'": 'list(numpy.int64(np.int64(5)), dict{builtins.int:0: '
                    "dict{builtins.str:'offset': builtins.int:5, builtins.str:'size': "
                    'builtins.int:135}}, builtins.str:"Array(url=\'image\', shape=(5, 10), '
                    'dtype=\'uint16\', records_per_chunk=np.int64(5))", '
                    'tuple(numpy.int64(np.int64(5)), builtins.int:10), builtins.int:2, '
                    'tuple(builtins.int:5, builtins.int:10), list(tuple(builtins.int:5, '
                    'builtins.int:25), tuple(builtins.int:30, builtins.int:50), '
                    'tuple(builtins.int:61, builtins.int:81), tuple(builtins.int:100, '
                    'builtins.int:120), tuple(builtins.int:120, builtins.int:140)))',
 "gaps|str:'80B'": 'list(numpy.int64(np.int64(4)), dict{builtins.int:0: '
                   "dict{builtins.str:'offset': builtins.int:5, builtins.str:'size': "
                   "builtins.int:115}, builtins.int:1: dict{builtins.str:'offset': "
                   "builtins.int:120, builtins.str:'size': builtins.int:20}}, "
                   'builtins.str:"Array(url=\'image\', shape=(5, 10), dtype=\'uint16\', '
                   'records_per_chunk=np.int64(4))", tuple(numpy.int64(np.int64(4)), '
                   'builtins.int:10), builtins.int:2, tuple(builtins.int:5, builtins.int:10), '
                   'list(tuple(builtins.int:5, builtins.int:25), tuple(builtins.int:30, '
                   'builtins.int:50), tuple(builtins.int:61, builtins.int:81), '
                   'tuple(builtins.int:100, builtins.int:120), tuple(builtins.int:120, '
                   'builtins.int:140)))',
 "gaps|str:'81B'": 'list(numpy.int64(np.int64(4)), dict{builtins.int:0: '
                   "dict{builtins.str:'offset': builtins.int:5, builtins.str:'size': "
                   "builtins.int:115}, builtins.int:1: dict{builtins.str:'offset': "
                   "builtins.int:120, builtins.str:'size': builtins.int:20}}, "
                   'builtins.str:"Array(url=\'image\', shape=(5, 10), dtype=\'uint16\', '
                   'records_per_chunk=np.int64(4))", tuple(numpy.int64(np.int64(4)), '
                   'builtins.int:10), builtins.int:2, tuple(builtins.int:5, builtins.int:10), '
                   'list(tuple(builtins.int:5, builtins.int:25), tuple(builtins.int:30, '
                   'builtins.int:50), tuple(builtins.int:61, builtins.int:81), '
                   'tuple(builtins.int:100, builtins.int:120), tuple(builtins.int:120, '
                   'builtins.int:140)))',
 "gaps|str:'100B'": 'list(numpy.int64(np.int64(5)), dict{builtins.int:0: '
                    "dict{builtins.str:'offset': builtins.int:5, builtins.str:'size': "
                    'builtins.int:135}}, builtins.str:"Array(url=\'image\', shape=(5, 10), '
                    'dtype=\'uint16\', records_per_chunk=np.int64(5))", '
                    'tuple(numpy.int64(np.int64(5)), builtins.int:10), builtins.int:2, '
                    'tuple(builtins.int:5, builtins.int:10), list(tuple(builtins.int:5, '
                    'builtins.int:25), tuple(builtins.int:30, builtins.int:50), '
                    'tuple(builtins.int:61, builtins.int:81), tuple(builtins.int:100, '
                    'builtins.int:120), tuple(builtins.int:120, builtins.int:140)))',
 "gaps|str:'119B'": 'list(numpy.int64(np.int64(5)), dict{builtins.int:0: '
                    "dict{builtins.str:'offset': builtins.int:5, builtins.str:'size': "
                    'builtins.int:135}}, builtins.str:"Array(url=\'image\', shape=(5, 10), '
                    'dtype=\'uint16\', records_per_chunk=np.int64(5))", '
                    'tuple(numpy.int64(np.int64(5)), builtins.int:10), builtins.int:2, '
                    'tuple(builtins.int:5, builtins.int:10), list(tuple(builtins.int:5, '
                    'builtins.int:25), tuple(builtins.int:30, builtins.int:50), '
                    'tuple(builtins.int:61, builtins.int:81), tuple(builtins.int:100, '
                    'builtins.int:120), tuple(builtins.int:120, builtins.int:140)))',
 "gaps|str:'120B'": 'list(numpy.int64(np.int64(5)), dict{builtins.int:0: '
                    "dict{builtins.str:'offset': builtins.int:5, builtins.str:'size': "
                    'builtins.int:135}}, builtins.str:"Array(url=\'image\', shape=(5, 10), '
                    'dtype=\'uint16\', records_per_chunk=np.int64(5))", '
                    'tuple(numpy.int64(np.int64(5)), builtins.int:10), builtins.int:2, '
                    'tuple(builtins.int:5, builtins.int:10), list(tuple(builtins.int:5, '
                    'builtins.int:25), tuple(builtins.int:30, builtins.int:50), '
                    'tuple(builtins.int:61, builtins.int:81), tuple(builtins.int:100, '
                    'builtins.int:120), tuple(builtins.int:120, builtins.int:140)))',
 "gaps|str:'121B'": 'list(numpy.int64(np.int64(5)), dict{builtins.int:0: '
                    "dict{builtins.str:'offset': builtins.int:5, builtins.str:'size': "
                    'builtins.int:135}}, builtins.str:"Array(url=\'image\', shape=(5, 10), '
                    'dtype=\'uint16\', records_per_chunk=np.int64(5))", '
                    'tuple(numpy.int64(np.int64(5)), builtins.int:10), builtins.int:2, '
                    'tuple(builtins.int:5, builtins.int:10), list(tuple(builtins.int:5, '
                    'builtins.int:25), tuple(builtins.int:30, builtins.int:50), '
                    'tuple(builtins.int:61, builtins.int:81), tuple(builtins.int:100, '
                    'builtins.int:120), tuple(builtins.int:120, builtins.int:140)))',
 "gaps|str:'0B'": "list(numpy.int64(np.int64(1)), dict{builtins.int:0: dict{builtins.str:'offset': "
                  "builtins.int:5, builtins.str:'size': builtins.int:20}, builtins.int:1: "
                  "dict{builtins.str:'offset': builtins.int:30, builtins.str:'size': "
                  "builtins.int:20}, builtins.int:2: dict{builtins.str:'offset': builtins.int:61, "
                  "builtins.str:'size': builtins.int:20}, builtins.int:3: "
                  "dict{builtins.str:'offset': builtins.int:100, builtins.str:'size': "
                  "builtins.int:20}, builtins.int:4: dict{builtins.str:'offset': builtins.int:120, "
                  'builtins.str:\'size\': builtins.int:20}}, builtins.str:"Array(url=\'image\', '
                  'shape=(5, 10), dtype=\'uint16\', records_per_chunk=np.int64(1))", '
                  'tuple(numpy.int64(np.int64(1)), builtins.int:10), builtins.int:2, '
                  'tuple(builtins.int:5, builtins.int:10), list(tuple(builtins.int:5, '
                  'builtins.int:25), tuple(builtins.int:30, builtins.int:50), '
                  'tuple(builtins.int:61, builtins.int:81), tuple(builtins.int:100, '
                  'builtins.int:120), tuple(builtins.int:120, builtins.int:140)))',
 "gaps|str:'1kB'": 'list(numpy.int64(np.int64(5)), dict{builtins.int:0: '
                   "dict{builtins.str:'offset': builtins.int:5, builtins.str:'size': "
                   'builtins.int:135}}, builtins.str:"Array(url=\'image\', shape=(5, 10), '
                   'dtype=\'uint16\', records_per_chunk=np.int64(5))", '
                   'tuple(numpy.int64(np.int64(5)), builtins.int:10), builtins.int:2, '
                   'tuple(builtins.int:5, builtins.int:10), list(tuple(builtins.int:5, '
                   'builtins.int:25), tuple(builtins.int:30, builtins.int:50), '
                   'tuple(builtins.int:61, builtins.int:81), tuple(builtins.int:100, '
                   'builtins.int:120), tuple(builtins.int:120, builtins.int:140)))',
 "gaps|str:'1kiB'": 'list(numpy.int64(np.int64(5)), dict{builtins.int:0: '
                    "dict{builtins.str:'offset': builtins.int:5, builtins.str:'size': "
                    'builtins.int:135}}, builtins.str:"Array(url=\'image\', shape=(5, 10), '
                    'dtype=\'uint16\', records_per_chunk=np.int64(5))", '
                    'tuple(numpy.int64(np.int64(5)), builtins.int:10), builtins.int:2, '
                    'tuple(builtins.int:5, builtins.int:10), list(tuple(builtins.int:5, '
                    'builtins.int:25), tuple(builtins.int:30, builtins.int:50), '
                    'tuple(builtins.int:61, builtins.int:81), tuple(builtins.int:100, '
                    'builtins.int:120), tuple(builtins.int:120, builtins.int:140)))',
 "gaps|str:'1 MiB'": 'list(numpy.int64(np.int64(5)), dict{builtins.int:0: '
                     "dict{builtins.str:'offset': builtins.int:5, builtins.str:'size': "
                     'builtins.int:135}}, builtins.str:"Array(url=\'image\', shape=(5, 10), '
                     'dtype=\'uint16\', records_per_chunk=np.int64(5))", '
                     'tuple(numpy.int64(np.int64(5)), builtins.int:10), builtins.int:2, '
                     'tuple(builtins.int:5, builtins.int:10), list(tuple(builtins.int:5, '
                     'builtins.int:25), tuple(builtins.int:30, builtins.int:50), '
                     'tuple(builtins.int:61, builtins.int:81), tuple(builtins.int:100, '
                     'builtins.int:120), tuple(builtins.int:120, builtins.int:140)))',
 "gaps|str:'95MiB'": 'list(numpy.int64(np.int64(5)), dict{builtins.int:0: '
                     "dict{builtins.str:'offset': builtins.int:5, builtins.str:'size': "
                     'builtins.int:135}}, builtins.str:"Array(url=\'image\', shape=(5, 10), '
                     'dtype=\'uint16\', records_per_chunk=np.int64(5))", '
                     'tuple(numpy.int64(np.int64(5)), builtins.int:10), builtins.int:2, '
                     'tuple(builtins.int:5, builtins.int:10), list(tuple(builtins.int:5, '
                     'builtins.int:25), tuple(builtins.int:30, builtins.int:50), '
                     'tuple(builtins.int:61, builtins.int:81), tuple(builtins.int:100, '
                     'builtins.int:120), tuple(builtins.int:120, builtins.int:140)))',
 "gaps|str:'0.1 GB'": 'list(numpy.int64(np.int64(5)), dict{builtins.int:0: '
                      "dict{builtins.str:'offset': builtins.int:5, builtins.str:'size': "
                      'builtins.int:135}}, builtins.str:"Array(url=\'image\', shape=(5, 10), '
                      'dtype=\'uint16\', records_per_chunk=np.int64(5))", '
                      'tuple(numpy.int64(np.int64(5)), builtins.int:10), builtins.int:2, '
                      'tuple(builtins.int:5, builtins.int:10), list(tuple(builtins.int:5, '
                      'builtins.int:25), tuple(builtins.int:30, builtins.int:50), '
                      'tuple(builtins.int:61, builtins.int:81), tuple(builtins.int:100, '
                      'builtins.int:120), tuple(builtins.int:120, builtins.int:140)))',
 "gaps|str:'100'": 'list(numpy.int64(np.int64(5)), dict{builtins.int:0: '
                   "dict{builtins.str:'offset': builtins.int:5, builtins.str:'size': "
                   'builtins.int:135}}, builtins.str:"Array(url=\'image\', shape=(5, 10), '
                   'dtype=\'uint16\', records_per_chunk=np.int64(5))", '
                   'tuple(numpy.int64(np.int64(5)), builtins.int:10), builtins.int:2, '
                   'tuple(builtins.int:5, builtins.int:10), list(tuple(builtins.int:5, '
                   'builtins.int:25), tuple(builtins.int:30, builtins.int:50), '
                   'tuple(builtins.int:61, builtins.int:81), tuple(builtins.int:100, '
                   'builtins.int:120), tuple(builtins.int:120, builtins.int:140)))',
 "gaps|str:'1e2'": 'list(numpy.int64(np.int64(5)), dict{builtins.int:0: '
                   "dict{builtins.str:'offset': builtins.int:5, builtins.str:'size': "
                   'builtins.int:135}}, builtins.str:"Array(url=\'image\', shape=(5, 10), '
                   'dtype=\'uint16\', records_per_chunk=np.int64(5))", '
                   'tuple(numpy.int64(np.int64(5)), builtins.int:10), builtins.int:2, '
                   'tuple(builtins.int:5, builtins.int:10), list(tuple(builtins.int:5, '
                   'builtins.int:25), tuple(builtins.int:30, builtins.int:50), '
                   'tuple(builtins.int:61, builtins.int:81), tuple(builtins.int:100, '
                   'builtins.int:120), tuple(builtins.int:120, builtins.int:140)))',
 "gaps|str:'kB'": "list(numpy.int64(np.int64(5)), dict{builtins.int:0: dict{builtins.str:'offset': "
                  "builtins.int:5, builtins.str:'size': builtins.int:135}}, "
                  'builtins.str:"Array(url=\'image\', shape=(5, 10), dtype=\'uint16\', '
                  'records_per_chunk=np.int64(5))", tuple(numpy.int64(np.int64(5)), '
                  'builtins.int:10), builtins.int:2, tuple(builtins.int:5, builtins.int:10), '
                  'list(tuple(builtins.int:5, builtins.int:25), tuple(builtins.int:30, '
                  'builtins.int:50), tuple(builtins.int:61, builtins.int:81), '
                  'tuple(builtins.int:100, builtins.int:120), tuple(builtins.int:120, '
                  'builtins.int:140)))',
 "gaps|str:''": "list(numpy.int64(np.int64(1)), dict{builtins.int:0: dict{builtins.str:'offset': "
                "builtins.int:5, builtins.str:'size': builtins.int:20}, builtins.int:1: "
                "dict{builtins.str:'offset': builtins.int:30, builtins.str:'size': "
                "builtins.int:20}, builtins.int:2: dict{builtins.str:'offset': builtins.int:61, "
                "builtins.str:'size': builtins.int:20}, builtins.int:3: "
                "dict{builtins.str:'offset': builtins.int:100, builtins.str:'size': "
                "builtins.int:20}, builtins.int:4: dict{builtins.str:'offset': builtins.int:120, "
                'builtins.str:\'size\': builtins.int:20}}, builtins.str:"Array(url=\'image\', '
                'shape=(5, 10), dtype=\'uint16\', records_per_chunk=np.int64(1))", '
                'tuple(numpy.int64(np.int64(1)), builtins.int:10), builtins.int:2, '
                'tuple(builtins.int:5, builtins.int:10), list(tuple(builtins.int:5, '
                'builtins.int:25), tuple(builtins.int:30, builtins.int:50), tuple(builtins.int:61, '
                'builtins.int:81), tuple(builtins.int:100, builtins.int:120), '
                'tuple(builtins.int:120, builtins.int:140)))',
 "gaps|str:'5 foos'": "raise builtins.ValueError: Could not interpret 'foos' as a byte unit",
 "gaps|str:'abc'": "raise builtins.ValueError: Could not interpret 'abc' as a byte unit",
 "gaps|str:'AUTO'": "raise builtins.ValueError: Could not interpret 'AUTO' as a byte unit",
 "gaps|str:' auto'": "raise builtins.ValueError: Could not interpret 'auto' as a byte unit",
 "gaps|Text:'auto'": 'list(numpy.int64(np.int64(5)), dict{builtins.int:0: '
                     "dict{builtins.str:'offset': builtins.int:5, builtins.str:'size': "
                     'builtins.int:135}}, builtins.str:"Array(url=\'image\', shape=(5, 10), '
                     'dtype=\'uint16\', records_per_chunk=np.int64(5))", '
                     'tuple(numpy.int64(np.int64(5)), builtins.int:10), builtins.int:2, '
                     'tuple(builtins.int:5, builtins.int:10), list(tuple(builtins.int:5, '
                     'builtins.int:25), tuple(builtins.int:30, builtins.int:50), '
                     'tuple(builtins.int:61, builtins.int:81), tuple(builtins.int:100, '
                     'builtins.int:120), tuple(builtins.int:120, builtins.int:140)))',
 "gaps|Text:'160B'": 'list(numpy.int64(np.int64(5)), dict{builtins.int:0: '
                     "dict{builtins.str:'offset': builtins.int:5, builtins.str:'size': "
                     'builtins.int:135}}, builtins.str:"Array(url=\'image\', shape=(5, 10), '
                     'dtype=\'uint16\', records_per_chunk=np.int64(5))", '
                     'tuple(numpy.int64(np.int64(5)), builtins.int:10), builtins.int:2, '
                     'tuple(builtins.int:5, builtins.int:10), list(tuple(builtins.int:5, '
                     'builtins.int:25), tuple(builtins.int:30, builtins.int:50), '
                     'tuple(builtins.int:61, builtins.int:81), tuple(builtins.int:100, '
                     'builtins.int:120), tuple(builtins.int:120, builtins.int:140)))',
 'gaps|int:-1': "list(builtins.int:5, dict{builtins.int:0: dict{builtins.str:'offset': "
                "builtins.int:5, builtins.str:'size': builtins.int:135}}, "
                'builtins.str:"Array(url=\'image\', shape=(5, 10), dtype=\'uint16\', '
                'records_per_chunk=5)", tuple(builtins.int:5, builtins.int:10), builtins.int:2, '
                'tuple(builtins.int:5, builtins.int:10), list(tuple(builtins.int:5, '
                'builtins.int:25), tuple(builtins.int:30, builtins.int:50), tuple(builtins.int:61, '
                'builtins.int:81), tuple(builtins.int:100, builtins.int:120), '
                'tuple(builtins.int:120, builtins.int:140)))',
 'gaps|int:0': 'list(builtins.int:0, dict{}, builtins.str:"Array(url=\'image\', shape=(5, 10), '
               'dtype=\'uint16\', records_per_chunk=0)", tuple(builtins.int:0, builtins.int:10), '
               'builtins.int:2, tuple(builtins.int:5, builtins.int:10), list(tuple(builtins.int:5, '
               'builtins.int:25), tuple(builtins.int:30, builtins.int:50), tuple(builtins.int:61, '
               'builtins.int:81), tuple(builtins.int:100, builtins.int:120), '
               'tuple(builtins.int:120, builtins.int:140)))',
 'gaps|int:1': "list(builtins.int:1, dict{builtins.int:0: dict{builtins.str:'offset': "
               "builtins.int:5, builtins.str:'size': builtins.int:20}, builtins.int:1: "
               "dict{builtins.str:'offset': builtins.int:30, builtins.str:'size': "
               "builtins.int:20}, builtins.int:2: dict{builtins.str:'offset': builtins.int:61, "
               "builtins.str:'size': builtins.int:20}, builtins.int:3: dict{builtins.str:'offset': "
               "builtins.int:100, builtins.str:'size': builtins.int:20}, builtins.int:4: "
               "dict{builtins.str:'offset': builtins.int:120, builtins.str:'size': "
               'builtins.int:20}}, builtins.str:"Array(url=\'image\', shape=(5, 10), '
               'dtype=\'uint16\', records_per_chunk=1)", tuple(builtins.int:1, builtins.int:10), '
               'builtins.int:2, tuple(builtins.int:5, builtins.int:10), list(tuple(builtins.int:5, '
               'builtins.int:25), tuple(builtins.int:30, builtins.int:50), tuple(builtins.int:61, '
               'builtins.int:81), tuple(builtins.int:100, builtins.int:120), '
               'tuple(builtins.int:120, builtins.int:140)))',
 'gaps|int:2': "list(builtins.int:2, dict{builtins.int:0: dict{builtins.str:'offset': "
               "builtins.int:5, builtins.str:'size': builtins.int:45}, builtins.int:1: "
               "dict{builtins.str:'offset': builtins.int:61, builtins.str:'size': "
               "builtins.int:59}, builtins.int:2: dict{builtins.str:'offset': builtins.int:120, "
               'builtins.str:\'size\': builtins.int:20}}, builtins.str:"Array(url=\'image\', '
               'shape=(5, 10), dtype=\'uint16\', records_per_chunk=2)", tuple(builtins.int:2, '
               'builtins.int:10), builtins.int:2, tuple(builtins.int:5, builtins.int:10), '
               'list(tuple(builtins.int:5, builtins.int:25), tuple(builtins.int:30, '
               'builtins.int:50), tuple(builtins.int:61, builtins.int:81), tuple(builtins.int:100, '
               'builtins.int:120), tuple(builtins.int:120, builtins.int:140)))',
 'gaps|int:3': "list(builtins.int:3, dict{builtins.int:0: dict{builtins.str:'offset': "
               "builtins.int:5, builtins.str:'size': builtins.int:76}, builtins.int:1: "
               "dict{builtins.str:'offset': builtins.int:100, builtins.str:'size': "
               'builtins.int:40}}, builtins.str:"Array(url=\'image\', shape=(5, 10), '
               'dtype=\'uint16\', records_per_chunk=3)", tuple(builtins.int:3, builtins.int:10), '
               'builtins.int:2, tuple(builtins.int:5, builtins.int:10), list(tuple(builtins.int:5, '
               'builtins.int:25), tuple(builtins.int:30, builtins.int:50), tuple(builtins.int:61, '
               'builtins.int:81), tuple(builtins.int:100, builtins.int:120), '
               'tuple(builtins.int:120, builtins.int:140)))',
 'gaps|int:4': "list(builtins.int:4, dict{builtins.int:0: dict{builtins.str:'offset': "
               "builtins.int:5, builtins.str:'size': builtins.int:115}, builtins.int:1: "
               "dict{builtins.str:'offset': builtins.int:120, builtins.str:'size': "
               'builtins.int:20}}, builtins.str:"Array(url=\'image\', shape=(5, 10), '
               'dtype=\'uint16\', records_per_chunk=4)", tuple(builtins.int:4, builtins.int:10), '
               'builtins.int:2, tuple(builtins.int:5, builtins.int:10), list(tuple(builtins.int:5, '
               'builtins.int:25), tuple(builtins.int:30, builtins.int:50), tuple(builtins.int:61, '
               'builtins.int:81), tuple(builtins.int:100, builtins.int:120), '
               'tuple(builtins.int:120, builtins.int:140)))',
 'gaps|int:5': "list(builtins.int:5, dict{builtins.int:0: dict{builtins.str:'offset': "
               "builtins.int:5, builtins.str:'size': builtins.int:135}}, "
               'builtins.str:"Array(url=\'image\', shape=(5, 10), dtype=\'uint16\', '
               'records_per_chunk=5)", tuple(builtins.int:5, builtins.int:10), builtins.int:2, '
               'tuple(builtins.int:5, builtins.int:10), list(tuple(builtins.int:5, '
               'builtins.int:25), tuple(builtins.int:30, builtins.int:50), tuple(builtins.int:61, '
               'builtins.int:81), tuple(builtins.int:100, builtins.int:120), '
               'tuple(builtins.int:120, builtins.int:140)))',
 'gaps|int:6': "list(builtins.int:5, dict{builtins.int:0: dict{builtins.str:'offset': "
               "builtins.int:5, builtins.str:'size': builtins.int:135}}, "
               'builtins.str:"Array(url=\'image\', shape=(5, 10), dtype=\'uint16\', '
               'records_per_chunk=5)", tuple(builtins.int:5, builtins.int:10), builtins.int:2, '
               'tuple(builtins.int:5, builtins.int:10), list(tuple(builtins.int:5, '
               'builtins.int:25), tuple(builtins.int:30, builtins.int:50), tuple(builtins.int:61, '
               'builtins.int:81), tuple(builtins.int:100, builtins.int:120), '
               'tuple(builtins.int:120, builtins.int:140)))',
 'gaps|int:7': "list(builtins.int:5, dict{builtins.int:0: dict{builtins.str:'offset': "
               "builtins.int:5, builtins.str:'size': builtins.int:135}}, "
               'builtins.str:"Array(url=\'image\', shape=(5, 10), dtype=\'uint16\', '
               'records_per_chunk=5)", tuple(builtins.int:5, builtins.int:10), builtins.int:2, '
               'tuple(builtins.int:5, builtins.int:10), list(tuple(builtins.int:5, '
               'builtins.int:25), tuple(builtins.int:30, builtins.int:50), tuple(builtins.int:61, '
               'builtins.int:81), tuple(builtins.int:100, builtins.int:120), '
               'tuple(builtins.int:120, builtins.int:140)))',
 'gaps|int:8': "list(builtins.int:5, dict{builtins.int:0: dict{builtins.str:'offset': "
               "builtins.int:5, builtins.str:'size': builtins.int:135}}, "
               'builtins.str:"Array(url=\'image\', shape=(5, 10), dtype=\'uint16\', '
               'records_per_chunk=5)", tuple(builtins.int:5, builtins.int:10), builtins.int:2, '
               'tuple(builtins.int:5, builtins.int:10), list(tuple(builtins.int:5, '
               'builtins.int:25), tuple(builtins.int:30, builtins.int:50), tuple(builtins.int:61, '
               'builtins.int:81), tuple(builtins.int:100, builtins.int:120), '
               'tuple(builtins.int:120, builtins.int:140)))',
 'gaps|int:1024': "list(builtins.int:5, dict{builtins.int:0: dict{builtins.str:'offset': "
                  "builtins.int:5, builtins.str:'size': builtins.int:135}}, "
                  'builtins.str:"Array(url=\'image\', shape=(5, 10), dtype=\'uint16\', '
                  'records_per_chunk=5)", tuple(builtins.int:5, builtins.int:10), builtins.int:2, '
                  'tuple(builtins.int:5, builtins.int:10), list(tuple(builtins.int:5, '
                  'builtins.int:25), tuple(builtins.int:30, builtins.int:50), '
                  'tuple(builtins.int:61, builtins.int:81), tuple(builtins.int:100, '
                  'builtins.int:120), tuple(builtins.int:120, builtins.int:140)))',
 'gaps|int:-2': 'list(builtins.int:-2, dict{}, builtins.str:"Array(url=\'image\', shape=(5, 10), '
                'dtype=\'uint16\', records_per_chunk=-2)", tuple(builtins.int:-2, '
                'builtins.int:10), builtins.int:2, tuple(builtins.int:5, builtins.int:10), '
                'list(tuple(builtins.int:5, builtins.int:25), tuple(builtins.int:30, '
                'builtins.int:50), tuple(builtins.int:61, builtins.int:81), '
                'tuple(builtins.int:100, builtins.int:120), tuple(builtins.int:120, '
                'builtins.int:140)))',
 'gaps|bool:True': "list(builtins.bool:True, dict{builtins.int:0: dict{builtins.str:'offset': "
                   "builtins.int:5, builtins.str:'size': builtins.int:20}, builtins.int:1: "
                   "dict{builtins.str:'offset': builtins.int:30, builtins.str:'size': "
                   "builtins.int:20}, builtins.int:2: dict{builtins.str:'offset': builtins.int:61, "
                   "builtins.str:'size': builtins.int:20}, builtins.int:3: "
                   "dict{builtins.str:'offset': builtins.int:100, builtins.str:'size': "
                   "builtins.int:20}, builtins.int:4: dict{builtins.str:'offset': "
                   "builtins.int:120, builtins.str:'size': builtins.int:20}}, "
                   'builtins.str:"Array(url=\'image\', shape=(5, 10), dtype=\'uint16\', '
                   'records_per_chunk=True)", tuple(builtins.bool:True, builtins.int:10), '
                   'builtins.int:2, tuple(builtins.int:5, builtins.int:10), '
                   'list(tuple(builtins.int:5, builtins.int:25), tuple(builtins.int:30, '
                   'builtins.int:50), tuple(builtins.int:61, builtins.int:81), '
                   'tuple(builtins.int:100, builtins.int:120), tuple(builtins.int:120, '
                   'builtins.int:140)))',
 'gaps|bool:False': 'list(builtins.bool:False, dict{}, builtins.str:"Array(url=\'image\', '
                    'shape=(5, 10), dtype=\'uint16\', records_per_chunk=False)", '
                    'tuple(builtins.bool:False, builtins.int:10), builtins.int:2, '
                    'tuple(builtins.int:5, builtins.int:10), list(tuple(builtins.int:5, '
                    'builtins.int:25), tuple(builtins.int:30, builtins.int:50), '
                    'tuple(builtins.int:61, builtins.int:81), tuple(builtins.int:100, '
                    'builtins.int:120), tuple(builtins.int:120, builtins.int:140)))',
 'gaps|int64:np.int64(3)': 'list(numpy.int64(np.int64(3)), dict{builtins.int:0: '
                           "dict{builtins.str:'offset': builtins.int:5, builtins.str:'size': "
                           "builtins.int:76}, builtins.int:1: dict{builtins.str:'offset': "
                           "builtins.int:100, builtins.str:'size': builtins.int:40}}, "
                           'builtins.str:"Array(url=\'image\', shape=(5, 10), dtype=\'uint16\', '
                           'records_per_chunk=np.int64(3))", tuple(numpy.int64(np.int64(3)), '
                           'builtins.int:10), builtins.int:2, tuple(builtins.int:5, '
                           'builtins.int:10), list(tuple(builtins.int:5, builtins.int:25), '
                           'tuple(builtins.int:30, builtins.int:50), tuple(builtins.int:61, '
                           'builtins.int:81), tuple(builtins.int:100, builtins.int:120), '
                           'tuple(builtins.int:120, builtins.int:140)))',
 'gaps|int64:np.int64(-1)': "list(builtins.int:5, dict{builtins.int:0: dict{builtins.str:'offset': "
                            "builtins.int:5, builtins.str:'size': builtins.int:135}}, "
                            'builtins.str:"Array(url=\'image\', shape=(5, 10), dtype=\'uint16\', '
                            'records_per_chunk=5)", tuple(builtins.int:5, builtins.int:10), '
                            'builtins.int:2, tuple(builtins.int:5, builtins.int:10), '
                            'list(tuple(builtins.int:5, builtins.int:25), tuple(builtins.int:30, '
                            'builtins.int:50), tuple(builtins.int:61, builtins.int:81), '
                            'tuple(builtins.int:100, builtins.int:120), tuple(builtins.int:120, '
                            'builtins.int:140)))',
 'gaps|int64:np.int64(1000000)': 'list(builtins.int:5, dict{builtins.int:0: '
                                 "dict{builtins.str:'offset': builtins.int:5, builtins.str:'size': "
                                 'builtins.int:135}}, builtins.str:"Array(url=\'image\', shape=(5, '
                                 '10), dtype=\'uint16\', records_per_chunk=5)", '
                                 'tuple(builtins.int:5, builtins.int:10), builtins.int:2, '
                                 'tuple(builtins.int:5, builtins.int:10), '
                                 'list(tuple(builtins.int:5, builtins.int:25), '
                                 'tuple(builtins.int:30, builtins.int:50), tuple(builtins.int:61, '
                                 'builtins.int:81), tuple(builtins.int:100, builtins.int:120), '
                                 'tuple(builtins.int:120, builtins.int:140)))',
 'gaps|float:2.0': "raise builtins.TypeError: can't multiply sequence by non-int of type 'float'",
 'gaps|float:2.5': "raise builtins.TypeError: can't multiply sequence by non-int of type 'float'",
 'gaps|float:-1.0': "list(builtins.int:5, dict{builtins.int:0: dict{builtins.str:'offset': "
                    "builtins.int:5, builtins.str:'size': builtins.int:135}}, "
                    'builtins.str:"Array(url=\'image\', shape=(5, 10), dtype=\'uint16\', '
                    'records_per_chunk=5)", tuple(builtins.int:5, builtins.int:10), '
                    'builtins.int:2, tuple(builtins.int:5, builtins.int:10), '
                    'list(tuple(builtins.int:5, builtins.int:25), tuple(builtins.int:30, '
                    'builtins.int:50), tuple(builtins.int:61, builtins.int:81), '
                    'tuple(builtins.int:100, builtins.int:120), tuple(builtins.int:120, '
                    'builtins.int:140)))',
 'gaps|float:nan': "raise builtins.TypeError: can't multiply sequence by non-int of type 'float'",
 'gaps|float:inf': "list(builtins.int:5, dict{builtins.int:0: dict{builtins.str:'offset': "
                   "builtins.int:5, builtins.str:'size': builtins.int:135}}, "
                   'builtins.str:"Array(url=\'image\', shape=(5, 10), dtype=\'uint16\', '
                   'records_per_chunk=5)", tuple(builtins.int:5, builtins.int:10), builtins.int:2, '
                   'tuple(builtins.int:5, builtins.int:10), list(tuple(builtins.int:5, '
                   'builtins.int:25), tuple(builtins.int:30, builtins.int:50), '
                   'tuple(builtins.int:61, builtins.int:81), tuple(builtins.int:100, '
                   'builtins.int:120), tuple(builtins.int:120, builtins.int:140)))',
 "gaps|bytes:b'auto'": "raise builtins.TypeError: '>' not supported between instances of 'bytes' "
                       "and 'int'",
 'gaps|list:[2]': "raise builtins.TypeError: '>' not supported between instances of 'list' and "
                  "'int'",
 'gaps|tuple:(2,)': "raise builtins.TypeError: '>' not supported between instances of 'tuple' and "
                    "'int'",
 'gaps|dict:{}': "raise builtins.TypeError: '>' not supported between instances of 'dict' and "
                 "'int'",
 'gaps|complex:(1+0j)': "raise builtins.TypeError: '>' not supported between instances of "
                        "'complex' and 'int'",
 "uneven|str:'<omitted>'": 'list(builtins.int:1024, dict{builtins.int:0: '
                           "dict{builtins.str:'offset': builtins.int:0, builtins.str:'size': "
                           'builtins.int:90}}, builtins.str:"Array(url=\'image\', shape=(5, 3), '
                           'dtype=\'uint16\', records_per_chunk=1024)", tuple(builtins.int:1024, '
                           'builtins.int:3), builtins.int:2, tuple(builtins.int:5, '
                           'builtins.int:3), list(tuple(builtins.int:0, builtins.int:7), '
                           'tuple(builtins.int:7, builtins.int:13), tuple(builtins.int:13, '
                           'builtins.int:21), tuple(builtins.int:40, builtins.int:41), '
                           'tuple(builtins.int:41, builtins.int:90)))',
 'uneven|NoneType:None': "list(builtins.int:1024, dict{builtins.int:0: dict{builtins.str:'offset': "
                         "builtins.int:0, builtins.str:'size': builtins.int:90}}, "
                         'builtins.str:"Array(url=\'image\', shape=(5, 3), dtype=\'uint16\', '
                         'records_per_chunk=1024)", tuple(builtins.int:1024, builtins.int:3), '
                         'builtins.int:2, tuple(builtins.int:5, builtins.int:3), '
                         'list(tuple(builtins.int:0, builtins.int:7), tuple(builtins.int:7, '
                         'builtins.int:13), tuple(builtins.int:13, builtins.int:21), '
                         'tuple(builtins.int:40, builtins.int:41), tuple(builtins.int:41, '
                         'builtins.int:90)))',
 "uneven|str:'auto'": 'list(numpy.int64(np.int64(5)), dict{builtins.int:0: '
                      "dict{builtins.str:'offset': builtins.int:0, builtins.str:'size': "
                      'builtins.int:90}}, builtins.str:"Array(url=\'image\', shape=(5, 3), '
                      'dtype=\'uint16\', records_per_chunk=np.int64(5))", '
                      'tuple(numpy.int64(np.int64(5)), builtins.int:3), builtins.int:2, '
                      'tuple(builtins.int:5, builtins.int:3), list(tuple(builtins.int:0, '
                      'builtins.int:7), tuple(builtins.int:7, builtins.int:13), '
                      'tuple(builtins.int:13, builtins.int:21), tuple(builtins.int:40, '
                      'builtins.int:41), tuple(builtins.int:41, builtins.int:90)))',
 "uneven|str:'80B'": 'list(numpy.int64(np.int64(5)), dict{builtins.int:0: '
                     "dict{builtins.str:'offset': builtins.int:0, builtins.str:'size': "
                     'builtins.int:90}}, builtins.str:"Array(url=\'image\', shape=(5, 3), '
                     'dtype=\'uint16\', records_per_chunk=np.int64(5))", '
                     'tuple(numpy.int64(np.int64(5)), builtins.int:3), builtins.int:2, '
                     'tuple(builtins.int:5, builtins.int:3), list(tuple(builtins.int:0, '
                     'builtins.int:7), tuple(builtins.int:7, builtins.int:13), '
                     'tuple(builtins.int:13, builtins.int:21), tuple(builtins.int:40, '
                     'builtins.int:41), tuple(builtins.int:41, builtins.int:90)))',
 "uneven|str:'81B'": 'list(numpy.int64(np.int64(5)), dict{builtins.int:0: '
                     "dict{builtins.str:'offset': builtins.int:0, builtins.str:'size': "
                     'builtins.int:90}}, builtins.str:"Array(url=\'image\', shape=(5, 3), '
                     'dtype=\'uint16\', records_per_chunk=np.int64(5))", '
                     'tuple(numpy.int64(np.int64(5)), builtins.int:3), builtins.int:2, '
                     'tuple(builtins.int:5, builtins.int:3), list(tuple(builtins.int:0, '
                     'builtins.int:7), tuple(builtins.int:7, builtins.int:13), '
                     'tuple(builtins.int:13, builtins.int:21), tuple(builtins.int:40, '
                     'builtins.int:41), tuple(builtins.int:41, builtins.int:90)))',
 "uneven|str:'100B'": 'list(numpy.int64(np.int64(5)), dict{builtins.int:0: '
                      "dict{builtins.str:'offset': builtins.int:0, builtins.str:'size': "
                      'builtins.int:90}}, builtins.str:"Array(url=\'image\', shape=(5, 3), '
                      'dtype=\'uint16\', records_per_chunk=np.int64(5))", '
                      'tuple(numpy.int64(np.int64(5)), builtins.int:3), builtins.int:2, '
                      'tuple(builtins.int:5, builtins.int:3), list(tuple(builtins.int:0, '
                      'builtins.int:7), tuple(builtins.int:7, builtins.int:13), '
                      'tuple(builtins.int:13, builtins.int:21), tuple(builtins.int:40, '
                      'builtins.int:41), tuple(builtins.int:41, builtins.int:90)))',
 "uneven|str:'119B'": 'list(numpy.int64(np.int64(5)), dict{builtins.int:0: '
                      "dict{builtins.str:'offset': builtins.int:0, builtins.str:'size': "
                      'builtins.int:90}}, builtins.str:"Array(url=\'image\', shape=(5, 3), '
                      'dtype=\'uint16\', records_per_chunk=np.int64(5))", '
                      'tuple(numpy.int64(np.int64(5)), builtins.int:3), builtins.int:2, '
                      'tuple(builtins.int:5, builtins.int:3), list(tuple(builtins.int:0, '
                      'builtins.int:7), tuple(builtins.int:7, builtins.int:13), '
                      'tuple(builtins.int:13, builtins.int:21), tuple(builtins.int:40, '
                      'builtins.int:41), tuple(builtins.int:41, builtins.int:90)))',
 "uneven|str:'120B'": 'list(numpy.int64(np.int64(5)), dict{builtins.int:0: '
                      "dict{builtins.str:'offset': builtins.int:0, builtins.str:'size': "
                      'builtins.int:90}}, builtins.str:"Array(url=\'image\', shape=(5, 3), '
                      'dtype=\'uint16\', records_per_chunk=np.int64(5))", '
                      'tuple(numpy.int64(np.int64(5)), builtins.int:3), builtins.int:2, '
                      'tuple(builtins.int:5, builtins.int:3), list(tuple(builtins.int:0, '
                      'builtins.int:7), tuple(builtins.int:7, builtins.int:13), '
                      'tuple(builtins.int:13, builtins.int:21), tuple(builtins.int:40, '
                      'builtins.int:41), tuple(builtins.int:41, builtins.int:90)))',
 "uneven|str:'121B'": 'list(numpy.int64(np.int64(5)), dict{builtins.int:0: '
                      "dict{builtins.str:'offset': builtins.int:0, builtins.str:'size': "
                      'builtins.int:90}}, builtins.str:"Array(url=\'image\', shape=(5, 3), '
                      'dtype=\'uint16\', records_per_chunk=np.int64(5))", '
                      'tuple(numpy.int64(np.int64(5)), builtins.int:3), builtins.int:2, '
                      'tuple(builtins.int:5, builtins.int:3), list(tuple(builtins.int:0, '
                      'builtins.int:7), tuple(builtins.int:7, builtins.int:13), '
                      'tuple(builtins.int:13, builtins.int:21), tuple(builtins.int:40, '
                      'builtins.int:41), tuple(builtins.int:41, builtins.int:90)))',
 "uneven|str:'0B'": 'list(numpy.int64(np.int64(1)), dict{builtins.int:0: '
                    "dict{builtins.str:'offset': builtins.int:0, builtins.str:'size': "
                    "builtins.int:7}, builtins.int:1: dict{builtins.str:'offset': builtins.int:7, "
                    "builtins.str:'size': builtins.int:6}, builtins.int:2: "
                    "dict{builtins.str:'offset': builtins.int:13, builtins.str:'size': "
                    "builtins.int:8}, builtins.int:3: dict{builtins.str:'offset': builtins.int:40, "
                    "builtins.str:'size': builtins.int:1}, builtins.int:4: "
                    "dict{builtins.str:'offset': builtins.int:41, builtins.str:'size': "
                    'builtins.int:49}}, builtins.str:"Array(url=\'image\', shape=(5, 3), '
                    'dtype=\'uint16\', records_per_chunk=np.int64(1))", '
                    'tuple(numpy.int64(np.int64(1)), builtins.int:3), builtins.int:2, '
                    'tuple(builtins.int:5, builtins.int:3), list(tuple(builtins.int:0, '
                    'builtins.int:7), tuple(builtins.int:7, builtins.int:13), '
                    'tuple(builtins.int:13, builtins.int:21), tuple(builtins.int:40, '
                    'builtins.int:41), tuple(builtins.int:41, builtins.int:90)))',
 "uneven|str:'1kB'": 'list(numpy.int64(np.int64(5)), dict{builtins.int:0: '
                     "dict{builtins.str:'offset': builtins.int:0, builtins.str:'size': "
                     'builtins.int:90}}, builtins.str:"Array(url=\'image\', shape=(5, 3), '
                     'dtype=\'uint16\', records_per_chunk=np.int64(5))", '
                     'tuple(numpy.int64(np.int64(5)), builtins.int:3), builtins.int:2, '
                     'tuple(builtins.int:5, builtins.int:3), list(tuple(builtins.int:0, '
                     'builtins.int:7), tuple(builtins.int:7, builtins.int:13), '
                     'tuple(builtins.int:13, builtins.int:21), tuple(builtins.int:40, '
                     'builtins.int:41), tuple(builtins.int:41, builtins.int:90)))',
 "uneven|str:'1kiB'": 'list(numpy.int64(np.int64(5)), dict{builtins.int:0: '
                      "dict{builtins.str:'offset': builtins.int:0, builtins.str:'size': "
                      'builtins.int:90}}, builtins.str:"Array(url=\'image\', shape=(5, 3), '
                      'dtype=\'uint16\', records_per_chunk=np.int64(5))", '
                      'tuple(numpy.int64(np.int64(5)), builtins.int:3), builtins.int:2, '
                      'tuple(builtins.int:5, builtins.int:3), list(tuple(builtins.int:0, '
                      'builtins.int:7), tuple(builtins.int:7, builtins.int:13), '
                      'tuple(builtins.int:13, builtins.int:21), tuple(builtins.int:40, '
                      'builtins.int:41), tuple(builtins.int:41, builtins.int:90)))',
 "uneven|str:'1 MiB'": 'list(numpy.int64(np.int64(5)), dict{builtins.int:0: '
                       "dict{builtins.str:'offset': builtins.int:0, builtins.str:'size': "
                       'builtins.int:90}}, builtins.str:"Array(url=\'image\', shape=(5, 3), '
                       'dtype=\'uint16\', records_per_chunk=np.int64(5))", '
                       'tuple(numpy.int64(np.int64(5)), builtins.int:3), builtins.int:2, '
                       'tuple(builtins.int:5, builtins.int:3), list(tuple(builtins.int:0, '
                       'builtins.int:7), tuple(builtins.int:7, builtins.int:13), '
                       'tuple(builtins.int:13, builtins.int:21), tuple(builtins.int:40, '
                       'builtins.int:41), tuple(builtins.int:41, builtins.int:90)))',
 "uneven|str:'95MiB'": 'list(numpy.int64(np.int64(5)), dict{builtins.int:0: '
                       "dict{builtins.str:'offset': builtins.int:0, builtins.str:'size': "
                       'builtins.int:90}}, builtins.str:"Array(url=\'image\', shape=(5, 3), '
                       'dtype=\'uint16\', records_per_chunk=np.int64(5))", '
                       'tuple(numpy.int64(np.int64(5)), builtins.int:3), builtins.int:2, '
                       'tuple(builtins.int:5, builtins.int:3), list(tuple(builtins.int:0, '
                       'builtins.int:7), tuple(builtins.int:7, builtins.int:13), '
                       'tuple(builtins.int:13, builtins.int:21), tuple(builtins.int:40, '
                       'builtins.int:41), tuple(builtins.int:41, builtins.int:90)))',
 "uneven|str:'0.1 GB'": 'list(numpy.int64(np.int64(5)), dict{builtins.int:0: '
                        "dict{builtins.str:'offset': builtins.int:0, builtins.str:'size': "
                        'builtins.int:90}}, builtins.str:"Array(url=\'image\', shape=(5, 3), '
                        'dtype=\'uint16\', records_per_chunk=np.int64(5))", '
                        'tuple(numpy.int64(np.int64(5)), builtins.int:3), builtins.int:2, '
                        'tuple(builtins.int:5, builtins.int:3), list(tuple(builtins.int:0, '
                        'builtins.int:7), tuple(builtins.int:7, builtins.int:13), '
                        'tuple(builtins.int:13, builtins.int:21), tuple(builtins.int:40, '
                        'builtins.int:41), tuple(builtins.int:41, builtins.int:90)))',
 "uneven|str:'100'": 'list(numpy.int64(np.int64(5)), dict{builtins.int:0: '
                     "dict{builtins.str:'offset': builtins.int:0, builtins.str:'size': "
                     'builtins.int:90}}, builtins.str:"Array(url=\'image\', shape=(5, 3), '
                     'dtype=\'uint16\', records_per_chunk=np.int64(5))", '
                     'tuple(numpy.int64(np.int64(5)), builtins.int:3), builtins.int:2, '
                     'tuple(builtins.int:5, builtins.int:3), list(tuple(builtins.int:0, '
                     'builtins.int:7), tuple(builtins.int:7, builtins.int:13), '
                     'tuple(builtins.int:13, builtins.int:21), tuple(builtins.int:40, '
                     'builtins.int:41), tuple(builtins.int:41, builtins.int:90)))',
 "uneven|str:'1e2'": 'list(numpy.int64(np.int64(5)), dict{builtins.int:0: '
                     "dict{builtins.str:'offset': builtins.int:0, builtins.str:'size': "
                     'builtins.int:90}}, builtins.str:"Array(url=\'image\', shape=(5, 3), '
                     'dtype=\'uint16\', records_per_chunk=np.int64(5))", '
                     'tuple(numpy.int64(np.int64(5)), builtins.int:3), builtins.int:2, '
                     'tuple(builtins.int:5, builtins.int:3), list(tuple(builtins.int:0, '
                     'builtins.int:7), tuple(builtins.int:7, builtins.int:13), '
                     'tuple(builtins.int:13, builtins.int:21), tuple(builtins.int:40, '
                     'builtins.int:41), tuple(builtins.int:41, builtins.int:90)))',
 "uneven|str:'kB'": 'list(numpy.int64(np.int64(5)), dict{builtins.int:0: '
                    "dict{builtins.str:'offset': builtins.int:0, builtins.str:'size': "
                    'builtins.int:90}}, builtins.str:"Array(url=\'image\', shape=(5, 3), '
                    'dtype=\'uint16\', records_per_chunk=np.int64(5))", '
                    'tuple(numpy.int64(np.int64(5)), builtins.int:3), builtins.int:2, '
                    'tuple(builtins.int:5, builtins.int:3), list(tuple(builtins.int:0, '
                    'builtins.int:7), tuple(builtins.int:7, builtins.int:13), '
                    'tuple(builtins.int:13, builtins.int:21), tuple(builtins.int:40, '
                    'builtins.int:41), tuple(builtins.int:41, builtins.int:90)))',
 "uneven|str:''": "list(numpy.int64(np.int64(1)), dict{builtins.int:0: dict{builtins.str:'offset': "
                  "builtins.int:0, builtins.str:'size': builtins.int:7}, builtins.int:1: "
                  "dict{builtins.str:'offset': builtins.int:7, builtins.str:'size': "
                  "builtins.int:6}, builtins.int:2: dict{builtins.str:'offset': builtins.int:13, "
                  "builtins.str:'size': builtins.int:8}, builtins.int:3: "
                  "dict{builtins.str:'offset': builtins.int:40, builtins.str:'size': "
                  "builtins.int:1}, builtins.int:4: dict{builtins.str:'offset': builtins.int:41, "
                  'builtins.str:\'size\': builtins.int:49}}, builtins.str:"Array(url=\'image\', '
                  'shape=(5, 3), dtype=\'uint16\', records_per_chunk=np.int64(1))", '
                  'tuple(numpy.int64(np.int64(1)), builtins.int:3), builtins.int:2, '
                  'tuple(builtins.int:5, builtins.int:3), list(tuple(builtins.int:0, '
                  'builtins.int:7), tuple(builtins.int:7, builtins.int:13), tuple(builtins.int:13, '
                  'builtins.int:21), tuple(builtins.int:40, builtins.int:41), '
                  'tuple(builtins.int:41, builtins.int:90)))',
 "uneven|str:'5 foos'": "raise builtins.ValueError: Could not interpret 'foos' as a byte unit",
 "uneven|str:'abc'": "raise builtins.ValueError: Could not interpret 'abc' as a byte unit",
 "uneven|str:'AUTO'": "raise builtins.ValueError: Could not interpret 'AUTO' as a byte unit",
 "uneven|str:' auto'": "raise builtins.ValueError: Could not interpret 'auto' as a byte unit",
 "uneven|Text:'auto'": 'list(numpy.int64(np.int64(5)), dict{builtins.int:0: '
                       "dict{builtins.str:'offset': builtins.int:0, builtins.str:'size': "
                       'builtins.int:90}}, builtins.str:"Array(url=\'image\', shape=(5, 3), '
                       'dtype=\'uint16\', records_per_chunk=np.int64(5))", '
                       'tuple(numpy.int64(np.int64(5)), builtins.int:3), builtins.int:2, '
                       'tuple(builtins.int:5, builtins.int:3), list(tuple(builtins.int:0, '
                       'builtins.int:7), tuple(builtins.int:7, builtins.int:13), '
                       'tuple(builtins.int:13, builtins.int:21), tuple(builtins.int:40, '
                       'builtins.int:41), tuple(builtins.int:41, builtins.int:90)))',
 "uneven|Text:'160B'": 'list(numpy.int64(np.int64(5)), dict{builtins.int:0: '
                       "dict{builtins.str:'offset': builtins.int:0, builtins.str:'size': "
                       'builtins.int:90}}, builtins.str:"Array(url=\'image\', shape=(5, 3), '
                       'dtype=\'uint16\', records_per_chunk=np.int64(5))", '
                       'tuple(numpy.int64(np.int64(5)), builtins.int:3), builtins.int:2, '
                       'tuple(builtins.int:5, builtins.int:3), list(tuple(builtins.int:0, '
                       'builtins.int:7), tuple(builtins.int:7, builtins.int:13), '
                       'tuple(builtins.int:13, builtins.int:21), tuple(builtins.int:40, '
                       'builtins.int:41), tuple(builtins.int:41, builtins.int:90)))',
 'uneven|int:-1': "list(builtins.int:5, dict{builtins.int:0: dict{builtins.str:'offset': "
                  "builtins.int:0, builtins.str:'size': builtins.int:90}}, "
                  'builtins.str:"Array(url=\'image\', shape=(5, 3), dtype=\'uint16\', '
                  'records_per_chunk=5)", tuple(builtins.int:5, builtins.int:3), builtins.int:2, '
                  'tuple(builtins.int:5, builtins.int:3), list(tuple(builtins.int:0, '
                  'builtins.int:7), tuple(builtins.int:7, builtins.int:13), tuple(builtins.int:13, '
                  'builtins.int:21), tuple(builtins.int:40, builtins.int:41), '
                  'tuple(builtins.int:41, builtins.int:90)))',
 'uneven|int:0': 'list(builtins.int:0, dict{}, builtins.str:"Array(url=\'image\', shape=(5, 3), '
                 'dtype=\'uint16\', records_per_chunk=0)", tuple(builtins.int:0, builtins.int:3), '
                 'builtins.int:2, tuple(builtins.int:5, builtins.int:3), '
                 'list(tuple(builtins.int:0, builtins.int:7), tuple(builtins.int:7, '
                 'builtins.int:13), tuple(builtins.int:13, builtins.int:21), '
                 'tuple(builtins.int:40, builtins.int:41), tuple(builtins.int:41, '
                 'builtins.int:90)))',
 'uneven|int:1': "list(builtins.int:1, dict{builtins.int:0: dict{builtins.str:'offset': "
                 "builtins.int:0, builtins.str:'size': builtins.int:7}, builtins.int:1: "
                 "dict{builtins.str:'offset': builtins.int:7, builtins.str:'size': "
                 "builtins.int:6}, builtins.int:2: dict{builtins.str:'offset': builtins.int:13, "
                 "builtins.str:'size': builtins.int:8}, builtins.int:3: "
                 "dict{builtins.str:'offset': builtins.int:40, builtins.str:'size': "
                 "builtins.int:1}, builtins.int:4: dict{builtins.str:'offset': builtins.int:41, "
                 'builtins.str:\'size\': builtins.int:49}}, builtins.str:"Array(url=\'image\', '
                 'shape=(5, 3), dtype=\'uint16\', records_per_chunk=1)", tuple(builtins.int:1, '
                 'builtins.int:3), builtins.int:2, tuple(builtins.int:5, builtins.int:3), '
                 'list(tuple(builtins.int:0, builtins.int:7), tuple(builtins.int:7, '
                 'builtins.int:13), tuple(builtins.int:13, builtins.int:21), '
                 'tuple(builtins.int:40, builtins.int:41), tuple(builtins.int:41, '
                 'builtins.int:90)))',
 'uneven|int:2': "list(builtins.int:2, dict{builtins.int:0: dict{builtins.str:'offset': "
                 "builtins.int:0, builtins.str:'size': builtins.int:13}, builtins.int:1: "
                 "dict{builtins.str:'offset': builtins.int:13, builtins.str:'size': "
                 "builtins.int:28}, builtins.int:2: dict{builtins.str:'offset': builtins.int:41, "
                 'builtins.str:\'size\': builtins.int:49}}, builtins.str:"Array(url=\'image\', '
                 'shape=(5, 3), dtype=\'uint16\', records_per_chunk=2)", tuple(builtins.int:2, '
                 'builtins.int:3), builtins.int:2, tuple(builtins.int:5, builtins.int:3), '
                 'list(tuple(builtins.int:0, builtins.int:7), tuple(builtins.int:7, '
                 'builtins.int:13), tuple(builtins.int:13, builtins.int:21), '
                 'tuple(builtins.int:40, builtins.int:41), tuple(builtins.int:41, '
                 'builtins.int:90)))',
 'uneven|int:3': "list(builtins.int:3, dict{builtins.int:0: dict{builtins.str:'offset': "
                 "builtins.int:0, builtins.str:'size': builtins.int:21}, builtins.int:1: "
                 "dict{builtins.str:'offset': builtins.int:40, builtins.str:'size': "
                 'builtins.int:50}}, builtins.str:"Array(url=\'image\', shape=(5, 3), '
                 'dtype=\'uint16\', records_per_chunk=3)", tuple(builtins.int:3, builtins.int:3), '
                 'builtins.int:2, tuple(builtins.int:5, builtins.int:3), '
                 'list(tuple(builtins.int:0, builtins.int:7), tuple(builtins.int:7, '
                 'builtins.int:13), tuple(builtins.int:13, builtins.int:21), '
                 'tuple(builtins.int:40, builtins.int:41), tuple(builtins.int:41, '
                 'builtins.int:90)))',
 'uneven|int:4': "list(builtins.int:4, dict{builtins.int:0: dict{builtins.str:'offset': "
                 "builtins.int:0, builtins.str:'size': builtins.int:41}, builtins.int:1: "
                 "dict{builtins.str:'offset': builtins.int:41, builtins.str:'size': "
                 'builtins.int:49}}, builtins.str:"Array(url=\'image\', shape=(5, 3), '
                 'dtype=\'uint16\', records_per_chunk=4)", tuple(builtins.int:4, builtins.int:3), '
                 'builtins.int:2, tuple(builtins.int:5, builtins.int:3), '
                 'list(tuple(builtins.int:0, builtins.int:7), tuple(builtins.int:7, '
                 'builtins.int:13), tuple(builtins.int:13, builtins.int:21), '
                 'tuple(builtins.int:40, builtins.int:41), tuple(builtins.int:41, '
                 'builtins.int:90)))',
 'uneven|int:5': "list(builtins.int:5, dict{builtins.int:0: dict{builtins.str:'offset': "
                 "builtins.int:0, builtins.str:'size': builtins.int:90}}, "
                 'builtins.str:"Array(url=\'image\', shape=(5, 3), dtype=\'uint16\', '
                 'records_per_chunk=5)", tuple(builtins.int:5, builtins.int:3), builtins.int:2, '
                 'tuple(builtins.int:5, builtins.int:3), list(tuple(builtins.int:0, '
                 'builtins.int:7), tuple(builtins.int:7, builtins.int:13), tuple(builtins.int:13, '
                 'builtins.int:21), tuple(builtins.int:40, builtins.int:41), '
                 'tuple(builtins.int:41, builtins.int:90)))',
 'uneven|int:6': "list(builtins.int:5, dict{builtins.int:0: dict{builtins.str:'offset': "
                 "builtins.int:0, builtins.str:'size': builtins.int:90}}, "
                 'builtins.str:"Array(url=\'image\', shape=(5, 3), dtype=\'uint16\', '
                 'records_per_chunk=5)", tuple(builtins.int:5, builtins.int:3), builtins.int:2, '
                 'tuple(builtins.int:5, builtins.int:3), list(tuple(builtins.int:0, '
                 'builtins.int:7), tuple(builtins.int:7, builtins.int:13), tuple(builtins.int:13, '
                 'builtins.int:21), tuple(builtins.int:40, builtins.int:41), '
                 'tuple(builtins.int:41, builtins.int:90)))',
 'uneven|int:7': "list(builtins.int:5, dict{builtins.int:0: dict{builtins.str:'offset': "
                 "builtins.int:0, builtins.str:'size': builtins.int:90}}, "
                 'builtins.str:"Array(url=\'image\', shape=(5, 3), dtype=\'uint16\', '
                 'records_per_chunk=5)", tuple(builtins.int:5, builtins.int:3), builtins.int:2, '
                 'tuple(builtins.int:5, builtins.int:3), list(tuple(builtins.int:0, '
                 'builtins.int:7), tuple(builtins.int:7, builtins.int:13), tuple(builtins.int:13, '
                 'builtins.int:21), tuple(builtins.int:40, builtins.int:41), '
                 'tuple(builtins.int:41, builtins.int:90)))',
 'uneven|int:8': "list(builtins.int:5, dict{builtins.int:0: dict{builtins.str:'offset': "
                 "builtins.int:0, builtins.str:'size': builtins.int:90}}, "
                 'builtins.str:"Array(url=\'image\', shape=(5, 3), dtype=\'uint16\', '
                 'records_per_chunk=5)", tuple(builtins.int:5, builtins.int:3), builtins.int:2, '
                 'tuple(builtins.int:5, builtins.int:3), list(tuple(builtins.int:0, '
                 'builtins.int:7), tuple(builtins.int:7, builtins.int:13), tuple(builtins.int:13, '
                 'builtins.int:21), tuple(builtins.int:40, builtins.int:41), '
                 'tuple(builtins.int:41, builtins.int:90)))',
 'uneven|int:1024': "list(builtins.int:5, dict{builtins.int:0: dict{builtins.str:'offset': "
                    "builtins.int:0, builtins.str:'size': builtins.int:90}}, "
                    'builtins.str:"Array(url=\'image\', shape=(5, 3), dtype=\'uint16\', '
                    'records_per_chunk=5)", tuple(builtins.int:5, builtins.int:3), builtins.int:2, '
                    'tuple(builtins.int:5, builtins.int:3), list(tuple(builtins.int:0, '
                    'builtins.int:7), tuple(builtins.int:7, builtins.int:13), '
                    'tuple(builtins.int:13, builtins.int:21), tuple(builtins.int:40, '
                    'builtins.int:41), tuple(builtins.int:41, builtins.int:90)))',
 'uneven|int:-2': 'list(builtins.int:-2, dict{}, builtins.str:"Array(url=\'image\', shape=(5, 3), '
                  'dtype=\'uint16\', records_per_chunk=-2)", tuple(builtins.int:-2, '
                  'builtins.int:3), builtins.int:2, tuple(builtins.int:5, builtins.int:3), '
                  'list(tuple(builtins.int:0, builtins.int:7), tuple(builtins.int:7, '
                  'builtins.int:13), tuple(builtins.int:13, builtins.int:21), '
                  'tuple(builtins.int:40, builtins.int:41), tuple(builtins.int:41, '
                  'builtins.int:90)))',
 'uneven|bool:True': "list(builtins.bool:True, dict{builtins.int:0: dict{builtins.str:'offset': "
                     "builtins.int:0, builtins.str:'size': builtins.int:7}, builtins.int:1: "
                     "dict{builtins.str:'offset': builtins.int:7, builtins.str:'size': "
                     "builtins.int:6}, builtins.int:2: dict{builtins.str:'offset': "
                     "builtins.int:13, builtins.str:'size': builtins.int:8}, builtins.int:3: "
                     "dict{builtins.str:'offset': builtins.int:40, builtins.str:'size': "
                     "builtins.int:1}, builtins.int:4: dict{builtins.str:'offset': "
                     "builtins.int:41, builtins.str:'size': builtins.int:49}}, "
                     'builtins.str:"Array(url=\'image\', shape=(5, 3), dtype=\'uint16\', '
                     'records_per_chunk=True)", tuple(builtins.bool:True, builtins.int:3), '
                     'builtins.int:2, tuple(builtins.int:5, builtins.int:3), '
                     'list(tuple(builtins.int:0, builtins.int:7), tuple(builtins.int:7, '
                     'builtins.int:13), tuple(builtins.int:13, builtins.int:21), '
                     'tuple(builtins.int:40, builtins.int:41), tuple(builtins.int:41, '
                     'builtins.int:90)))',
 'uneven|bool:False': 'list(builtins.bool:False, dict{}, builtins.str:"Array(url=\'image\', '
                      'shape=(5, 3), dtype=\'uint16\', records_per_chunk=False)", '
                      'tuple(builtins.bool:False, builtins.int:3), builtins.int:2, '
                      'tuple(builtins.int:5, builtins.int:3), list(tuple(builtins.int:0, '
                      'builtins.int:7), tuple(builtins.int:7, builtins.int:13), '
                      'tuple(builtins.int:13, builtins.int:21), tuple(builtins.int:40, '
                      'builtins.int:41), tuple(builtins.int:41, builtins.int:90)))',
 'uneven|int64:np.int64(3)': 'list(numpy.int64(np.int64(3)), dict{builtins.int:0: '
                             "dict{builtins.str:'offset': builtins.int:0, builtins.str:'size': "
                             "builtins.int:21}, builtins.int:1: dict{builtins.str:'offset': "
                             "builtins.int:40, builtins.str:'size': builtins.int:50}}, "
                             'builtins.str:"Array(url=\'image\', shape=(5, 3), dtype=\'uint16\', '
                             'records_per_chunk=np.int64(3))", tuple(numpy.int64(np.int64(3)), '
                             'builtins.int:3), builtins.int:2, tuple(builtins.int:5, '
                             'builtins.int:3), list(tuple(builtins.int:0, builtins.int:7), '
                             'tuple(builtins.int:7, builtins.int:13), tuple(builtins.int:13, '
                             'builtins.int:21), tuple(builtins.int:40, builtins.int:41), '
                             'tuple(builtins.int:41, builtins.int:90)))',
 'uneven|int64:np.int64(-1)': 'list(builtins.int:5, dict{builtins.int:0: '
                              "dict{builtins.str:'offset': builtins.int:0, builtins.str:'size': "
                              'builtins.int:90}}, builtins.str:"Array(url=\'image\', shape=(5, 3), '
                              'dtype=\'uint16\', records_per_chunk=5)", tuple(builtins.int:5, '
                              'builtins.int:3), builtins.int:2, tuple(builtins.int:5, '
                              'builtins.int:3), list(tuple(builtins.int:0, builtins.int:7), '
                              'tuple(builtins.int:7, builtins.int:13), tuple(builtins.int:13, '
                              'builtins.int:21), tuple(builtins.int:40, builtins.int:41), '
                              'tuple(builtins.int:41, builtins.int:90)))',
 'uneven|int64:np.int64(1000000)': 'list(builtins.int:5, dict{builtins.int:0: '
                                   "dict{builtins.str:'offset': builtins.int:0, "
                                   "builtins.str:'size': builtins.int:90}}, "
                                   'builtins.str:"Array(url=\'image\', shape=(5, 3), '
                                   'dtype=\'uint16\', records_per_chunk=5)", tuple(builtins.int:5, '
                                   'builtins.int:3), builtins.int:2, tuple(builtins.int:5, '
                                   'builtins.int:3), list(tuple(builtins.int:0, builtins.int:7), '
                                   'tuple(builtins.int:7, builtins.int:13), tuple(builtins.int:13, '
                                   'builtins.int:21), tuple(builtins.int:40, builtins.int:41), '
                                   'tuple(builtins.int:41, builtins.int:90)))',
 'uneven|float:2.0': "raise builtins.TypeError: can't multiply sequence by non-int of type 'float'",
 'uneven|float:2.5': "raise builtins.TypeError: can't multiply sequence by non-int of type 'float'",
 'uneven|float:-1.0': "list(builtins.int:5, dict{builtins.int:0: dict{builtins.str:'offset': "
                      "builtins.int:0, builtins.str:'size': builtins.int:90}}, "
                      'builtins.str:"Array(url=\'image\', shape=(5, 3), dtype=\'uint16\', '
                      'records_per_chunk=5)", tuple(builtins.int:5, builtins.int:3), '
                      'builtins.int:2, tuple(builtins.int:5, builtins.int:3), '
                      'list(tuple(builtins.int:0, builtins.int:7), tuple(builtins.int:7, '
                      'builtins.int:13), tuple(builtins.int:13, builtins.int:21), '
                      'tuple(builtins.int:40, builtins.int:41), tuple(builtins.int:41, '
                      'builtins.int:90)))',
 'uneven|float:nan': "raise builtins.TypeError: can't multiply sequence by non-int of type 'float'",
 'uneven|float:inf': "list(builtins.int:5, dict{builtins.int:0: dict{builtins.str:'offset': "
                     "builtins.int:0, builtins.str:'size': builtins.int:90}}, "
                     'builtins.str:"Array(url=\'image\', shape=(5, 3), dtype=\'uint16\', '
                     'records_per_chunk=5)", tuple(builtins.int:5, builtins.int:3), '
                     'builtins.int:2, tuple(builtins.int:5, builtins.int:3), '
                     'list(tuple(builtins.int:0, builtins.int:7), tuple(builtins.int:7, '
                     'builtins.int:13), tuple(builtins.int:13, builtins.int:21), '
                     'tuple(builtins.int:40, builtins.int:41), tuple(builtins.int:41, '
                     'builtins.int:90)))',
 "uneven|bytes:b'auto'": "raise builtins.TypeError: '>' not supported between instances of 'bytes' "
                         "and 'int'",
 'uneven|list:[2]': "raise builtins.TypeError: '>' not supported between instances of 'list' and "
                    "'int'",
 'uneven|tuple:(2,)': "raise builtins.TypeError: '>' not supported between instances of 'tuple' "
                      "and 'int'",
 'uneven|dict:{}': "raise builtins.TypeError: '>' not supported between instances of 'dict' and "
                   "'int'",
 'uneven|complex:(1+0j)': "raise builtins.TypeError: '>' not supported between instances of "
                          "'complex' and 'int'",
 "big|str:'<omitted>'": "list(builtins.int:1024, dict{builtins.int:0: dict{builtins.str:'offset': "
                        "builtins.int:0, builtins.str:'size': builtins.int:283115520}}, "
                        'builtins.str:"Array(url=\'image\', shape=(9, 15728640), dtype=\'uint16\', '
                        'records_per_chunk=1024)", tuple(builtins.int:1024, '
                        'builtins.int:15728640), builtins.int:2, tuple(builtins.int:9, '
                        'builtins.int:15728640), list(tuple(builtins.int:0, '
                        'builtins.int:31457280), tuple(builtins.int:31457280, '
                        'builtins.int:62914560), tuple(builtins.int:62914560, '
                        'builtins.int:94371840), tuple(builtins.int:94371840, '
                        'builtins.int:125829120), tuple(builtins.int:125829120, '
                        'builtins.int:157286400), tuple(builtins.int:157286400, '
                        'builtins.int:188743680), tuple(builtins.int:188743680, '
                        'builtins.int:220200960), tuple(builtins.int:220200960, '
                        'builtins.int:251658240), tuple(builtins.int:251658240, '
                        'builtins.int:283115520)))',
 'big|NoneType:None': "list(builtins.int:1024, dict{builtins.int:0: dict{builtins.str:'offset': "
                      "builtins.int:0, builtins.str:'size': builtins.int:283115520}}, "
                      'builtins.str:"Array(url=\'image\', shape=(9, 15728640), dtype=\'uint16\', '
                      'records_per_chunk=1024)", tuple(builtins.int:1024, builtins.int:15728640), '
                      'builtins.int:2, tuple(builtins.int:9, builtins.int:15728640), '
                      'list(tuple(builtins.int:0, builtins.int:31457280), '
                      'tuple(builtins.int:31457280, builtins.int:62914560), '
                      'tuple(builtins.int:62914560, builtins.int:94371840), '
                      'tuple(builtins.int:94371840, builtins.int:125829120), '
                      'tuple(builtins.int:125829120, builtins.int:157286400), '
                      'tuple(builtins.int:157286400, builtins.int:188743680), '
                      'tuple(builtins.int:188743680, builtins.int:220200960), '
                      'tuple(builtins.int:220200960, builtins.int:251658240), '
                      'tuple(builtins.int:251658240, builtins.int:283115520)))',
 "big|str:'auto'": 'list(numpy.int64(np.int64(3)), dict{builtins.int:0: '
                   "dict{builtins.str:'offset': builtins.int:0, builtins.str:'size': "
                   "builtins.int:94371840}, builtins.int:1: dict{builtins.str:'offset': "
                   "builtins.int:94371840, builtins.str:'size': builtins.int:94371840}, "
                   "builtins.int:2: dict{builtins.str:'offset': builtins.int:188743680, "
                   "builtins.str:'size': builtins.int:94371840}}, "
                   'builtins.str:"Array(url=\'image\', shape=(9, 15728640), dtype=\'uint16\', '
                   'records_per_chunk=np.int64(3))", tuple(numpy.int64(np.int64(3)), '
                   'builtins.int:15728640), builtins.int:2, tuple(builtins.int:9, '
                   'builtins.int:15728640), list(tuple(builtins.int:0, builtins.int:31457280), '
                   'tuple(builtins.int:31457280, builtins.int:62914560), '
                   'tuple(builtins.int:62914560, builtins.int:94371840), '
                   'tuple(builtins.int:94371840, builtins.int:125829120), '
                   'tuple(builtins.int:125829120, builtins.int:157286400), '
                   'tuple(builtins.int:157286400, builtins.int:188743680), '
                   'tuple(builtins.int:188743680, builtins.int:220200960), '
                   'tuple(builtins.int:220200960, builtins.int:251658240), '
                   'tuple(builtins.int:251658240, builtins.int:283115520)))',
 "big|str:'80B'": "list(numpy.int64(np.int64(1)), dict{builtins.int:0: dict{builtins.str:'offset': "
                  "builtins.int:0, builtins.str:'size': builtins.int:31457280}, builtins.int:1: "
                  "dict{builtins.str:'offset': builtins.int:31457280, builtins.str:'size': "
                  "builtins.int:31457280}, builtins.int:2: dict{builtins.str:'offset': "
                  "builtins.int:62914560, builtins.str:'size': builtins.int:31457280}, "
                  "builtins.int:3: dict{builtins.str:'offset': builtins.int:94371840, "
                  "builtins.str:'size': builtins.int:31457280}, builtins.int:4: "
                  "dict{builtins.str:'offset': builtins.int:125829120, builtins.str:'size': "
                  "builtins.int:31457280}, builtins.int:5: dict{builtins.str:'offset': "
                  "builtins.int:157286400, builtins.str:'size': builtins.int:31457280}, "
                  "builtins.int:6: dict{builtins.str:'offset': builtins.int:188743680, "
                  "builtins.str:'size': builtins.int:31457280}, builtins.int:7: "
                  "dict{builtins.str:'offset': builtins.int:220200960, builtins.str:'size': "
                  "builtins.int:31457280}, builtins.int:8: dict{builtins.str:'offset': "
                  "builtins.int:251658240, builtins.str:'size': builtins.int:31457280}}, "
                  'builtins.str:"Array(url=\'image\', shape=(9, 15728640), dtype=\'uint16\', '
                  'records_per_chunk=np.int64(1))", tuple(numpy.int64(np.int64(1)), '
                  'builtins.int:15728640), builtins.int:2, tuple(builtins.int:9, '
                  'builtins.int:15728640), list(tuple(builtins.int:0, builtins.int:31457280), '
                  'tuple(builtins.int:31457280, builtins.int:62914560), '
                  'tuple(builtins.int:62914560, builtins.int:94371840), '
                  'tuple(builtins.int:94371840, builtins.int:125829120), '
                  'tuple(builtins.int:125829120, builtins.int:157286400), '
                  'tuple(builtins.int:157286400, builtins.int:188743680), '
                  'tuple(builtins.int:188743680, builtins.int:220200960), '
                  'tuple(builtins.int:220200960, builtins.int:251658240), '
                  'tuple(builtins.int:251658240, builtins.int:283115520)))',
 "big|str:'81B'": "list(numpy.int64(np.int64(1)), dict{builtins.int:0: dict{builtins.str:'offset': "
                  "builtins.int:0, builtins.str:'size': builtins.int:31457280}, builtins.int:1: "
                  "dict{builtins.str:'offset': builtins.int:31457280, builtins.str:'size': "
                  "builtins.int:31457280}, builtins.int:2: dict{builtins.str:'offset': "
                  "builtins.int:62914560, builtins.str:'size': builtins.int:31457280}, "
                  "builtins.int:3: dict{builtins.str:'offset': builtins.int:94371840, "
                  "builtins.str:'size': builtins.int:31457280}, builtins.int:4: "
                  "dict{builtins.str:'offset': builtins.int:125829120, builtins.str:'size': "
                  "builtins.int:31457280}, builtins.int:5: dict{builtins.str:'offset': "
                  "builtins.int:157286400, builtins.str:'size': builtins.int:31457280}, "
                  "builtins.int:6: dict{builtins.str:'offset': builtins.int:188743680, "
                  "builtins.str:'size': builtins.int:31457280}, builtins.int:7: "
                  "dict{builtins.str:'offset': builtins.int:220200960, builtins.str:'size': "
                  "builtins.int:31457280}, builtins.int:8: dict{builtins.str:'offset': "
                  "builtins.int:251658240, builtins.str:'size': builtins.int:31457280}}, "
                  'builtins.str:"Array(url=\'image\', shape=(9, 15728640), dtype=\'uint16\', '
                  'records_per_chunk=np.int64(1))", tuple(numpy.int64(np.int64(1)), '
                  'builtins.int:15728640), builtins.int:2, tuple(builtins.int:9, '
                  'builtins.int:15728640), list(tuple(builtins.int:0, builtins.int:31457280), '
                  'tuple(builtins.int:31457280, builtins.int:62914560), '
                  'tuple(builtins.int:62914560, builtins.int:94371840), '
                  'tuple(builtins.int:94371840, builtins.int:125829120), '
                  'tuple(builtins.int:125829120, builtins.int:157286400), '
                  'tuple(builtins.int:157286400, builtins.int:188743680), '
                  'tuple(builtins.int:188743680, builtins.int:220200960), '
                  'tuple(builtins.int:220200960, builtins.int:251658240), '
                  'tuple(builtins.int:251658240, builtins.int:283115520)))',
 "big|str:'100B'": 'list(numpy.int64(np.int64(1)), dict{builtins.int:0: '
                   "dict{builtins.str:'offset': builtins.int:0, builtins.str:'size': "
                   "builtins.int:31457280}, builtins.int:1: dict{builtins.str:'offset': "
                   "builtins.int:31457280, builtins.str:'size': builtins.int:31457280}, "
                   "builtins.int:2: dict{builtins.str:'offset': builtins.int:62914560, "
                   "builtins.str:'size': builtins.int:31457280}, builtins.int:3: "
                   "dict{builtins.str:'offset': builtins.int:94371840, builtins.str:'size': "
                   "builtins.int:31457280}, builtins.int:4: dict{builtins.str:'offset': "
                   "builtins.int:125829120, builtins.str:'size': builtins.int:31457280}, "
                   "builtins.int:5: dict{builtins.str:'offset': builtins.int:157286400, "
                   "builtins.str:'size': builtins.int:31457280}, builtins.int:6: "
                   "dict{builtins.str:'offset': builtins.int:188743680, builtins.str:'size': "
                   "builtins.int:31457280}, builtins.int:7: dict{builtins.str:'offset': "
                   "builtins.int:220200960, builtins.str:'size': builtins.int:31457280}, "
                   "builtins.int:8: dict{builtins.str:'offset': builtins.int:251658240, "
                   "builtins.str:'size': builtins.int:31457280}}, "
                   'builtins.str:"Array(url=\'image\', shape=(9, 15728640), dtype=\'uint16\', '
                   'records_per_chunk=np.int64(1))", tuple(numpy.int64(np.int64(1)), '
                   'builtins.int:15728640), builtins.int:2, tuple(builtins.int:9, '
                   'builtins.int:15728640), list(tuple(builtins.int:0, builtins.int:31457280), '
                   'tuple(builtins.int:31457280, builtins.int:62914560), '
                   'tuple(builtins.int:62914560, builtins.int:94371840), '
                   'tuple(builtins.int:94371840, builtins.int:125829120), '
                   'tuple(builtins.int:125829120, builtins.int:157286400), '
                   'tuple(builtins.int:157286400, builtins.int:188743680), '
                   'tuple(builtins.int:188743680, builtins.int:220200960), '
                   'tuple(builtins.int:220200960, builtins.int:251658240), '
                   'tuple(builtins.int:251658240, builtins.int:283115520)))',
 "big|str:'119B'": 'list(numpy.int64(np.int64(1)), dict{builtins.int:0: '
                   "dict{builtins.str:'offset': builtins.int:0, builtins.str:'size': "
                   "builtins.int:31457280}, builtins.int:1: dict{builtins.str:'offset': "
                   "builtins.int:31457280, builtins.str:'size': builtins.int:31457280}, "
                   "builtins.int:2: dict{builtins.str:'offset': builtins.int:62914560, "
                   "builtins.str:'size': builtins.int:31457280}, builtins.int:3: "
                   "dict{builtins.str:'offset': builtins.int:94371840, builtins.str:'size': "
                   "builtins.int:31457280}, builtins.int:4: dict{builtins.str:'offset': "
                   "builtins.int:125829120, builtins.str:'size': builtins.int:31457280}, "
                   "builtins.int:5: dict{builtins.str:'offset': builtins.int:157286400, "
                   "builtins.str:'size': builtins.int:31457280}, builtins.int:6: "
                   "dict{builtins.str:'offset': builtins.int:188743680, builtins.str:'size': "
                   "builtins.int:31457280}, builtins.int:7: dict{builtins.str:'offset': "
                   "builtins.int:220200960, builtins.str:'size': builtins.int:31457280}, "
                   "builtins.int:8: dict{builtins.str:'offset': builtins.int:251658240, "
                   "builtins.str:'size': builtins.int:31457280}}, "
                   'builtins.str:"Array(url=\'image\', shape=(9, 15728640), dtype=\'uint16\', '
                   'records_per_chunk=np.int64(1))", tuple(numpy.int64(np.int64(1)), '
                   'builtins.int:15728640), builtins.int:2, tuple(builtins.int:9, '
                   'builtins.int:15728640), list(tuple(builtins.int:0, builtins.int:31457280), '
                   'tuple(builtins.int:31457280, builtins.int:62914560), '
                   'tuple(builtins.int:62914560, builtins.int:94371840), '
                   'tuple(builtins.int:94371840, builtins.int:125829120), '
                   'tuple(builtins.int:125829120, builtins.int:157286400), '
                   'tuple(builtins.int:157286400, builtins.int:188743680), '
                   'tuple(builtins.int:188743680, builtins.int:220200960), '
                   'tuple(builtins.int:220200960, builtins.int:251658240), '
                   'tuple(builtins.int:251658240, builtins.int:283115520)))',
 "big|str:'120B'": 'list(numpy.int64(np.int64(1)), dict{builtins.int:0: '
                   "dict{builtins.str:'offset': builtins.int:0, builtins.str:'size': "
                   "builtins.int:31457280}, builtins.int:1: dict{builtins.str:'offset': "
                   "builtins.int:31457280, builtins.str:'size': builtins.int:31457280}, "
                   "builtins.int:2: dict{builtins.str:'offset': builtins.int:62914560, "
                   "builtins.str:'size': builtins.int:31457280}, builtins.int:3: "
                   "dict{builtins.str:'offset': builtins.int:94371840, builtins.str:'size': "
                   "builtins.int:31457280}, builtins.int:4: dict{builtins.str:'offset': "
                   "builtins.int:125829120, builtins.str:'size': builtins.int:31457280}, "
                   "builtins.int:5: dict{builtins.str:'offset': builtins.int:157286400, "
                   "builtins.str:'size': builtins.int:31457280}, builtins.int:6: "
                   "dict{builtins.str:'offset': builtins.int:188743680, builtins.str:'size': "
                   "builtins.int:31457280}, builtins.int:7: dict{builtins.str:'offset': "
                   "builtins.int:220200960, builtins.str:'size': builtins.int:31457280}, "
                   "builtins.int:8: dict{builtins.str:'offset': builtins.int:251658240, "
                   "builtins.str:'size': builtins.int:31457280}}, "
                   'builtins.str:"Array(url=\'image\', shape=(9, 15728640), dtype=\'uint16\', '
                   'records_per_chunk=np.int64(1))", tuple(numpy.int64(np.int64(1)), '
                   'builtins.int:15728640), builtins.int:2, tuple(builtins.int:9, '
                   'builtins.int:15728640), list(tuple(builtins.int:0, builtins.int:31457280), '
                   'tuple(builtins.int:31457280, builtins.int:62914560), '
                   'tuple(builtins.int:62914560, builtins.int:94371840), '
                   'tuple(builtins.int:94371840, builtins.int:125829120), '
                   'tuple(builtins.int:125829120, builtins.int:157286400), '
                   'tuple(builtins.int:157286400, builtins.int:188743680), '
                   'tuple(builtins.int:188743680, builtins.int:220200960), '
                   'tuple(builtins.int:220200960, builtins.int:251658240), '
                   'tuple(builtins.int:251658240, builtins.int:283115520)))',
 "big|str:'121B'": 'list(numpy.int64(np.int64(1)), dict{builtins.int:0: '
                   "dict{builtins.str:'offset': builtins.int:0, builtins.str:'size': "
                   "builtins.int:31457280}, builtins.int:1: dict{builtins.str:'offset': "
                   "builtins.int:31457280, builtins.str:'size': builtins.int:31457280}, "
                   "builtins.int:2: dict{builtins.str:'offset': builtins.int:62914560, "
                   "builtins.str:'size': builtins.int:31457280}, builtins.int:3: "
                   "dict{builtins.str:'offset': builtins.int:94371840, builtins.str:'size': "
                   "builtins.int:31457280}, builtins.int:4: dict{builtins.str:'offset': "
                   "builtins.int:125829120, builtins.str:'size': builtins.int:31457280}, "
                   "builtins.int:5: dict{builtins.str:'offset': builtins.int:157286400, "
                   "builtins.str:'size': builtins.int:31457280}, builtins.int:6: "
                   "dict{builtins.str:'offset': builtins.int:188743680, builtins.str:'size': "
                   "builtins.int:31457280}, builtins.int:7: dict{builtins.str:'offset': "
                   "builtins.int:220200960, builtins.str:'size': builtins.int:31457280}, "
                   "builtins.int:8: dict{builtins.str:'offset': builtins.int:251658240, "
                   "builtins.str:'size': builtins.int:31457280}}, "
                   'builtins.str:"Array(url=\'image\', shape=(9, 15728640), dtype=\'uint16\', '
                   'records_per_chunk=np.int64(1))", tuple(numpy.int64(np.int64(1)), '
                   'builtins.int:15728640), builtins.int:2, tuple(builtins.int:9, '
                   'builtins.int:15728640), list(tuple(builtins.int:0, builtins.int:31457280), '
                   'tuple(builtins.int:31457280, builtins.int:62914560), '
                   'tuple(builtins.int:62914560, builtins.int:94371840), '
                   'tuple(builtins.int:94371840, builtins.int:125829120), '
                   'tuple(builtins.int:125829120, builtins.int:157286400), '
                   'tuple(builtins.int:157286400, builtins.int:188743680), '
                   'tuple(builtins.int:188743680, builtins.int:220200960), '
                   'tuple(builtins.int:220200960, builtins.int:251658240), '
                   'tuple(builtins.int:251658240, builtins.int:283115520)))',
 "big|str:'0B'": "list(numpy.int64(np.int64(1)), dict{builtins.int:0: dict{builtins.str:'offset': "
                 "builtins.int:0, builtins.str:'size': builtins.int:31457280}, builtins.int:1: "
                 "dict{builtins.str:'offset': builtins.int:31457280, builtins.str:'size': "
                 "builtins.int:31457280}, builtins.int:2: dict{builtins.str:'offset': "
                 "builtins.int:62914560, builtins.str:'size': builtins.int:31457280}, "
                 "builtins.int:3: dict{builtins.str:'offset': builtins.int:94371840, "
                 "builtins.str:'size': builtins.int:31457280}, builtins.int:4: "
                 "dict{builtins.str:'offset': builtins.int:125829120, builtins.str:'size': "
                 "builtins.int:31457280}, builtins.int:5: dict{builtins.str:'offset': "
                 "builtins.int:157286400, builtins.str:'size': builtins.int:31457280}, "
                 "builtins.int:6: dict{builtins.str:'offset': builtins.int:188743680, "
                 "builtins.str:'size': builtins.int:31457280}, builtins.int:7: "
                 "dict{builtins.str:'offset': builtins.int:220200960, builtins.str:'size': "
                 "builtins.int:31457280}, builtins.int:8: dict{builtins.str:'offset': "
                 "builtins.int:251658240, builtins.str:'size': builtins.int:31457280}}, "
                 'builtins.str:"Array(url=\'image\', shape=(9, 15728640), dtype=\'uint16\', '
                 'records_per_chunk=np.int64(1))", tuple(numpy.int64(np.int64(1)), '
                 'builtins.int:15728640), builtins.int:2, tuple(builtins.int:9, '
                 'builtins.int:15728640), list(tuple(builtins.int:0, builtins.int:31457280), '
                 'tuple(builtins.int:31457280, builtins.int:62914560), '
                 'tuple(builtins.int:62914560, builtins.int:94371840), '
                 'tuple(builtins.int:94371840, builtins.int:125829120), '
                 'tuple(builtins.int:125829120, builtins.int:157286400), '
                 'tuple(builtins.int:157286400, builtins.int:188743680), '
                 'tuple(builtins.int:188743680, builtins.int:220200960), '
                 'tuple(builtins.int:220200960, builtins.int:251658240), '
                 'tuple(builtins.int:251658240, builtins.int:283115520)))',
 "big|str:'1kB'": "list(numpy.int64(np.int64(1)), dict{builtins.int:0: dict{builtins.str:'offset': "
                  "builtins.int:0, builtins.str:'size': builtins.int:31457280}, builtins.int:1: "
                  "dict{builtins.str:'offset': builtins.int:31457280, builtins.str:'size': "
                  "builtins.int:31457280}, builtins.int:2: dict{builtins.str:'offset': "
                  "builtins.int:62914560, builtins.str:'size': builtins.int:31457280}, "
                  "builtins.int:3: dict{builtins.str:'offset': builtins.int:94371840, "
                  "builtins.str:'size': builtins.int:31457280}, builtins.int:4: "
                  "dict{builtins.str:'offset': builtins.int:125829120, builtins.str:'size': "
                  "builtins.int:31457280}, builtins.int:5: dict{builtins.str:'offset': "
                  "builtins.int:157286400, builtins.str:'size': builtins.int:31457280}, "
                  "builtins.int:6: dict{builtins.str:'offset': builtins.int:188743680, "
                  "builtins.str:'size': builtins.int:31457280}, builtins.int:7: "
                  "dict{builtins.str:'offset': builtins.int:220200960, builtins.str:'size': "
                  "builtins.int:31457280}, builtins.int:8: dict{builtins.str:'offset': "
                  "builtins.int:251658240, builtins.str:'size': builtins.int:31457280}}, "
                  'builtins.str:"Array(url=\'image\', shape=(9, 15728640), dtype=\'uint16\', '
                  'records_per_chunk=np.int64(1))", tuple(numpy.int64(np.int64(1)), '
                  'builtins.int:15728640), builtins.int:2, tuple(builtins.int:9, '
                  'builtins.int:15728640), list(tuple(builtins.int:0, builtins.int:31457280), '
                  'tuple(builtins.int:31457280, builtins.int:62914560), '
                  'tuple(builtins.int:62914560, builtins.int:94371840), '
                  'tuple(builtins.int:94371840, builtins.int:125829120), '
                  'tuple(builtins.int:125829120, builtins.int:157286400), '
                  'tuple(builtins.int:157286400, builtins.int:188743680), '
                  'tuple(builtins.int:188743680, builtins.int:220200960), '
                  'tuple(builtins.int:220200960, builtins.int:251658240), '
                  'tuple(builtins.int:251658240, builtins.int:283115520)))',
 "big|str:'1kiB'": 'list(numpy.int64(np.int64(1)), dict{builtins.int:0: '
                   "dict{builtins.str:'offset': builtins.int:0, builtins.str:'size': "
                   "builtins.int:31457280}, builtins.int:1: dict{builtins.str:'offset': "
                   "builtins.int:31457280, builtins.str:'size': builtins.int:31457280}, "
                   "builtins.int:2: dict{builtins.str:'offset': builtins.int:62914560, "
                   "builtins.str:'size': builtins.int:31457280}, builtins.int:3: "
                   "dict{builtins.str:'offset': builtins.int:94371840, builtins.str:'size': "
                   "builtins.int:31457280}, builtins.int:4: dict{builtins.str:'offset': "
                   "builtins.int:125829120, builtins.str:'size': builtins.int:31457280}, "
                   "builtins.int:5: dict{builtins.str:'offset': builtins.int:157286400, "
                   "builtins.str:'size': builtins.int:31457280}, builtins.int:6: "
                   "dict{builtins.str:'offset': builtins.int:188743680, builtins.str:'size': "
                   "builtins.int:31457280}, builtins.int:7: dict{builtins.str:'offset': "
                   "builtins.int:220200960, builtins.str:'size': builtins.int:31457280}, "
                   "builtins.int:8: dict{builtins.str:'offset': builtins.int:251658240, "
                   "builtins.str:'size': builtins.int:31457280}}, "
                   'builtins.str:"Array(url=\'image\', shape=(9, 15728640), dtype=\'uint16\', '
                   'records_per_chunk=np.int64(1))", tuple(numpy.int64(np.int64(1)), '
                   'builtins.int:15728640), builtins.int:2, tuple(builtins.int:9, '
                   'builtins.int:15728640), list(tuple(builtins.int:0, builtins.int:31457280), '
                   'tuple(builtins.int:31457280, builtins.int:62914560), '
                   'tuple(builtins.int:62914560, builtins.int:94371840), '
                   'tuple(builtins.int:94371840, builtins.int:125829120), '
                   'tuple(builtins.int:125829120, builtins.int:157286400), '
                   'tuple(builtins.int:157286400, builtins.int:188743680), '
                   'tuple(builtins.int:188743680, builtins.int:220200960), '
                   'tuple(builtins.int:220200960, builtins.int:251658240), '
                   'tuple(builtins.int:251658240, builtins.int:283115520)))',
 "big|str:'1 MiB'": 'list(numpy.int64(np.int64(1)), dict{builtins.int:0: '
                    "dict{builtins.str:'offset': builtins.int:0, builtins.str:'size': "
                    "builtins.int:31457280}, builtins.int:1: dict{builtins.str:'offset': "
                    "builtins.int:31457280, builtins.str:'size': builtins.int:31457280}, "
                    "builtins.int:2: dict{builtins.str:'offset': builtins.int:62914560, "
                    "builtins.str:'size': builtins.int:31457280}, builtins.int:3: "
                    "dict{builtins.str:'offset': builtins.int:94371840, builtins.str:'size': "
                    "builtins.int:31457280}, builtins.int:4: dict{builtins.str:'offset': "
                    "builtins.int:125829120, builtins.str:'size': builtins.int:31457280}, "
                    "builtins.int:5: dict{builtins.str:'offset': builtins.int:157286400, "
                    "builtins.str:'size': builtins.int:31457280}, builtins.int:6: "
                    "dict{builtins.str:'offset': builtins.int:188743680, builtins.str:'size': "
                    "builtins.int:31457280}, builtins.int:7: dict{builtins.str:'offset': "
                    "builtins.int:220200960, builtins.str:'size': builtins.int:31457280}, "
                    "builtins.int:8: dict{builtins.str:'offset': builtins.int:251658240, "
                    "builtins.str:'size': builtins.int:31457280}}, "
                    'builtins.str:"Array(url=\'image\', shape=(9, 15728640), dtype=\'uint16\', '
                    'records_per_chunk=np.int64(1))", tuple(numpy.int64(np.int64(1)), '
                    'builtins.int:15728640), builtins.int:2, tuple(builtins.int:9, '
                    'builtins.int:15728640), list(tuple(builtins.int:0, builtins.int:31457280), '
                    'tuple(builtins.int:31457280, builtins.int:62914560), '
                    'tuple(builtins.int:62914560, builtins.int:94371840), '
                    'tuple(builtins.int:94371840, builtins.int:125829120), '
                    'tuple(builtins.int:125829120, builtins.int:157286400), '
                    'tuple(builtins.int:157286400, builtins.int:188743680), '
                    'tuple(builtins.int:188743680, builtins.int:220200960), '
                    'tuple(builtins.int:220200960, builtins.int:251658240), '
                    'tuple(builtins.int:251658240, builtins.int:283115520)))',
 "big|str:'95MiB'": 'list(numpy.int64(np.int64(3)), dict{builtins.int:0: '
                    "dict{builtins.str:'offset': builtins.int:0, builtins.str:'size': "
                    "builtins.int:94371840}, builtins.int:1: dict{builtins.str:'offset': "
                    "builtins.int:94371840, builtins.str:'size': builtins.int:94371840}, "
                    "builtins.int:2: dict{builtins.str:'offset': builtins.int:188743680, "
                    "builtins.str:'size': builtins.int:94371840}}, "
                    'builtins.str:"Array(url=\'image\', shape=(9, 15728640), dtype=\'uint16\', '
                    'records_per_chunk=np.int64(3))", tuple(numpy.int64(np.int64(3)), '
                    'builtins.int:15728640), builtins.int:2, tuple(builtins.int:9, '
                    'builtins.int:15728640), list(tuple(builtins.int:0, builtins.int:31457280), '
                    'tuple(builtins.int:31457280, builtins.int:62914560), '
                    'tuple(builtins.int:62914560, builtins.int:94371840), '
                    'tuple(builtins.int:94371840, builtins.int:125829120), '
                    'tuple(builtins.int:125829120, builtins.int:157286400), '
                    'tuple(builtins.int:157286400, builtins.int:188743680), '
                    'tuple(builtins.int:188743680, builtins.int:220200960), '
                    'tuple(builtins.int:220200960, builtins.int:251658240), '
                    'tuple(builtins.int:251658240, builtins.int:283115520)))',
 "big|str:'0.1 GB'": 'list(numpy.int64(np.int64(3)), dict{builtins.int:0: '
                     "dict{builtins.str:'offset': builtins.int:0, builtins.str:'size': "
                     "builtins.int:94371840}, builtins.int:1: dict{builtins.str:'offset': "
                     "builtins.int:94371840, builtins.str:'size': builtins.int:94371840}, "
                     "builtins.int:2: dict{builtins.str:'offset': builtins.int:188743680, "
                     "builtins.str:'size': builtins.int:94371840}}, "
                     'builtins.str:"Array(url=\'image\', shape=(9, 15728640), dtype=\'uint16\', '
                     'records_per_chunk=np.int64(3))", tuple(numpy.int64(np.int64(3)), '
                     'builtins.int:15728640), builtins.int:2, tuple(builtins.int:9, '
                     'builtins.int:15728640), list(tuple(builtins.int:0, builtins.int:31457280), '
                     'tuple(builtins.int:31457280, builtins.int:62914560), '
                     'tuple(builtins.int:62914560, builtins.int:94371840), '
                     'tuple(builtins.int:94371840, builtins.int:125829120), '
                     'tuple(builtins.int:125829120, builtins.int:157286400), '
                     'tuple(builtins.int:157286400, builtins.int:188743680), '
                     'tuple(builtins.int:188743680, builtins.int:220200960), '
                     'tuple(builtins.int:220200960, builtins.int:251658240), '
                     'tuple(builtins.int:251658240, builtins.int:283115520)))',
 "big|str:'100'": "list(numpy.int64(np.int64(1)), dict{builtins.int:0: dict{builtins.str:'offset': "
                  "builtins.int:0, builtins.str:'size': builtins.int:31457280}, builtins.int:1: "
                  "dict{builtins.str:'offset': builtins.int:31457280, builtins.str:'size': "
                  "builtins.int:31457280}, builtins.int:2: dict{builtins.str:'offset': "
                  "builtins.int:62914560, builtins.str:'size': builtins.int:31457280}, "
                  "builtins.int:3: dict{builtins.str:'offset': builtins.int:94371840, "
                  "builtins.str:'size': builtins.int:31457280}, builtins.int:4: "
                  "dict{builtins.str:'offset': builtins.int:125829120, builtins.str:'size': "
                  "builtins.int:31457280}, builtins.int:5: dict{builtins.str:'offset': "
                  "builtins.int:157286400, builtins.str:'size': builtins.int:31457280}, "
                  "builtins.int:6: dict{builtins.str:'offset': builtins.int:188743680, "
                  "builtins.str:'size': builtins.int:31457280}, builtins.int:7: "
                  "dict{builtins.str:'offset': builtins.int:220200960, builtins.str:'size': "
                  "builtins.int:31457280}, builtins.int:8: dict{builtins.str:'offset': "
                  "builtins.int:251658240, builtins.str:'size': builtins.int:31457280}}, "
                  'builtins.str:"Array(url=\'image\', shape=(9, 15728640), dtype=\'uint16\', '
                  'records_per_chunk=np.int64(1))", tuple(numpy.int64(np.int64(1)), '
                  'builtins.int:15728640), builtins.int:2, tuple(builtins.int:9, '
                  'builtins.int:15728640), list(tuple(builtins.int:0, builtins.int:31457280), '
                  'tuple(builtins.int:31457280, builtins.int:62914560), '
                  'tuple(builtins.int:62914560, builtins.int:94371840), '
                  'tuple(builtins.int:94371840, builtins.int:125829120), '
                  'tuple(builtins.int:125829120, builtins.int:157286400), '
                  'tuple(builtins.int:157286400, builtins.int:188743680), '
                  'tuple(builtins.int:188743680, builtins.int:220200960), '
                  'tuple(builtins.int:220200960, builtins.int:251658240), '
                  'tuple(builtins.int:251658240, builtins.int:283115520)))',
 "big|str:'1e2'": "list(numpy.int64(np.int64(1)), dict{builtins.int:0: dict{builtins.str:'offset': "
                  "builtins.int:0, builtins.str:'size': builtins.int:31457280}, builtins.int:1: "
                  "dict{builtins.str:'offset': builtins.int:31457280, builtins.str:'size': "
                  "builtins.int:31457280}, builtins.int:2: dict{builtins.str:'offset': "
                  "builtins.int:62914560, builtins.str:'size': builtins.int:31457280}, "
                  "builtins.int:3: dict{builtins.str:'offset': builtins.int:94371840, "
                  "builtins.str:'size': builtins.int:31457280}, builtins.int:4: "
                  "dict{builtins.str:'offset': builtins.int:125829120, builtins.str:'size': "
                  "builtins.int:31457280}, builtins.int:5: dict{builtins.str:'offset': "
                  "builtins.int:157286400, builtins.str:'size': builtins.int:31457280}, "
                  "builtins.int:6: dict{builtins.str:'offset': builtins.int:188743680, "
                  "builtins.str:'size': builtins.int:31457280}, builtins.int:7: "
                  "dict{builtins.str:'offset': builtins.int:220200960, builtins.str:'size': "
                  "builtins.int:31457280}, builtins.int:8: dict{builtins.str:'offset': "
                  "builtins.int:251658240, builtins.str:'size': builtins.int:31457280}}, "
                  'builtins.str:"Array(url=\'image\', shape=(9, 15728640), dtype=\'uint16\', '
                  'records_per_chunk=np.int64(1))", tuple(numpy.int64(np.int64(1)), '
                  'builtins.int:15728640), builtins.int:2, tuple(builtins.int:9, '
                  'builtins.int:15728640), list(tuple(builtins.int:0, builtins.int:31457280), '
                  'tuple(builtins.int:31457280, builtins.int:62914560), '
                  'tuple(builtins.int:62914560, builtins.int:94371840), '
                  'tuple(builtins.int:94371840, builtins.int:125829120), '
                  'tuple(builtins.int:125829120, builtins.int:157286400), '
                  'tuple(builtins.int:157286400, builtins.int:188743680), '
                  'tuple(builtins.int:188743680, builtins.int:220200960), '
                  'tuple(builtins.int:220200960, builtins.int:251658240), '
                  'tuple(builtins.int:251658240, builtins.int:283115520)))',
 "big|str:'kB'": "list(numpy.int64(np.int64(1)), dict{builtins.int:0: dict{builtins.str:'offset': "
                 "builtins.int:0, builtins.str:'size': builtins.int:31457280}, builtins.int:1: "
                 "dict{builtins.str:'offset': builtins.int:31457280, builtins.str:'size': "
                 "builtins.int:31457280}, builtins.int:2: dict{builtins.str:'offset': "
                 "builtins.int:62914560, builtins.str:'size': builtins.int:31457280}, "
                 "builtins.int:3: dict{builtins.str:'offset': builtins.int:94371840, "
                 "builtins.str:'size': builtins.int:31457280}, builtins.int:4: "
                 "dict{builtins.str:'offset': builtins.int:125829120, builtins.str:'size': "
                 "builtins.int:31457280}, builtins.int:5: dict{builtins.str:'offset': "
                 "builtins.int:157286400, builtins.str:'size': builtins.int:31457280}, "
                 "builtins.int:6: dict{builtins.str:'offset': builtins.int:188743680, "
                 "builtins.str:'size': builtins.int:31457280}, builtins.int:7: "
                 "dict{builtins.str:'offset': builtins.int:220200960, builtins.str:'size': "
                 "builtins.int:31457280}, builtins.int:8: dict{builtins.str:'offset': "
                 "builtins.int:251658240, builtins.str:'size': builtins.int:31457280}}, "
                 'builtins.str:"Array(url=\'image\', shape=(9, 15728640), dtype=\'uint16\', '
                 'records_per_chunk=np.int64(1))", tuple(numpy.int64(np.int64(1)), '
                 'builtins.int:15728640), builtins.int:2, tuple(builtins.int:9, '
                 'builtins.int:15728640), list(tuple(builtins.int:0, builtins.int:31457280), '
                 'tuple(builtins.int:31457280, builtins.int:62914560), '
                 'tuple(builtins.int:62914560, builtins.int:94371840), '
                 'tuple(builtins.int:94371840, builtins.int:125829120), '
                 'tuple(builtins.int:125829120, builtins.int:157286400), '
                 'tuple(builtins.int:157286400, builtins.int:188743680), '
                 'tuple(builtins.int:188743680, builtins.int:220200960), '
                 'tuple(builtins.int:220200960, builtins.int:251658240), '
                 'tuple(builtins.int:251658240, builtins.int:283115520)))',
 "big|str:''": "list(numpy.int64(np.int64(1)), dict{builtins.int:0: dict{builtins.str:'offset': "
               "builtins.int:0, builtins.str:'size': builtins.int:31457280}, builtins.int:1: "
               "dict{builtins.str:'offset': builtins.int:31457280, builtins.str:'size': "
               "builtins.int:31457280}, builtins.int:2: dict{builtins.str:'offset': "
               "builtins.int:62914560, builtins.str:'size': builtins.int:31457280}, "
               "builtins.int:3: dict{builtins.str:'offset': builtins.int:94371840, "
               "builtins.str:'size': builtins.int:31457280}, builtins.int:4: "
               "dict{builtins.str:'offset': builtins.int:125829120, builtins.str:'size': "
               "builtins.int:31457280}, builtins.int:5: dict{builtins.str:'offset': "
               "builtins.int:157286400, builtins.str:'size': builtins.int:31457280}, "
               "builtins.int:6: dict{builtins.str:'offset': builtins.int:188743680, "
               "builtins.str:'size': builtins.int:31457280}, builtins.int:7: "
               "dict{builtins.str:'offset': builtins.int:220200960, builtins.str:'size': "
               "builtins.int:31457280}, builtins.int:8: dict{builtins.str:'offset': "
               "builtins.int:251658240, builtins.str:'size': builtins.int:31457280}}, "
               'builtins.str:"Array(url=\'image\', shape=(9, 15728640), dtype=\'uint16\', '
               'records_per_chunk=np.int64(1))", tuple(numpy.int64(np.int64(1)), '
               'builtins.int:15728640), builtins.int:2, tuple(builtins.int:9, '
               'builtins.int:15728640), list(tuple(builtins.int:0, builtins.int:31457280), '
               'tuple(builtins.int:31457280, builtins.int:62914560), tuple(builtins.int:62914560, '
               'builtins.int:94371840), tuple(builtins.int:94371840, builtins.int:125829120), '
               'tuple(builtins.int:125829120, builtins.int:157286400), '
               'tuple(builtins.int:157286400, builtins.int:188743680), '
               'tuple(builtins.int:188743680, builtins.int:220200960), '
               'tuple(builtins.int:220200960, builtins.int:251658240), '
               'tuple(builtins.int:251658240, builtins.int:283115520)))',
 "big|str:'5 foos'": "raise builtins.ValueError: Could not interpret 'foos' as a byte unit",
 "big|str:'abc'": "raise builtins.ValueError: Could not interpret 'abc' as a byte unit",
 "big|str:'AUTO'": "raise builtins.ValueError: Could not interpret 'AUTO' as a byte unit",
 "big|str:' auto'": "raise builtins.ValueError: Could not interpret 'auto' as a byte unit",
 "big|Text:'auto'": 'list(numpy.int64(np.int64(3)), dict{builtins.int:0: '
                    "dict{builtins.str:'offset': builtins.int:0, builtins.str:'size': "
                    "builtins.int:94371840}, builtins.int:1: dict{builtins.str:'offset': "
                    "builtins.int:94371840, builtins.str:'size': builtins.int:94371840}, "
                    "builtins.int:2: dict{builtins.str:'offset': builtins.int:188743680, "
                    "builtins.str:'size': builtins.int:94371840}}, "
                    'builtins.str:"Array(url=\'image\', shape=(9, 15728640), dtype=\'uint16\', '
                    'records_per_chunk=np.int64(3))", tuple(numpy.int64(np.int64(3)), '
                    'builtins.int:15728640), builtins.int:2, tuple(builtins.int:9, '
                    'builtins.int:15728640), list(tuple(builtins.int:0, builtins.int:31457280), '
                    'tuple(builtins.int:31457280, builtins.int:62914560), '
                    'tuple(builtins.int:62914560, builtins.int:94371840), '
                    'tuple(builtins.int:94371840, builtins.int:125829120), '
                    'tuple(builtins.int:125829120, builtins.int:157286400), '
                    'tuple(builtins.int:157286400, builtins.int:188743680), '
                    'tuple(builtins.int:188743680, builtins.int:220200960), '
                    'tuple(builtins.int:220200960, builtins.int:251658240), '
                    'tuple(builtins.int:251658240, builtins.int:283115520)))',
 "big|Text:'160B'": 'list(numpy.int64(np.int64(1)), dict{builtins.int:0: '
                    "dict{builtins.str:'offset': builtins.int:0, builtins.str:'size': "
                    "builtins.int:31457280}, builtins.int:1: dict{builtins.str:'offset': "
                    "builtins.int:31457280, builtins.str:'size': builtins.int:31457280}, "
                    "builtins.int:2: dict{builtins.str:'offset': builtins.int:62914560, "
                    "builtins.str:'size': builtins.int:31457280}, builtins.int:3: "
                    "dict{builtins.str:'offset': builtins.int:94371840, builtins.str:'size': "
                    "builtins.int:31457280}, builtins.int:4: dict{builtins.str:'offset': "
                    "builtins.int:125829120, builtins.str:'size': builtins.int:31457280}, "
                    "builtins.int:5: dict{builtins.str:'offset': builtins.int:157286400, "
                    "builtins.str:'size': builtins.int:31457280}, builtins.int:6: "
                    "dict{builtins.str:'offset': builtins.int:188743680, builtins.str:'size': "
                    "builtins.int:31457280}, builtins.int:7: dict{builtins.str:'offset': "
                    "builtins.int:220200960, builtins.str:'size': builtins.int:31457280}, "
                    "builtins.int:8: dict{builtins.str:'offset': builtins.int:251658240, "
                    "builtins.str:'size': builtins.int:31457280}}, "
                    'builtins.str:"Array(url=\'image\', shape=(9, 15728640), dtype=\'uint16\', '
                    'records_per_chunk=np.int64(1))", tuple(numpy.int64(np.int64(1)), '
                    'builtins.int:15728640), builtins.int:2, tuple(builtins.int:9, '
                    'builtins.int:15728640), list(tuple(builtins.int:0, builtins.int:31457280), '
                    'tuple(builtins.int:31457280, builtins.int:62914560), '
                    'tuple(builtins.int:62914560, builtins.int:94371840), '
                    'tuple(builtins.int:94371840, builtins.int:125829120), '
                    'tuple(builtins.int:125829120, builtins.int:157286400), '
                    'tuple(builtins.int:157286400, builtins.int:188743680), '
                    'tuple(builtins.int:188743680, builtins.int:220200960), '
                    'tuple(builtins.int:220200960, builtins.int:251658240), '
                    'tuple(builtins.int:251658240, builtins.int:283115520)))',
 'big|int:-1': "list(builtins.int:9, dict{builtins.int:0: dict{builtins.str:'offset': "
               "builtins.int:0, builtins.str:'size': builtins.int:283115520}}, "
               'builtins.str:"Array(url=\'image\', shape=(9, 15728640), dtype=\'uint16\', '
               'records_per_chunk=9)", tuple(builtins.int:9, builtins.int:15728640), '
               'builtins.int:2, tuple(builtins.int:9, builtins.int:15728640), '
               'list(tuple(builtins.int:0, builtins.int:31457280), tuple(builtins.int:31457280, '
               'builtins.int:62914560), tuple(builtins.int:62914560, builtins.int:94371840), '
               'tuple(builtins.int:94371840, builtins.int:125829120), '
               'tuple(builtins.int:125829120, builtins.int:157286400), '
               'tuple(builtins.int:157286400, builtins.int:188743680), '
               'tuple(builtins.int:188743680, builtins.int:220200960), '
               'tuple(builtins.int:220200960, builtins.int:251658240), '
               'tuple(builtins.int:251658240, builtins.int:283115520)))',
 'big|int:0': 'list(builtins.int:0, dict{}, builtins.str:"Array(url=\'image\', shape=(9, '
              '15728640), dtype=\'uint16\', records_per_chunk=0)", tuple(builtins.int:0, '
              'builtins.int:15728640), builtins.int:2, tuple(builtins.int:9, '
              'builtins.int:15728640), list(tuple(builtins.int:0, builtins.int:31457280), '
              'tuple(builtins.int:31457280, builtins.int:62914560), tuple(builtins.int:62914560, '
              'builtins.int:94371840), tuple(builtins.int:94371840, builtins.int:125829120), '
              'tuple(builtins.int:125829120, builtins.int:157286400), '
              'tuple(builtins.int:157286400, builtins.int:188743680), '
              'tuple(builtins.int:188743680, builtins.int:220200960), '
              'tuple(builtins.int:220200960, builtins.int:251658240), '
              'tuple(builtins.int:251658240, builtins.int:283115520)))',
 'big|int:1': "list(builtins.int:1, dict{builtins.int:0: dict{builtins.str:'offset': "
              "builtins.int:0, builtins.str:'size': builtins.int:31457280}, builtins.int:1: "
              "dict{builtins.str:'offset': builtins.int:31457280, builtins.str:'size': "
              "builtins.int:31457280}, builtins.int:2: dict{builtins.str:'offset': "
              "builtins.int:62914560, builtins.str:'size': builtins.int:31457280}, builtins.int:3: "
              "dict{builtins.str:'offset': builtins.int:94371840, builtins.str:'size': "
              "builtins.int:31457280}, builtins.int:4: dict{builtins.str:'offset': "
              "builtins.int:125829120, builtins.str:'size': builtins.int:31457280}, "
              "builtins.int:5: dict{builtins.str:'offset': builtins.int:157286400, "
              "builtins.str:'size': builtins.int:31457280}, builtins.int:6: "
              "dict{builtins.str:'offset': builtins.int:188743680, builtins.str:'size': "
              "builtins.int:31457280}, builtins.int:7: dict{builtins.str:'offset': "
              "builtins.int:220200960, builtins.str:'size': builtins.int:31457280}, "
              "builtins.int:8: dict{builtins.str:'offset': builtins.int:251658240, "
              'builtins.str:\'size\': builtins.int:31457280}}, builtins.str:"Array(url=\'image\', '
              'shape=(9, 15728640), dtype=\'uint16\', records_per_chunk=1)", tuple(builtins.int:1, '
              'builtins.int:15728640), builtins.int:2, tuple(builtins.int:9, '
              'builtins.int:15728640), list(tuple(builtins.int:0, builtins.int:31457280), '
              'tuple(builtins.int:31457280, builtins.int:62914560), tuple(builtins.int:62914560, '
              'builtins.int:94371840), tuple(builtins.int:94371840, builtins.int:125829120), '
              'tuple(builtins.int:125829120, builtins.int:157286400), '
              'tuple(builtins.int:157286400, builtins.int:188743680), '
              'tuple(builtins.int:188743680, builtins.int:220200960), '
              'tuple(builtins.int:220200960, builtins.int:251658240), '
              'tuple(builtins.int:251658240, builtins.int:283115520)))',
 'big|int:2': "list(builtins.int:2, dict{builtins.int:0: dict{builtins.str:'offset': "
              "builtins.int:0, builtins.str:'size': builtins.int:62914560}, builtins.int:1: "
              "dict{builtins.str:'offset': builtins.int:62914560, builtins.str:'size': "
              "builtins.int:62914560}, builtins.int:2: dict{builtins.str:'offset': "
              "builtins.int:125829120, builtins.str:'size': builtins.int:62914560}, "
              "builtins.int:3: dict{builtins.str:'offset': builtins.int:188743680, "
              "builtins.str:'size': builtins.int:62914560}, builtins.int:4: "
              "dict{builtins.str:'offset': builtins.int:251658240, builtins.str:'size': "
              'builtins.int:31457280}}, builtins.str:"Array(url=\'image\', shape=(9, 15728640), '
              'dtype=\'uint16\', records_per_chunk=2)", tuple(builtins.int:2, '
              'builtins.int:15728640), builtins.int:2, tuple(builtins.int:9, '
              'builtins.int:15728640), list(tuple(builtins.int:0, builtins.int:31457280), '
              'tuple(builtins.int:31457280, builtins.int:62914560), tuple(builtins.int:62914560, '
              'builtins.int:94371840), tuple(builtins.int:94371840, builtins.int:125829120), '
              'tuple(builtins.int:125829120, builtins.int:157286400), '
              'tuple(builtins.int:157286400, builtins.int:188743680), '
              'tuple(builtins.int:188743680, builtins.int:220200960), '
              'tuple(builtins.int:220200960, builtins.int:251658240), '
              'tuple(builtins.int:251658240, builtins.int:283115520)))',
 'big|int:3': "list(builtins.int:3, dict{builtins.int:0: dict{builtins.str:'offset': "
              "builtins.int:0, builtins.str:'size': builtins.int:94371840}, builtins.int:1: "
              "dict{builtins.str:'offset': builtins.int:94371840, builtins.str:'size': "
              "builtins.int:94371840}, builtins.int:2: dict{builtins.str:'offset': "
              "builtins.int:188743680, builtins.str:'size': builtins.int:94371840}}, "
              'builtins.str:"Array(url=\'image\', shape=(9, 15728640), dtype=\'uint16\', '
              'records_per_chunk=3)", tuple(builtins.int:3, builtins.int:15728640), '
              'builtins.int:2, tuple(builtins.int:9, builtins.int:15728640), '
              'list(tuple(builtins.int:0, builtins.int:31457280), tuple(builtins.int:31457280, '
              'builtins.int:62914560), tuple(builtins.int:62914560, builtins.int:94371840), '
              'tuple(builtins.int:94371840, builtins.int:125829120), tuple(builtins.int:125829120, '
              'builtins.int:157286400), tuple(builtins.int:157286400, builtins.int:188743680), '
              'tuple(builtins.int:188743680, builtins.int:220200960), '
              'tuple(builtins.int:220200960, builtins.int:251658240), '
              'tuple(builtins.int:251658240, builtins.int:283115520)))',
 'big|int:4': "list(builtins.int:4, dict{builtins.int:0: dict{builtins.str:'offset': "
              "builtins.int:0, builtins.str:'size': builtins.int:125829120}, builtins.int:1: "
              "dict{builtins.str:'offset': builtins.int:125829120, builtins.str:'size': "
              "builtins.int:125829120}, builtins.int:2: dict{builtins.str:'offset': "
              "builtins.int:251658240, builtins.str:'size': builtins.int:31457280}}, "
              'builtins.str:"Array(url=\'image\', shape=(9, 15728640), dtype=\'uint16\', '
              'records_per_chunk=4)", tuple(builtins.int:4, builtins.int:15728640), '
              'builtins.int:2, tuple(builtins.int:9, builtins.int:15728640), '
              'list(tuple(builtins.int:0, builtins.int:31457280), tuple(builtins.int:31457280, '
              'builtins.int:62914560), tuple(builtins.int:62914560, builtins.int:94371840), '
              'tuple(builtins.int:94371840, builtins.int:125829120), tuple(builtins.int:125829120, '
              'builtins.int:157286400), tuple(builtins.int:157286400, builtins.int:188743680), '
              'tuple(builtins.int:188743680, builtins.int:220200960), '
              'tuple(builtins.int:220200960, builtins.int:251658240), '
              'tuple(builtins.int:251658240, builtins.int:283115520)))',
 'big|int:5': "list(builtins.int:5, dict{builtins.int:0: dict{builtins.str:'offset': "
              "builtins.int:0, builtins.str:'size': builtins.int:157286400}, builtins.int:1: "
              "dict{builtins.str:'offset': builtins.int:157286400, builtins.str:'size': "
              'builtins.int:125829120}}, builtins.str:"Array(url=\'image\', shape=(9, 15728640), '
              'dtype=\'uint16\', records_per_chunk=5)", tuple(builtins.int:5, '
              'builtins.int:15728640), builtins.int:2, tuple(builtins.int:9, '
              'builtins.int:15728640), list(tuple(builtins.int:0, builtins.int:31457280), '
              'tuple(builtins.int:31457280, builtins.int:62914560), tuple(builtins.int:62914560, '
              'builtins.int:94371840), tuple(builtins.int:94371840, builtins.int:125829120), '
              'tuple(builtins.int:125829120, builtins.int:157286400), '
              'tuple(builtins.int:157286400, builtins.int:188743680), '
              'tuple(builtins.int:188743680, builtins.int:220200960), '
              'tuple(builtins.int:220200960, builtins.int:251658240), '
              'tuple(builtins.int:251658240, builtins.int:283115520)))',
 'big|int:6': "list(builtins.int:6, dict{builtins.int:0: dict{builtins.str:'offset': "
              "builtins.int:0, builtins.str:'size': builtins.int:188743680}, builtins.int:1: "
              "dict{builtins.str:'offset': builtins.int:188743680, builtins.str:'size': "
              'builtins.int:94371840}}, builtins.str:"Array(url=\'image\', shape=(9, 15728640), '
              'dtype=\'uint16\', records_per_chunk=6)", tuple(builtins.int:6, '
              'builtins.int:15728640), builtins.int:2, tuple(builtins.int:9, '
              'builtins.int:15728640), list(tuple(builtins.int:0, builtins.int:31457280), '
              'tuple(builtins.int:31457280, builtins.int:62914560), tuple(builtins.int:62914560, '
              'builtins.int:94371840), tuple(builtins.int:94371840, builtins.int:125829120), '
              'tuple(builtins.int:125829120, builtins.int:157286400), '
              'tuple(builtins.int:157286400, builtins.int:188743680), '
              'tuple(builtins.int:188743680, builtins.int:220200960), '
              'tuple(builtins.int:220200960, builtins.int:251658240), '
              'tuple(builtins.int:251658240, builtins.int:283115520)))',
 'big|int:7': "list(builtins.int:7, dict{builtins.int:0: dict{builtins.str:'offset': "
              "builtins.int:0, builtins.str:'size': builtins.int:220200960}, builtins.int:1: "
              "dict{builtins.str:'offset': builtins.int:220200960, builtins.str:'size': "
              'builtins.int:62914560}}, builtins.str:"Array(url=\'image\', shape=(9, 15728640), '
              'dtype=\'uint16\', records_per_chunk=7)", tuple(builtins.int:7, '
              'builtins.int:15728640), builtins.int:2, tuple(builtins.int:9, '
              'builtins.int:15728640), list(tuple(builtins.int:0, builtins.int:31457280), '
              'tuple(builtins.int:31457280, builtins.int:62914560), tuple(builtins.int:62914560, '
              'builtins.int:94371840), tuple(builtins.int:94371840, builtins.int:125829120), '
              'tuple(builtins.int:125829120, builtins.int:157286400), '
              'tuple(builtins.int:157286400, builtins.int:188743680), '
              'tuple(builtins.int:188743680, builtins.int:220200960), '
              'tuple(builtins.int:220200960, builtins.int:251658240), '
              'tuple(builtins.int:251658240, builtins.int:283115520)))',
 'big|int:8': "list(builtins.int:8, dict{builtins.int:0: dict{builtins.str:'offset': "
              "builtins.int:0, builtins.str:'size': builtins.int:251658240}, builtins.int:1: "
              "dict{builtins.str:'offset': builtins.int:251658240, builtins.str:'size': "
              'builtins.int:31457280}}, builtins.str:"Array(url=\'image\', shape=(9, 15728640), '
              'dtype=\'uint16\', records_per_chunk=8)", tuple(builtins.int:8, '
              'builtins.int:15728640), builtins.int:2, tuple(builtins.int:9, '
              'builtins.int:15728640), list(tuple(builtins.int:0, builtins.int:31457280), '
              'tuple(builtins.int:31457280, builtins.int:62914560), tuple(builtins.int:62914560, '
              'builtins.int:94371840), tuple(builtins.int:94371840, builtins.int:125829120), '
              'tuple(builtins.int:125829120, builtins.int:157286400), '
              'tuple(builtins.int:157286400, builtins.int:188743680), '
              'tuple(builtins.int:188743680, builtins.int:220200960), '
              'tuple(builtins.int:220200960, builtins.int:251658240), '
              'tuple(builtins.int:251658240, builtins.int:283115520)))',
 'big|int:1024': "list(builtins.int:9, dict{builtins.int:0: dict{builtins.str:'offset': "
                 "builtins.int:0, builtins.str:'size': builtins.int:283115520}}, "
                 'builtins.str:"Array(url=\'image\', shape=(9, 15728640), dtype=\'uint16\', '
                 'records_per_chunk=9)", tuple(builtins.int:9, builtins.int:15728640), '
                 'builtins.int:2, tuple(builtins.int:9, builtins.int:15728640), '
                 'list(tuple(builtins.int:0, builtins.int:31457280), tuple(builtins.int:31457280, '
                 'builtins.int:62914560), tuple(builtins.int:62914560, builtins.int:94371840), '
                 'tuple(builtins.int:94371840, builtins.int:125829120), '
                 'tuple(builtins.int:125829120, builtins.int:157286400), '
                 'tuple(builtins.int:157286400, builtins.int:188743680), '
                 'tuple(builtins.int:188743680, builtins.int:220200960), '
                 'tuple(builtins.int:220200960, builtins.int:251658240), '
                 'tuple(builtins.int:251658240, builtins.int:283115520)))',
 'big|int:-2': 'list(builtins.int:-2, dict{}, builtins.str:"Array(url=\'image\', shape=(9, '
               '15728640), dtype=\'uint16\', records_per_chunk=-2)", tuple(builtins.int:-2, '
               'builtins.int:15728640), builtins.int:2, tuple(builtins.int:9, '
               'builtins.int:15728640), list(tuple(builtins.int:0, builtins.int:31457280), '
               'tuple(builtins.int:31457280, builtins.int:62914560), tuple(builtins.int:62914560, '
               'builtins.int:94371840), tuple(builtins.int:94371840, builtins.int:125829120), '
               'tuple(builtins.int:125829120, builtins.int:157286400), '
               'tuple(builtins.int:157286400, builtins.int:188743680), '
               'tuple(builtins.int:188743680, builtins.int:220200960), '
               'tuple(builtins.int:220200960, builtins.int:251658240), '
               'tuple(builtins.int:251658240, builtins.int:283115520)))',
 'big|bool:True': "list(builtins.bool:True, dict{builtins.int:0: dict{builtins.str:'offset': "
                  "builtins.int:0, builtins.str:'size': builtins.int:31457280}, builtins.int:1: "
                  "dict{builtins.str:'offset': builtins.int:31457280, builtins.str:'size': "
                  "builtins.int:31457280}, builtins.int:2: dict{builtins.str:'offset': "
                  "builtins.int:62914560, builtins.str:'size': builtins.int:31457280}, "
                  "builtins.int:3: dict{builtins.str:'offset': builtins.int:94371840, "
                  "builtins.str:'size': builtins.int:31457280}, builtins.int:4: "
                  "dict{builtins.str:'offset': builtins.int:125829120, builtins.str:'size': "
                  "builtins.int:31457280}, builtins.int:5: dict{builtins.str:'offset': "
                  "builtins.int:157286400, builtins.str:'size': builtins.int:31457280}, "
                  "builtins.int:6: dict{builtins.str:'offset': builtins.int:188743680, "
                  "builtins.str:'size': builtins.int:31457280}, builtins.int:7: "
                  "dict{builtins.str:'offset': builtins.int:220200960, builtins.str:'size': "
                  "builtins.int:31457280}, builtins.int:8: dict{builtins.str:'offset': "
                  "builtins.int:251658240, builtins.str:'size': builtins.int:31457280}}, "
                  'builtins.str:"Array(url=\'image\', shape=(9, 15728640), dtype=\'uint16\', '
                  'records_per_chunk=True)", tuple(builtins.bool:True, builtins.int:15728640), '
                  'builtins.int:2, tuple(builtins.int:9, builtins.int:15728640), '
                  'list(tuple(builtins.int:0, builtins.int:31457280), tuple(builtins.int:31457280, '
                  'builtins.int:62914560), tuple(builtins.int:62914560, builtins.int:94371840), '
                  'tuple(builtins.int:94371840, builtins.int:125829120), '
                  'tuple(builtins.int:125829120, builtins.int:157286400), '
                  'tuple(builtins.int:157286400, builtins.int:188743680), '
                  'tuple(builtins.int:188743680, builtins.int:220200960), '
                  'tuple(builtins.int:220200960, builtins.int:251658240), '
                  'tuple(builtins.int:251658240, builtins.int:283115520)))',
 'big|bool:False': 'list(builtins.bool:False, dict{}, builtins.str:"Array(url=\'image\', shape=(9, '
                   '15728640), dtype=\'uint16\', records_per_chunk=False)", '
                   'tuple(builtins.bool:False, builtins.int:15728640), builtins.int:2, '
                   'tuple(builtins.int:9, builtins.int:15728640), list(tuple(builtins.int:0, '
                   'builtins.int:31457280), tuple(builtins.int:31457280, builtins.int:62914560), '
                   'tuple(builtins.int:62914560, builtins.int:94371840), '
                   'tuple(builtins.int:94371840, builtins.int:125829120), '
                   'tuple(builtins.int:125829120, builtins.int:157286400), '
                   'tuple(builtins.int:157286400, builtins.int:188743680), '
                   'tuple(builtins.int:188743680, builtins.int:220200960), '
                   'tuple(builtins.int:220200960, builtins.int:251658240), '
                   'tuple(builtins.int:251658240, builtins.int:283115520)))',
 'big|int64:np.int64(3)': 'list(numpy.int64(np.int64(3)), dict{builtins.int:0: '
                          "dict{builtins.str:'offset': builtins.int:0, builtins.str:'size': "
                          "builtins.int:94371840}, builtins.int:1: dict{builtins.str:'offset': "
                          "builtins.int:94371840, builtins.str:'size': builtins.int:94371840}, "
                          "builtins.int:2: dict{builtins.str:'offset': builtins.int:188743680, "
                          "builtins.str:'size': builtins.int:94371840}}, "
                          'builtins.str:"Array(url=\'image\', shape=(9, 15728640), '
                          'dtype=\'uint16\', records_per_chunk=np.int64(3))", '
                          'tuple(numpy.int64(np.int64(3)), builtins.int:15728640), builtins.int:2, '
                          'tuple(builtins.int:9, builtins.int:15728640), '
                          'list(tuple(builtins.int:0, builtins.int:31457280), '
                          'tuple(builtins.int:31457280, builtins.int:62914560), '
                          'tuple(builtins.int:62914560, builtins.int:94371840), '
                          'tuple(builtins.int:94371840, builtins.int:125829120), '
                          'tuple(builtins.int:125829120, builtins.int:157286400), '
                          'tuple(builtins.int:157286400, builtins.int:188743680), '
                          'tuple(builtins.int:188743680, builtins.int:220200960), '
                          'tuple(builtins.int:220200960, builtins.int:251658240), '
                          'tuple(builtins.int:251658240, builtins.int:283115520)))',
 'big|int64:np.int64(-1)': "list(builtins.int:9, dict{builtins.int:0: dict{builtins.str:'offset': "
                           "builtins.int:0, builtins.str:'size': builtins.int:283115520}}, "
                           'builtins.str:"Array(url=\'image\', shape=(9, 15728640), '
                           'dtype=\'uint16\', records_per_chunk=9)", tuple(builtins.int:9, '
                           'builtins.int:15728640), builtins.int:2, tuple(builtins.int:9, '
                           'builtins.int:15728640), list(tuple(builtins.int:0, '
                           'builtins.int:31457280), tuple(builtins.int:31457280, '
                           'builtins.int:62914560), tuple(builtins.int:62914560, '
                           'builtins.int:94371840), tuple(builtins.int:94371840, '
                           'builtins.int:125829120), tuple(builtins.int:125829120, '
                           'builtins.int:157286400), tuple(builtins.int:157286400, '
                           'builtins.int:188743680), tuple(builtins.int:188743680, '
                           'builtins.int:220200960), tuple(builtins.int:220200960, '
                           'builtins.int:251658240), tuple(builtins.int:251658240, '
                           'builtins.int:283115520)))',
 'big|int64:np.int64(1000000)': 'list(builtins.int:9, dict{builtins.int:0: '
                                "dict{builtins.str:'offset': builtins.int:0, builtins.str:'size': "
                                'builtins.int:283115520}}, builtins.str:"Array(url=\'image\', '
                                'shape=(9, 15728640), dtype=\'uint16\', records_per_chunk=9)", '
                                'tuple(builtins.int:9, builtins.int:15728640), builtins.int:2, '
                                'tuple(builtins.int:9, builtins.int:15728640), '
                                'list(tuple(builtins.int:0, builtins.int:31457280), '
                                'tuple(builtins.int:31457280, builtins.int:62914560), '
                                'tuple(builtins.int:62914560, builtins.int:94371840), '
                                'tuple(builtins.int:94371840, builtins.int:125829120), '
                                'tuple(builtins.int:125829120, builtins.int:157286400), '
                                'tuple(builtins.int:157286400, builtins.int:188743680), '
                                'tuple(builtins.int:188743680, builtins.int:220200960), '
                                'tuple(builtins.int:220200960, builtins.int:251658240), '
                                'tuple(builtins.int:251658240, builtins.int:283115520)))',
 'big|float:2.0': "raise builtins.TypeError: can't multiply sequence by non-int of type 'float'",
 'big|float:2.5': "raise builtins.TypeError: can't multiply sequence by non-int of type 'float'",
 'big|float:-1.0': "list(builtins.int:9, dict{builtins.int:0: dict{builtins.str:'offset': "
                   "builtins.int:0, builtins.str:'size': builtins.int:283115520}}, "
                   'builtins.str:"Array(url=\'image\', shape=(9, 15728640), dtype=\'uint16\', '
                   'records_per_chunk=9)", tuple(builtins.int:9, builtins.int:15728640), '
                   'builtins.int:2, tuple(builtins.int:9, builtins.int:15728640), '
                   'list(tuple(builtins.int:0, builtins.int:31457280), '
                   'tuple(builtins.int:31457280, builtins.int:62914560), '
                   'tuple(builtins.int:62914560, builtins.int:94371840), '
                   'tuple(builtins.int:94371840, builtins.int:125829120), '
                   'tuple(builtins.int:125829120, builtins.int:157286400), '
                   'tuple(builtins.int:157286400, builtins.int:188743680), '
                   'tuple(builtins.int:188743680, builtins.int:220200960), '
                   'tuple(builtins.int:220200960, builtins.int:251658240), '
                   'tuple(builtins.int:251658240, builtins.int:283115520)))',
 'big|float:nan': "raise builtins.TypeError: can't multiply sequence by non-int of type 'float'",
 'big|float:inf': "list(builtins.int:9, dict{builtins.int:0: dict{builtins.str:'offset': "
                  "builtins.int:0, builtins.str:'size': builtins.int:283115520}}, "
                  'builtins.str:"Array(url=\'image\', shape=(9, 15728640), dtype=\'uint16\', '
                  'records_per_chunk=9)", tuple(builtins.int:9, builtins.int:15728640), '
                  'builtins.int:2, tuple(builtins.int:9, builtins.int:15728640), '
                  'list(tuple(builtins.int:0, builtins.int:31457280), tuple(builtins.int:31457280, '
                  'builtins.int:62914560), tuple(builtins.int:62914560, builtins.int:94371840), '
                  'tuple(builtins.int:94371840, builtins.int:125829120), '
                  'tuple(builtins.int:125829120, builtins.int:157286400), '
                  'tuple(builtins.int:157286400, builtins.int:188743680), '
                  'tuple(builtins.int:188743680, builtins.int:220200960), '
                  'tuple(builtins.int:220200960, builtins.int:251658240), '
                  'tuple(builtins.int:251658240, builtins.int:283115520)))',
 "big|bytes:b'auto'": "raise builtins.TypeError: '>' not supported between instances of 'bytes' "
                      "and 'int'",
 'big|list:[2]': "raise builtins.TypeError: '>' not supported between instances of 'list' and "
                 "'int'",
 'big|tuple:(2,)': "raise builtins.TypeError: '>' not supported between instances of 'tuple' and "
                   "'int'",
 'big|dict:{}': "raise builtins.TypeError: '>' not supported between instances of 'dict' and 'int'",
 'big|complex:(1+0j)': "raise builtins.TypeError: '>' not supported between instances of 'complex' "
                       "and 'int'",
 "single|str:'<omitted>'": 'list(builtins.int:1024, dict{builtins.int:0: '
                           "dict{builtins.str:'offset': builtins.int:3, builtins.str:'size': "
                           'builtins.int:40}}, builtins.str:"Array(url=\'image\', shape=(1, 20), '
                           'dtype=\'uint16\', records_per_chunk=1024)", tuple(builtins.int:1024, '
                           'builtins.int:20), builtins.int:2, tuple(builtins.int:1, '
                           'builtins.int:20), list(tuple(builtins.int:3, builtins.int:43)))',
 'single|NoneType:None': "list(builtins.int:1024, dict{builtins.int:0: dict{builtins.str:'offset': "
                         "builtins.int:3, builtins.str:'size': builtins.int:40}}, "
                         'builtins.str:"Array(url=\'image\', shape=(1, 20), dtype=\'uint16\', '
                         'records_per_chunk=1024)", tuple(builtins.int:1024, builtins.int:20), '
                         'builtins.int:2, tuple(builtins.int:1, builtins.int:20), '
                         'list(tuple(builtins.int:3, builtins.int:43)))',
 "single|str:'auto'": 'list(numpy.int64(np.int64(1)), dict{builtins.int:0: '
                      "dict{builtins.str:'offset': builtins.int:3, builtins.str:'size': "
                      'builtins.int:40}}, builtins.str:"Array(url=\'image\', shape=(1, 20), '
                      'dtype=\'uint16\', records_per_chunk=np.int64(1))", '
                      'tuple(numpy.int64(np.int64(1)), builtins.int:20), builtins.int:2, '
                      'tuple(builtins.int:1, builtins.int:20), list(tuple(builtins.int:3, '
                      'builtins.int:43)))',
 "single|str:'80B'": 'list(numpy.int64(np.int64(1)), dict{builtins.int:0: '
                     "dict{builtins.str:'offset': builtins.int:3, builtins.str:'size': "
                     'builtins.int:40}}, builtins.str:"Array(url=\'image\', shape=(1, 20), '
                     'dtype=\'uint16\', records_per_chunk=np.int64(1))", '
                     'tuple(numpy.int64(np.int64(1)), builtins.int:20), builtins.int:2, '
                     'tuple(builtins.int:1, builtins.int:20), list(tuple(builtins.int:3, '
                     'builtins.int:43)))',
 "single|str:'81B'": 'list(numpy.int64(np.int64(1)), dict{builtins.int:0: '
                     "dict{builtins.str:'offset': builtins.int:3, builtins.str:'size': "
                     'builtins.int:40}}, builtins.str:"Array(url=\'image\', shape=(1, 20), '
                     'dtype=\'uint16\', records_per_chunk=np.int64(1))", '
                     'tuple(numpy.int64(np.int64(1)), builtins.int:20), builtins.int:2, '
                     'tuple(builtins.int:1, builtins.int:20), list(tuple(builtins.int:3, '
                     'builtins.int:43)))',
 "single|str:'100B'": 'list(numpy.int64(np.int64(1)), dict{builtins.int:0: '
                      "dict{builtins.str:'offset': builtins.int:3, builtins.str:'size': "
                      'builtins.int:40}}, builtins.str:"Array(url=\'image\', shape=(1, 20), '
                      'dtype=\'uint16\', records_per_chunk=np.int64(1))", '
                      'tuple(numpy.int64(np.int64(1)), builtins.int:20), builtins.int:2, '
                      'tuple(builtins.int:1, builtins.int:20), list(tuple(builtins.int:3, '
                      'builtins.int:43)))',
 "single|str:'119B'": 'list(numpy.int64(np.int64(1)), dict{builtins.int:0: '
                      "dict{builtins.str:'offset': builtins.int:3, builtins.str:'size': "
                      'builtins.int:40}}, builtins.str:"Array(url=\'image\', shape=(1, 20), '
                      'dtype=\'uint16\', records_per_chunk=np.int64(1))", '
                      'tuple(numpy.int64(np.int64(1)), builtins.int:20), builtins.int:2, '
                      'tuple(builtins.int:1, builtins.int:20), list(tuple(builtins.int:3, '
                      'builtins.int:43)))',
 "single|str:'120B'": 'list(numpy.int64(np.int64(1)), dict{builtins.int:0: '
                      "dict{builtins.str:'offset': builtins.int:3, builtins.str:'size': "
                      'builtins.int:40}}, builtins.str:"Array(url=\'image\', shape=(1, 20), '
                      'dtype=\'uint16\', records_per_chunk=np.int64(1))", '
                      'tuple(numpy.int64(np.int64(1)), builtins.int:20), builtins.int:2, '
                      'tuple(builtins.int:1, builtins.int:20), list(tuple(builtins.int:3, '
                      'builtins.int:43)))',
 "single|str:'121B'": 'list(numpy.int64(np.int64(1)), dict{builtins.int:0: '
                      "dict{builtins.str:'offset': builtins.int:3, builtins.str:'size': "
                      'builtins.int:40}}, builtins.str:"Array(url=\'image\', shape=(1, 20), '
                      'dtype=\'uint16\', records_per_chunk=np.int64(1))", '
                      'tuple(numpy.int64(np.int64(1)), builtins.int:20), builtins.int:2, '
                      'tuple(builtins.int:1, builtins.int:20), list(tuple(builtins.int:3, '
                      'builtins.int:43)))',
 "single|str:'0B'": 'list(numpy.int64(np.int64(1)), dict{builtins.int:0: '
                    "dict{builtins.str:'offset': builtins.int:3, builtins.str:'size': "
                    'builtins.int:40}}, builtins.str:"Array(url=\'image\', shape=(1, 20), '
                    'dtype=\'uint16\', records_per_chunk=np.int64(1))", '
                    'tuple(numpy.int64(np.int64(1)), builtins.int:20), builtins.int:2, '
                    'tuple(builtins.int:1, builtins.int:20), list(tuple(builtins.int:3, '
                    'builtins.int:43)))',
 "single|str:'1kB'": 'list(numpy.int64(np.int64(1)), dict{builtins.int:0: '
                     "dict{builtins.str:'offset': builtins.int:3, builtins.str:'size': "
                     'builtins.int:40}}, builtins.str:"Array(url=\'image\', shape=(1, 20), '
                     'dtype=\'uint16\', records_per_chunk=np.int64(1))", '
                     'tuple(numpy.int64(np.int64(1)), builtins.int:20), builtins.int:2, '
                     'tuple(builtins.int:1, builtins.int:20), list(tuple(builtins.int:3, '
                     'builtins.int:43)))',
 "single|str:'1kiB'": 'list(numpy.int64(np.int64(1)), dict{builtins.int:0: '
                      "dict{builtins.str:'offset': builtins.int:3, builtins.str:'size': "
                      'builtins.int:40}}, builtins.str:"Array(url=\'image\', shape=(1, 20), '
                      'dtype=\'uint16\', records_per_chunk=np.int64(1))", '
                      'tuple(numpy.int64(np.int64(1)), builtins.int:20), builtins.int:2, '
                      'tuple(builtins.int:1, builtins.int:20), list(tuple(builtins.int:3, '
                      'builtins.int:43)))',
 "single|str:'1 MiB'": 'list(numpy.int64(np.int64(1)), dict{builtins.int:0: '
                       "dict{builtins.str:'offset': builtins.int:3, builtins.str:'size': "
                       'builtins.int:40}}, builtins.str:"Array(url=\'image\', shape=(1, 20), '
                       'dtype=\'uint16\', records_per_chunk=np.int64(1))", '
                       'tuple(numpy.int64(np.int64(1)), builtins.int:20), builtins.int:2, '
                       'tuple(builtins.int:1, builtins.int:20), list(tuple(builtins.int:3, '
                       'builtins.int:43)))',
 "single|str:'95MiB'": 'list(numpy.int64(np.int64(1)), dict{builtins.int:0: '
                       "dict{builtins.str:'offset': builtins.int:3, builtins.str:'size': "
                       'builtins.int:40}}, builtins.str:"Array(url=\'image\', shape=(1, 20), '
                       'dtype=\'uint16\', records_per_chunk=np.int64(1))", '
                       'tuple(numpy.int64(np.int64(1)), builtins.int:20), builtins.int:2, '
                       'tuple(builtins.int:1, builtins.int:20), list(tuple(builtins.int:3, '
                       'builtins.int:43)))',
 "single|str:'0.1 GB'": 'list(numpy.int64(np.int64(1)), dict{builtins.int:0: '
                        "dict{builtins.str:'offset': builtins.int:3, builtins.str:'size': "
                        'builtins.int:40}}, builtins.str:"Array(url=\'image\', shape=(1, 20), '
                        'dtype=\'uint16\', records_per_chunk=np.int64(1))", '
                        'tuple(numpy.int64(np.int64(1)), builtins.int:20), builtins.int:2, '
                        'tuple(builtins.int:1, builtins.int:20), list(tuple(builtins.int:3, '
                        'builtins.int:43)))',
 "single|str:'100'": 'list(numpy.int64(np.int64(1)), dict{builtins.int:0: '
                     "dict{builtins.str:'offset': builtins.int:3, builtins.str:'size': "
                     'builtins.int:40}}, builtins.str:"Array(url=\'image\', shape=(1, 20), '
                     'dtype=\'uint16\', records_per_chunk=np.int64(1))", '
                     'tuple(numpy.int64(np.int64(1)), builtins.int:20), builtins.int:2, '
                     'tuple(builtins.int:1, builtins.int:20), list(tuple(builtins.int:3, '
                     'builtins.int:43)))',
 "single|str:'1e2'": 'list(numpy.int64(np.int64(1)), dict{builtins.int:0: '
                     "dict{builtins.str:'offset': builtins.int:3, builtins.str:'size': "
                     'builtins.int:40}}, builtins.str:"Array(url=\'image\', shape=(1, 20), '
                     'dtype=\'uint16\', records_per_chunk=np.int64(1))", '
                     'tuple(numpy.int64(np.int64(1)), builtins.int:20), builtins.int:2, '
                     'tuple(builtins.int:1, builtins.int:20), list(tuple(builtins.int:3, '
                     'builtins.int:43)))',
 "single|str:'kB'": 'list(numpy.int64(np.int64(1)), dict{builtins.int:0: '
                    "dict{builtins.str:'offset': builtins.int:3, builtins.str:'size': "
                    'builtins.int:40}}, builtins.str:"Array(url=\'image\', shape=(1, 20), '
                    'dtype=\'uint16\', records_per_chunk=np.int64(1))", '
                    'tuple(numpy.int64(np.int64(1)), builtins.int:20), builtins.int:2, '
                    'tuple(builtins.int:1, builtins.int:20), list(tuple(builtins.int:3, '
                    'builtins.int:43)))',
 "single|str:''": "list(numpy.int64(np.int64(1)), dict{builtins.int:0: dict{builtins.str:'offset': "
                  "builtins.int:3, builtins.str:'size': builtins.int:40}}, "
                  'builtins.str:"Array(url=\'image\', shape=(1, 20), dtype=\'uint16\', '
                  'records_per_chunk=np.int64(1))", tuple(numpy.int64(np.int64(1)), '
                  'builtins.int:20), builtins.int:2, tuple(builtins.int:1, builtins.int:20), '
                  'list(tuple(builtins.int:3, builtins.int:43)))',
 "single|str:'5 foos'": "raise builtins.ValueError: Could not interpret 'foos' as a byte unit",
 "single|str:'abc'": "raise builtins.ValueError: Could not interpret 'abc' as a byte unit",
 "single|str:'AUTO'": "raise builtins.ValueError: Could not interpret 'AUTO' as a byte unit",
 "single|str:' auto'": "raise builtins.ValueError: Could not interpret 'auto' as a byte unit",
 "single|Text:'auto'": 'list(numpy.int64(np.int64(1)), dict{builtins.int:0: '
                       "dict{builtins.str:'offset': builtins.int:3, builtins.str:'size': "
                       'builtins.int:40}}, builtins.str:"Array(url=\'image\', shape=(1, 20), '
                       'dtype=\'uint16\', records_per_chunk=np.int64(1))", '
                       'tuple(numpy.int64(np.int64(1)), builtins.int:20), builtins.int:2, '
                       'tuple(builtins.int:1, builtins.int:20), list(tuple(builtins.int:3, '
                       'builtins.int:43)))',
 "single|Text:'160B'": 'list(numpy.int64(np.int64(1)), dict{builtins.int:0: '
                       "dict{builtins.str:'offset': builtins.int:3, builtins.str:'size': "
                       'builtins.int:40}}, builtins.str:"Array(url=\'image\', shape=(1, 20), '
                       'dtype=\'uint16\', records_per_chunk=np.int64(1))", '
                       'tuple(numpy.int64(np.int64(1)), builtins.int:20), builtins.int:2, '
                       'tuple(builtins.int:1, builtins.int:20), list(tuple(builtins.int:3, '
                       'builtins.int:43)))',
 'single|int:-1': "list(builtins.int:1, dict{builtins.int:0: dict{builtins.str:'offset': "
                  "builtins.int:3, builtins.str:'size': builtins.int:40}}, "
                  'builtins.str:"Array(url=\'image\', shape=(1, 20), dtype=\'uint16\', '
                  'records_per_chunk=1)", tuple(builtins.int:1, builtins.int:20), builtins.int:2, '
                  'tuple(builtins.int:1, builtins.int:20), list(tuple(builtins.int:3, '
                  'builtins.int:43)))',
 'single|int:0': 'list(builtins.int:0, dict{}, builtins.str:"Array(url=\'image\', shape=(1, 20), '
                 'dtype=\'uint16\', records_per_chunk=0)", tuple(builtins.int:0, builtins.int:20), '
                 'builtins.int:2, tuple(builtins.int:1, builtins.int:20), '
                 'list(tuple(builtins.int:3, builtins.int:43)))',
 'single|int:1': "list(builtins.int:1, dict{builtins.int:0: dict{builtins.str:'offset': "
                 "builtins.int:3, builtins.str:'size': builtins.int:40}}, "
                 'builtins.str:"Array(url=\'image\', shape=(1, 20), dtype=\'uint16\', '
                 'records_per_chunk=1)", tuple(builtins.int:1, builtins.int:20), builtins.int:2, '
                 'tuple(builtins.int:1, builtins.int:20), list(tuple(builtins.int:3, '
                 'builtins.int:43)))',
 'single|int:2': "list(builtins.int:1, dict{builtins.int:0: dict{builtins.str:'offset': "
                 "builtins.int:3, builtins.str:'size': builtins.int:40}}, "
                 'builtins.str:"Array(url=\'image\', shape=(1, 20), dtype=\'uint16\', '
                 'records_per_chunk=1)", tuple(builtins.int:1, builtins.int:20), builtins.int:2, '
                 'tuple(builtins.int:1, builtins.int:20), list(tuple(builtins.int:3, '
                 'builtins.int:43)))',
 'single|int:3': "list(builtins.int:1, dict{builtins.int:0: dict{builtins.str:'offset': "
                 "builtins.int:3, builtins.str:'size': builtins.int:40}}, "
                 'builtins.str:"Array(url=\'image\', shape=(1, 20), dtype=\'uint16\', '
                 'records_per_chunk=1)", tuple(builtins.int:1, builtins.int:20), builtins.int:2, '
                 'tuple(builtins.int:1, builtins.int:20), list(tuple(builtins.int:3, '
                 'builtins.int:43)))',
 'single|int:4': "list(builtins.int:1, dict{builtins.int:0: dict{builtins.str:'offset': "
                 "builtins.int:3, builtins.str:'size': builtins.int:40}}, "
                 'builtins.str:"Array(url=\'image\', shape=(1, 20), dtype=\'uint16\', '
                 'records_per_chunk=1)", tuple(builtins.int:1, builtins.int:20), builtins.int:2, '
                 'tuple(builtins.int:1, builtins.int:20), list(tuple(builtins.int:3, '
                 'builtins.int:43)))',
 'single|int:5': "list(builtins.int:1, dict{builtins.int:0: dict{builtins.str:'offset': "
                 "builtins.int:3, builtins.str:'size': builtins.int:40}}, "
                 'builtins.str:"Array(url=\'image\', shape=(1, 20), dtype=\'uint16\', '
                 'records_per_chunk=1)", tuple(builtins.int:1, builtins.int:20), builtins.int:2, '
                 'tuple(builtins.int:1, builtins.int:20), list(tuple(builtins.int:3, '
                 'builtins.int:43)))',
 'single|int:6': "list(builtins.int:1, dict{builtins.int:0: dict{builtins.str:'offset': "
                 "builtins.int:3, builtins.str:'size': builtins.int:40}}, "
                 'builtins.str:"Array(url=\'image\', shape=(1, 20), dtype=\'uint16\', '
                 'records_per_chunk=1)", tuple(builtins.int:1, builtins.int:20), builtins.int:2, '
                 'tuple(builtins.int:1, builtins.int:20), list(tuple(builtins.int:3, '
                 'builtins.int:43)))',
 'single|int:7': "list(builtins.int:1, dict{builtins.int:0: dict{builtins.str:'offset': "
                 "builtins.int:3, builtins.str:'size': builtins.int:40}}, "
                 'builtins.str:"Array(url=\'image\', shape=(1, 20), dtype=\'uint16\', '
                 'records_per_chunk=1)", tuple(builtins.int:1, builtins.int:20), builtins.int:2, '
                 'tuple(builtins.int:1, builtins.int:20), list(tuple(builtins.int:3, '
                 'builtins.int:43)))',
 'single|int:8': "list(builtins.int:1, dict{builtins.int:0: dict{builtins.str:'offset': "
                 "builtins.int:3, builtins.str:'size': builtins.int:40}}, "
                 'builtins.str:"Array(url=\'image\', shape=(1, 20), dtype=\'uint16\', '
                 'records_per_chunk=1)", tuple(builtins.int:1, builtins.int:20), builtins.int:2, '
                 'tuple(builtins.int:1, builtins.int:20), list(tuple(builtins.int:3, '
                 'builtins.int:43)))',
 'single|int:1024': "list(builtins.int:1, dict{builtins.int:0: dict{builtins.str:'offset': "
                    "builtins.int:3, builtins.str:'size': builtins.int:40}}, "
                    'builtins.str:"Array(url=\'image\', shape=(1, 20), dtype=\'uint16\', '
                    'records_per_chunk=1)", tuple(builtins.int:1, builtins.int:20), '
                    'builtins.int:2, tuple(builtins.int:1, builtins.int:20), '
                    'list(tuple(builtins.int:3, builtins.int:43)))',
 'single|int:-2': 'list(builtins.int:-2, dict{}, builtins.str:"Array(url=\'image\', shape=(1, 20), '
                  'dtype=\'uint16\', records_per_chunk=-2)", tuple(builtins.int:-2, '
                  'builtins.int:20), builtins.int:2, tuple(builtins.int:1, builtins.int:20), '
                  'list(tuple(builtins.int:3, builtins.int:43)))',
 'single|bool:True': "list(builtins.bool:True, dict{builtins.int:0: dict{builtins.str:'offset': "
                     "builtins.int:3, builtins.str:'size': builtins.int:40}}, "
                     'builtins.str:"Array(url=\'image\', shape=(1, 20), dtype=\'uint16\', '
                     'records_per_chunk=True)", tuple(builtins.bool:True, builtins.int:20), '
                     'builtins.int:2, tuple(builtins.int:1, builtins.int:20), '
                     'list(tuple(builtins.int:3, builtins.int:43)))',
 'single|bool:False': 'list(builtins.bool:False, dict{}, builtins.str:"Array(url=\'image\', '
                      'shape=(1, 20), dtype=\'uint16\', records_per_chunk=False)", '
                      'tuple(builtins.bool:False, builtins.int:20), builtins.int:2, '
                      'tuple(builtins.int:1, builtins.int:20), list(tuple(builtins.int:3, '
                      'builtins.int:43)))',
 'single|int64:np.int64(3)': 'list(builtins.int:1, dict{builtins.int:0: '
                             "dict{builtins.str:'offset': builtins.int:3, builtins.str:'size': "
                             'builtins.int:40}}, builtins.str:"Array(url=\'image\', shape=(1, 20), '
                             'dtype=\'uint16\', records_per_chunk=1)", tuple(builtins.int:1, '
                             'builtins.int:20), builtins.int:2, tuple(builtins.int:1, '
                             'builtins.int:20), list(tuple(builtins.int:3, builtins.int:43)))',
 'single|int64:np.int64(-1)': 'list(builtins.int:1, dict{builtins.int:0: '
                              "dict{builtins.str:'offset': builtins.int:3, builtins.str:'size': "
                              'builtins.int:40}}, builtins.str:"Array(url=\'image\', shape=(1, '
                              '20), dtype=\'uint16\', records_per_chunk=1)", tuple(builtins.int:1, '
                              'builtins.int:20), builtins.int:2, tuple(builtins.int:1, '
                              'builtins.int:20), list(tuple(builtins.int:3, builtins.int:43)))',
 'single|int64:np.int64(1000000)': 'list(builtins.int:1, dict{builtins.int:0: '
                                   "dict{builtins.str:'offset': builtins.int:3, "
                                   "builtins.str:'size': builtins.int:40}}, "
                                   'builtins.str:"Array(url=\'image\', shape=(1, 20), '
                                   'dtype=\'uint16\', records_per_chunk=1)", tuple(builtins.int:1, '
                                   'builtins.int:20), builtins.int:2, tuple(builtins.int:1, '
                                   'builtins.int:20), list(tuple(builtins.int:3, '
                                   'builtins.int:43)))',
 'single|float:2.0': "list(builtins.int:1, dict{builtins.int:0: dict{builtins.str:'offset': "
                     "builtins.int:3, builtins.str:'size': builtins.int:40}}, "
                     'builtins.str:"Array(url=\'image\', shape=(1, 20), dtype=\'uint16\', '
                     'records_per_chunk=1)", tuple(builtins.int:1, builtins.int:20), '
                     'builtins.int:2, tuple(builtins.int:1, builtins.int:20), '
                     'list(tuple(builtins.int:3, builtins.int:43)))',
 'single|float:2.5': "list(builtins.int:1, dict{builtins.int:0: dict{builtins.str:'offset': "
                     "builtins.int:3, builtins.str:'size': builtins.int:40}}, "
                     'builtins.str:"Array(url=\'image\', shape=(1, 20), dtype=\'uint16\', '
                     'records_per_chunk=1)", tuple(builtins.int:1, builtins.int:20), '
                     'builtins.int:2, tuple(builtins.int:1, builtins.int:20), '
                     'list(tuple(builtins.int:3, builtins.int:43)))',
 'single|float:-1.0': "list(builtins.int:1, dict{builtins.int:0: dict{builtins.str:'offset': "
                      "builtins.int:3, builtins.str:'size': builtins.int:40}}, "
                      'builtins.str:"Array(url=\'image\', shape=(1, 20), dtype=\'uint16\', '
                      'records_per_chunk=1)", tuple(builtins.int:1, builtins.int:20), '
                      'builtins.int:2, tuple(builtins.int:1, builtins.int:20), '
                      'list(tuple(builtins.int:3, builtins.int:43)))',
 'single|float:nan': "raise builtins.TypeError: can't multiply sequence by non-int of type 'float'",
 'single|float:inf': "list(builtins.int:1, dict{builtins.int:0: dict{builtins.str:'offset': "
                     "builtins.int:3, builtins.str:'size': builtins.int:40}}, "
                     'builtins.str:"Array(url=\'image\', shape=(1, 20), dtype=\'uint16\', '
                     'records_per_chunk=1)", tuple(builtins.int:1, builtins.int:20), '
                     'builtins.int:2, tuple(builtins.int:1, builtins.int:20), '
                     'list(tuple(builtins.int:3, builtins.int:43)))',
 "single|bytes:b'auto'": "raise builtins.TypeError: '>' not supported between instances of 'bytes' "
                         "and 'int'",
 'single|list:[2]': "raise builtins.TypeError: '>' not supported between instances of 'list' and "
                    "'int'",
 'single|tuple:(2,)': "raise builtins.TypeError: '>' not supported between instances of 'tuple' "
                      "and 'int'",
 'single|dict:{}': "raise builtins.TypeError: '>' not supported between instances of 'dict' and "
                   "'int'",
 'single|complex:(1+0j)': "raise builtins.TypeError: '>' not supported between instances of "
                          "'complex' and 'int'",
 "empty|str:'<omitted>'": 'list(builtins.int:1024, dict{}, builtins.str:"Array(url=\'image\', '
                          'shape=(0, 20), dtype=\'uint16\', records_per_chunk=1024)", '
                          'tuple(builtins.int:1024, builtins.int:20), builtins.int:2, '
                          'tuple(builtins.int:0, builtins.int:20), list())',
 'empty|NoneType:None': 'list(builtins.int:1024, dict{}, builtins.str:"Array(url=\'image\', '
                        'shape=(0, 20), dtype=\'uint16\', records_per_chunk=1024)", '
                        'tuple(builtins.int:1024, builtins.int:20), builtins.int:2, '
                        'tuple(builtins.int:0, builtins.int:20), list())',
 "empty|str:'auto'": 'raise builtins.ValueError: attempt to get argmin of an empty sequence',
 "empty|str:'80B'": 'raise builtins.ValueError: attempt to get argmin of an empty sequence',
 "empty|str:'81B'": 'raise builtins.ValueError: attempt to get argmin of an empty sequence',
 "empty|str:'100B'": 'raise builtins.ValueError: attempt to get argmin of an empty sequence',
 "empty|str:'119B'": 'raise builtins.ValueError: attempt to get argmin of an empty sequence',
 "empty|str:'120B'": 'raise builtins.ValueError: attempt to get argmin of an empty sequence',
 "empty|str:'121B'": 'raise builtins.ValueError: attempt to get argmin of an empty sequence',
 "empty|str:'0B'": 'raise builtins.ValueError: attempt to get argmin of an empty sequence',
 "empty|str:'1kB'": 'raise builtins.ValueError: attempt to get argmin of an empty sequence',
 "empty|str:'1kiB'": 'raise builtins.ValueError: attempt to get argmin of an empty sequence',
 "empty|str:'1 MiB'": 'raise builtins.ValueError: attempt to get argmin of an empty sequence',
 "empty|str:'95MiB'": 'raise builtins.ValueError: attempt to get argmin of an empty sequence',
 "empty|str:'0.1 GB'": 'raise builtins.ValueError: attempt to get argmin of an empty sequence',
 "empty|str:'100'": 'raise builtins.ValueError: attempt to get argmin of an empty sequence',
 "empty|str:'1e2'": 'raise builtins.ValueError: attempt to get argmin of an empty sequence',
 "empty|str:'kB'": 'raise builtins.ValueError: attempt to get argmin of an empty sequence',
 "empty|str:''": 'raise builtins.ValueError: attempt to get argmin of an empty sequence',
 "empty|str:'5 foos'": "raise builtins.ValueError: Could not interpret 'foos' as a byte unit",
 "empty|str:'abc'": "raise builtins.ValueError: Could not interpret 'abc' as a byte unit",
 "empty|str:'AUTO'": "raise builtins.ValueError: Could not interpret 'AUTO' as a byte unit",
 "empty|str:' auto'": "raise builtins.ValueError: Could not interpret 'auto' as a byte unit",
 "empty|Text:'auto'": 'raise builtins.ValueError: attempt to get argmin of an empty sequence',
 "empty|Text:'160B'": 'raise builtins.ValueError: attempt to get argmin of an empty sequence',
 'empty|int:-1': 'list(builtins.int:0, dict{}, builtins.str:"Array(url=\'image\', shape=(0, 20), '
                 'dtype=\'uint16\', records_per_chunk=0)", tuple(builtins.int:0, builtins.int:20), '
                 'builtins.int:2, tuple(builtins.int:0, builtins.int:20), list())',
 'empty|int:0': 'list(builtins.int:0, dict{}, builtins.str:"Array(url=\'image\', shape=(0, 20), '
                'dtype=\'uint16\', records_per_chunk=0)", tuple(builtins.int:0, builtins.int:20), '
                'builtins.int:2, tuple(builtins.int:0, builtins.int:20), list())',
 'empty|int:1': 'list(builtins.int:0, dict{}, builtins.str:"Array(url=\'image\', shape=(0, 20), '
                'dtype=\'uint16\', records_per_chunk=0)", tuple(builtins.int:0, builtins.int:20), '
                'builtins.int:2, tuple(builtins.int:0, builtins.int:20), list())',
 'empty|int:2': 'list(builtins.int:0, dict{}, builtins.str:"Array(url=\'image\', shape=(0, 20), '
                'dtype=\'uint16\', records_per_chunk=0)", tuple(builtins.int:0, builtins.int:20), '
                'builtins.int:2, tuple(builtins.int:0, builtins.int:20), list())',
 'empty|int:3': 'list(builtins.int:0, dict{}, builtins.str:"Array(url=\'image\', shape=(0, 20), '
                'dtype=\'uint16\', records_per_chunk=0)", tuple(builtins.int:0, builtins.int:20), '
                'builtins.int:2, tuple(builtins.int:0, builtins.int:20), list())',
 'empty|int:4': 'list(builtins.int:0, dict{}, builtins.str:"Array(url=\'image\', shape=(0, 20), '
                'dtype=\'uint16\', records_per_chunk=0)", tuple(builtins.int:0, builtins.int:20), '
                'builtins.int:2, tuple(builtins.int:0, builtins.int:20), list())',
 'empty|int:5': 'list(builtins.int:0, dict{}, builtins.str:"Array(url=\'image\', shape=(0, 20), '
                'dtype=\'uint16\', records_per_chunk=0)", tuple(builtins.int:0, builtins.int:20), '
                'builtins.int:2, tuple(builtins.int:0, builtins.int:20), list())',
 'empty|int:6': 'list(builtins.int:0, dict{}, builtins.str:"Array(url=\'image\', shape=(0, 20), '
                'dtype=\'uint16\', records_per_chunk=0)", tuple(builtins.int:0, builtins.int:20), '
                'builtins.int:2, tuple(builtins.int:0, builtins.int:20), list())',
 'empty|int:7': 'list(builtins.int:0, dict{}, builtins.str:"Array(url=\'image\', shape=(0, 20), '
                'dtype=\'uint16\', records_per_chunk=0)", tuple(builtins.int:0, builtins.int:20), '
                'builtins.int:2, tuple(builtins.int:0, builtins.int:20), list())',
 'empty|int:8': 'list(builtins.int:0, dict{}, builtins.str:"Array(url=\'image\', shape=(0, 20), '
                'dtype=\'uint16\', records_per_chunk=0)", tuple(builtins.int:0, builtins.int:20), '
                'builtins.int:2, tuple(builtins.int:0, builtins.int:20), list())',
 'empty|int:1024': 'list(builtins.int:0, dict{}, builtins.str:"Array(url=\'image\', shape=(0, 20), '
                   'dtype=\'uint16\', records_per_chunk=0)", tuple(builtins.int:0, '
                   'builtins.int:20), builtins.int:2, tuple(builtins.int:0, builtins.int:20), '
                   'list())',
 'empty|int:-2': 'list(builtins.int:-2, dict{}, builtins.str:"Array(url=\'image\', shape=(0, 20), '
                 'dtype=\'uint16\', records_per_chunk=-2)", tuple(builtins.int:-2, '
                 'builtins.int:20), builtins.int:2, tuple(builtins.int:0, builtins.int:20), '
                 'list())',
 'empty|bool:True': 'list(builtins.int:0, dict{}, builtins.str:"Array(url=\'image\', shape=(0, '
                    '20), dtype=\'uint16\', records_per_chunk=0)", tuple(builtins.int:0, '
                    'builtins.int:20), builtins.int:2, tuple(builtins.int:0, builtins.int:20), '
                    'list())',
 'empty|bool:False': 'list(builtins.bool:False, dict{}, builtins.str:"Array(url=\'image\', '
                     'shape=(0, 20), dtype=\'uint16\', records_per_chunk=False)", '
                     'tuple(builtins.bool:False, builtins.int:20), builtins.int:2, '
                     'tuple(builtins.int:0, builtins.int:20), list())',
 'empty|int64:np.int64(3)': 'list(builtins.int:0, dict{}, builtins.str:"Array(url=\'image\', '
                            'shape=(0, 20), dtype=\'uint16\', records_per_chunk=0)", '
                            'tuple(builtins.int:0, builtins.int:20), builtins.int:2, '
                            'tuple(builtins.int:0, builtins.int:20), list())',
 'empty|int64:np.int64(-1)': 'list(builtins.int:0, dict{}, builtins.str:"Array(url=\'image\', '
                             'shape=(0, 20), dtype=\'uint16\', records_per_chunk=0)", '
                             'tuple(builtins.int:0, builtins.int:20), builtins.int:2, '
                             'tuple(builtins.int:0, builtins.int:20), list())',
 'empty|int64:np.int64(1000000)': 'list(builtins.int:0, dict{}, builtins.str:"Array(url=\'image\', '
                                  'shape=(0, 20), dtype=\'uint16\', records_per_chunk=0)", '
                                  'tuple(builtins.int:0, builtins.int:20), builtins.int:2, '
                                  'tuple(builtins.int:0, builtins.int:20), list())',
 'empty|float:2.0': 'list(builtins.int:0, dict{}, builtins.str:"Array(url=\'image\', shape=(0, '
                    '20), dtype=\'uint16\', records_per_chunk=0)", tuple(builtins.int:0, '
                    'builtins.int:20), builtins.int:2, tuple(builtins.int:0, builtins.int:20), '
                    'list())',
 'empty|float:2.5': 'list(builtins.int:0, dict{}, builtins.str:"Array(url=\'image\', shape=(0, '
                    '20), dtype=\'uint16\', records_per_chunk=0)", tuple(builtins.int:0, '
                    'builtins.int:20), builtins.int:2, tuple(builtins.int:0, builtins.int:20), '
                    'list())',
 'empty|float:-1.0': 'list(builtins.int:0, dict{}, builtins.str:"Array(url=\'image\', shape=(0, '
                     '20), dtype=\'uint16\', records_per_chunk=0)", tuple(builtins.int:0, '
                     'builtins.int:20), builtins.int:2, tuple(builtins.int:0, builtins.int:20), '
                     'list())',
 'empty|float:nan': "raise builtins.TypeError: can't multiply sequence by non-int of type 'float'",
 'empty|float:inf': 'list(builtins.int:0, dict{}, builtins.str:"Array(url=\'image\', shape=(0, '
                    '20), dtype=\'uint16\', records_per_chunk=0)", tuple(builtins.int:0, '
                    'builtins.int:20), builtins.int:2, tuple(builtins.int:0, builtins.int:20), '
                    'list())',
 "empty|bytes:b'auto'": "raise builtins.TypeError: '>' not supported between instances of 'bytes' "
                        "and 'int'",
 'empty|list:[2]': "raise builtins.TypeError: '>' not supported between instances of 'list' and "
                   "'int'",
 'empty|tuple:(2,)': "raise builtins.TypeError: '>' not supported between instances of 'tuple' and "
                     "'int'",
 'empty|dict:{}': "raise builtins.TypeError: '>' not supported between instances of 'dict' and "
                  "'int'",
 'empty|complex:(1+0j)': "raise builtins.TypeError: '>' not supported between instances of "
                         "'complex' and 'int'",
 "tuple|str:'<omitted>'": 'list(builtins.int:1024, dict{builtins.int:0: '
                          "dict{builtins.str:'offset': builtins.int:10, builtins.str:'size': "
                          'builtins.int:280}}, builtins.str:"Array(url=\'image\', shape=(7, 20), '
                          'dtype=\'uint16\', records_per_chunk=1024)", tuple(builtins.int:1024, '
                          'builtins.int:20), builtins.int:2, tuple(builtins.int:7, '
                          'builtins.int:20), tuple(tuple(builtins.int:10, builtins.int:50), '
                          'tuple(builtins.int:50, builtins.int:90), tuple(builtins.int:90, '
                          'builtins.int:130), tuple(builtins.int:130, builtins.int:170), '
                          'tuple(builtins.int:170, builtins.int:210), tuple(builtins.int:210, '
                          'builtins.int:250), tuple(builtins.int:250, builtins.int:290)))',
 'tuple|NoneType:None': "list(builtins.int:1024, dict{builtins.int:0: dict{builtins.str:'offset': "
                        "builtins.int:10, builtins.str:'size': builtins.int:280}}, "
                        'builtins.str:"Array(url=\'image\', shape=(7, 20), dtype=\'uint16\', '
                        'records_per_chunk=1024)", tuple(builtins.int:1024, builtins.int:20), '
                        'builtins.int:2, tuple(builtins.int:7, builtins.int:20), '
                        'tuple(tuple(builtins.int:10, builtins.int:50), tuple(builtins.int:50, '
                        'builtins.int:90), tuple(builtins.int:90, builtins.int:130), '
                        'tuple(builtins.int:130, builtins.int:170), tuple(builtins.int:170, '
                        'builtins.int:210), tuple(builtins.int:210, builtins.int:250), '
                        'tuple(builtins.int:250, builtins.int:290)))',
 "tuple|str:'auto'": 'list(numpy.int64(np.int64(7)), dict{builtins.int:0: '
                     "dict{builtins.str:'offset': builtins.int:10, builtins.str:'size': "
                     'builtins.int:280}}, builtins.str:"Array(url=\'image\', shape=(7, 20), '
                     'dtype=\'uint16\', records_per_chunk=np.int64(7))", '
                     'tuple(numpy.int64(np.int64(7)), builtins.int:20), builtins.int:2, '
                     'tuple(builtins.int:7, builtins.int:20), tuple(tuple(builtins.int:10, '
                     'builtins.int:50), tuple(builtins.int:50, builtins.int:90), '
                     'tuple(builtins.int:90, builtins.int:130), tuple(builtins.int:130, '
                     'builtins.int:170), tuple(builtins.int:170, builtins.int:210), '
                     'tuple(builtins.int:210, builtins.int:250), tuple(builtins.int:250, '
                     'builtins.int:290)))',
 "tuple|str:'80B'": 'list(numpy.int64(np.int64(2)), dict{builtins.int:0: '
                    "dict{builtins.str:'offset': builtins.int:10, builtins.str:'size': "
                    "builtins.int:80}, builtins.int:1: dict{builtins.str:'offset': "
                    "builtins.int:90, builtins.str:'size': builtins.int:80}, builtins.int:2: "
                    "dict{builtins.str:'offset': builtins.int:170, builtins.str:'size': "
                    "builtins.int:80}, builtins.int:3: dict{builtins.str:'offset': "
                    "builtins.int:250, builtins.str:'size': builtins.int:40}}, "
                    'builtins.str:"Array(url=\'image\', shape=(7, 20), dtype=\'uint16\', '
                    'records_per_chunk=np.int64(2))", tuple(numpy.int64(np.int64(2)), '
                    'builtins.int:20), builtins.int:2, tuple(builtins.int:7, builtins.int:20), '
                    'tuple(tuple(builtins.int:10, builtins.int:50), tuple(builtins.int:50, '
                    'builtins.int:90), tuple(builtins.int:90, builtins.int:130), '
                    'tuple(builtins.int:130, builtins.int:170), tuple(builtins.int:170, '
                    'builtins.int:210), tuple(builtins.int:210, builtins.int:250), '
                    'tuple(builtins.int:250, builtins.int:290)))',
 "tuple|str:'81B'": 'list(numpy.int64(np.int64(2)), dict{builtins.int:0: '
                    "dict{builtins.str:'offset': builtins.int:10, builtins.str:'size': "
                    "builtins.int:80}, builtins.int:1: dict{builtins.str:'offset': "
                    "builtins.int:90, builtins.str:'size': builtins.int:80}, builtins.int:2: "
                    "dict{builtins.str:'offset': builtins.int:170, builtins.str:'size': "
                    "builtins.int:80}, builtins.int:3: dict{builtins.str:'offset': "
                    "builtins.int:250, builtins.str:'size': builtins.int:40}}, "
                    'builtins.str:"Array(url=\'image\', shape=(7, 20), dtype=\'uint16\', '
                    'records_per_chunk=np.int64(2))", tuple(numpy.int64(np.int64(2)), '
                    'builtins.int:20), builtins.int:2, tuple(builtins.int:7, builtins.int:20), '
                    'tuple(tuple(builtins.int:10, builtins.int:50), tuple(builtins.int:50, '
                    'builtins.int:90), tuple(builtins.int:90, builtins.int:130), '
                    'tuple(builtins.int:130, builtins.int:170), tuple(builtins.int:170, '
                    'builtins.int:210), tuple(builtins.int:210, builtins.int:250), '
                    'tuple(builtins.int:250, builtins.int:290)))',
 "tuple|str:'100B'": 'list(numpy.int64(np.int64(2)), dict{builtins.int:0: '
                     "dict{builtins.str:'offset': builtins.int:10, builtins.str:'size': "
                     "builtins.int:80}, builtins.int:1: dict{builtins.str:'offset': "
                     "builtins.int:90, builtins.str:'size': builtins.int:80}, builtins.int:2: "
                     "dict{builtins.str:'offset': builtins.int:170, builtins.str:'size': "
                     "builtins.int:80}, builtins.int:3: dict{builtins.str:'offset': "
                     "builtins.int:250, builtins.str:'size': builtins.int:40}}, "
                     'builtins.str:"Array(url=\'image\', shape=(7, 20), dtype=\'uint16\', '
                     'records_per_chunk=np.int64(2))", tuple(numpy.int64(np.int64(2)), '
                     'builtins.int:20), builtins.int:2, tuple(builtins.int:7, builtins.int:20), '
                     'tuple(tuple(builtins.int:10, builtins.int:50), tuple(builtins.int:50, '
                     'builtins.int:90), tuple(builtins.int:90, builtins.int:130), '
                     'tuple(builtins.int:130, builtins.int:170), tuple(builtins.int:170, '
                     'builtins.int:210), tuple(builtins.int:210, builtins.int:250), '
                     'tuple(builtins.int:250, builtins.int:290)))',
 "tuple|str:'119B'": 'list(numpy.int64(np.int64(3)), dict{builtins.int:0: '
                     "dict{builtins.str:'offset': builtins.int:10, builtins.str:'size': "
                     "builtins.int:120}, builtins.int:1: dict{builtins.str:'offset': "
                     "builtins.int:130, builtins.str:'size': builtins.int:120}, builtins.int:2: "
                     "dict{builtins.str:'offset': builtins.int:250, builtins.str:'size': "
                     'builtins.int:40}}, builtins.str:"Array(url=\'image\', shape=(7, 20), '
                     'dtype=\'uint16\', records_per_chunk=np.int64(3))", '
                     'tuple(numpy.int64(np.int64(3)), builtins.int:20), builtins.int:2, '
                     'tuple(builtins.int:7, builtins.int:20), tuple(tuple(builtins.int:10, '
                     'builtins.int:50), tuple(builtins.int:50, builtins.int:90), '
                     'tuple(builtins.int:90, builtins.int:130), tuple(builtins.int:130, '
                     'builtins.int:170), tuple(builtins.int:170, builtins.int:210), '
                     'tuple(builtins.int:210, builtins.int:250), tuple(builtins.int:250, '
                     'builtins.int:290)))',
 "tuple|str:'120B'": 'list(numpy.int64(np.int64(3)), dict{builtins.int:0: '
                     "dict{builtins.str:'offset': builtins.int:10, builtins.str:'size': "
                     "builtins.int:120}, builtins.int:1: dict{builtins.str:'offset': "
                     "builtins.int:130, builtins.str:'size': builtins.int:120}, builtins.int:2: "
                     "dict{builtins.str:'offset': builtins.int:250, builtins.str:'size': "
                     'builtins.int:40}}, builtins.str:"Array(url=\'image\', shape=(7, 20), '
                     'dtype=\'uint16\', records_per_chunk=np.int64(3))", '
                     'tuple(numpy.int64(np.int64(3)), builtins.int:20), builtins.int:2, '
                     'tuple(builtins.int:7, builtins.int:20), tuple(tuple(builtins.int:10, '
                     'builtins.int:50), tuple(builtins.int:50, builtins.int:90), '
                     'tuple(builtins.int:90, builtins.int:130), tuple(builtins.int:130, '
                     'builtins.int:170), tuple(builtins.int:170, builtins.int:210), '
                     'tuple(builtins.int:210, builtins.int:250), tuple(builtins.int:250, '
                     'builtins.int:290)))',
 "tuple|str:'121B'": 'list(numpy.int64(np.int64(3)), dict{builtins.int:0: '
                     "dict{builtins.str:'offset': builtins.int:10, builtins.str:'size': "
                     "builtins.int:120}, builtins.int:1: dict{builtins.str:'offset': "
                     "builtins.int:130, builtins.str:'size': builtins.int:120}, builtins.int:2: "
                     "dict{builtins.str:'offset': builtins.int:250, builtins.str:'size': "
                     'builtins.int:40}}, builtins.str:"Array(url=\'image\', shape=(7, 20), '
                     'dtype=\'uint16\', records_per_chunk=np.int64(3))", '
                     'tuple(numpy.int64(np.int64(3)), builtins.int:20), builtins.int:2, '
                     'tuple(builtins.int:7, builtins.int:20), tuple(tuple(builtins.int:10, '
                     'builtins.int:50), tuple(builtins.int:50, builtins.int:90), '
                     'tuple(builtins.int:90, builtins.int:130), tuple(builtins.int:130, '
                     'builtins.int:170), tuple(builtins.int:170, builtins.int:210), '
                     'tuple(builtins.int:210, builtins.int:250), tuple(builtins.int:250, '
                     'builtins.int:290)))',
 "tuple|str:'0B'": 'list(numpy.int64(np.int64(1)), dict{builtins.int:0: '
                   "dict{builtins.str:'offset': builtins.int:10, builtins.str:'size': "
                   "builtins.int:40}, builtins.int:1: dict{builtins.str:'offset': builtins.int:50, "
                   "builtins.str:'size': builtins.int:40}, builtins.int:2: "
                   "dict{builtins.str:'offset': builtins.int:90, builtins.str:'size': "
                   "builtins.int:40}, builtins.int:3: dict{builtins.str:'offset': "
                   "builtins.int:130, builtins.str:'size': builtins.int:40}, builtins.int:4: "
                   "dict{builtins.str:'offset': builtins.int:170, builtins.str:'size': "
                   "builtins.int:40}, builtins.int:5: dict{builtins.str:'offset': "
                   "builtins.int:210, builtins.str:'size': builtins.int:40}, builtins.int:6: "
                   "dict{builtins.str:'offset': builtins.int:250, builtins.str:'size': "
                   'builtins.int:40}}, builtins.str:"Array(url=\'image\', shape=(7, 20), '
                   'dtype=\'uint16\', records_per_chunk=np.int64(1))", '
                   'tuple(numpy.int64(np.int64(1)), builtins.int:20), builtins.int:2, '
                   'tuple(builtins.int:7, builtins.int:20), tuple(tuple(builtins.int:10, '
                   'builtins.int:50), tuple(builtins.int:50, builtins.int:90), '
                   'tuple(builtins.int:90, builtins.int:130), tuple(builtins.int:130, '
                   'builtins.int:170), tuple(builtins.int:170, builtins.int:210), '
                   'tuple(builtins.int:210, builtins.int:250), tuple(builtins.int:250, '
                   'builtins.int:290)))',
 "tuple|str:'1kB'": 'list(numpy.int64(np.int64(7)), dict{builtins.int:0: '
                    "dict{builtins.str:'offset': builtins.int:10, builtins.str:'size': "
                    'builtins.int:280}}, builtins.str:"Array(url=\'image\', shape=(7, 20), '
                    'dtype=\'uint16\', records_per_chunk=np.int64(7))", '
                    'tuple(numpy.int64(np.int64(7)), builtins.int:20), builtins.int:2, '
                    'tuple(builtins.int:7, builtins.int:20), tuple(tuple(builtins.int:10, '
                    'builtins.int:50), tuple(builtins.int:50, builtins.int:90), '
                    'tuple(builtins.int:90, builtins.int:130), tuple(builtins.int:130, '
                    'builtins.int:170), tuple(builtins.int:170, builtins.int:210), '
                    'tuple(builtins.int:210, builtins.int:250), tuple(builtins.int:250, '
                    'builtins.int:290)))',
 "tuple|str:'1kiB'": 'list(numpy.int64(np.int64(7)), dict{builtins.int:0: '
                     "dict{builtins.str:'offset': builtins.int:10, builtins.str:'size': "
                     'builtins.int:280}}, builtins.str:"Array(url=\'image\', shape=(7, 20), '
                     'dtype=\'uint16\', records_per_chunk=np.int64(7))", '
                     'tuple(numpy.int64(np.int64(7)), builtins.int:20), builtins.int:2, '
                     'tuple(builtins.int:7, builtins.int:20), tuple(tuple(builtins.int:10, '
                     'builtins.int:50), tuple(builtins.int:50, builtins.int:90), '
                     'tuple(builtins.int:90, builtins.int:130), tuple(builtins.int:130, '
                     'builtins.int:170), tuple(builtins.int:170, builtins.int:210), '
                     'tuple(builtins.int:210, builtins.int:250), tuple(builtins.int:250, '
                     'builtins.int:290)))',
 "tuple|str:'1 MiB'": 'list(numpy.int64(np.int64(7)), dict{builtins.int:0: '
                      "dict{builtins.str:'offset': builtins.int:10, builtins.str:'size': "
                      'builtins.int:280}}, builtins.str:"Array(url=\'image\', shape=(7, 20), '
                      'dtype=\'uint16\', records_per_chunk=np.int64(7))", '
                      'tuple(numpy.int64(np.int64(7)), builtins.int:20), builtins.int:2, '
                      'tuple(builtins.int:7, builtins.int:20), tuple(tuple(builtins.int:10, '
                      'builtins.int:50), tuple(builtins.int:50, builtins.int:90), '
                      'tuple(builtins.int:90, builtins.int:130), tuple(builtins.int:130, '
                      'builtins.int:170), tuple(builtins.int:170, builtins.int:210), '
                      'tuple(builtins.int:210, builtins.int:250), tuple(builtins.int:250, '
                      'builtins.int:290)))',
 "tuple|str:'95MiB'": 'list(numpy.int64(np.int64(7)), dict{builtins.int:0: '
                      "dict{builtins.str:'offset': builtins.int:10, builtins.str:'size': "
                      'builtins.int:280}}, builtins.str:"Array(url=\'image\', shape=(7, 20), '
                      'dtype=\'uint16\', records_per_chunk=np.int64(7))", '
                      'tuple(numpy.int64(np.int64(7)), builtins.int:20), builtins.int:2, '
                      'tuple(builtins.int:7, builtins.int:20), tuple(tuple(builtins.int:10, '
                      'builtins.int:50), tuple(builtins.int:50, builtins.int:90), '
                      'tuple(builtins.int:90, builtins.int:130), tuple(builtins.int:130, '
                      'builtins.int:170), tuple(builtins.int:170, builtins.int:210), '
                      'tuple(builtins.int:210, builtins.int:250), tuple(builtins.int:250, '
                      'builtins.int:290)))',
 "tuple|str:'0.1 GB'": 'list(numpy.int64(np.int64(7)), dict{builtins.int:0: '
                       "dict{builtins.str:'offset': builtins.int:10, builtins.str:'size': "
                       'builtins.int:280}}, builtins.str:"Array(url=\'image\', shape=(7, 20), '
                       'dtype=\'uint16\', records_per_chunk=np.int64(7))", '
                       'tuple(numpy.int64(np.int64(7)), builtins.int:20), builtins.int:2, '
                       'tuple(builtins.int:7, builtins.int:20), tuple(tuple(builtins.int:10, '
                       'builtins.int:50), tuple(builtins.int:50, builtins.int:90), '
                       'tuple(builtins.int:90, builtins.int:130), tuple(builtins.int:130, '
                       'builtins.int:170), tuple(builtins.int:170, builtins.int:210), '
                       'tuple(builtins.int:210, builtins.int:250), tuple(builtins.int:250, '
                       'builtins.int:290)))',
 "tuple|str:'100'": 'list(numpy.int64(np.int64(2)), dict{builtins.int:0: '
                    "dict{builtins.str:'offset': builtins.int:10, builtins.str:'size': "
                    "builtins.int:80}, builtins.int:1: dict{builtins.str:'offset': "
                    "builtins.int:90, builtins.str:'size': builtins.int:80}, builtins.int:2: "
                    "dict{builtins.str:'offset': builtins.int:170, builtins.str:'size': "
                    "builtins.int:80}, builtins.int:3: dict{builtins.str:'offset': "
                    "builtins.int:250, builtins.str:'size': builtins.int:40}}, "
                    'builtins.str:"Array(url=\'image\', shape=(7, 20), dtype=\'uint16\', '
                    'records_per_chunk=np.int64(2))", tuple(numpy.int64(np.int64(2)), '
                    'builtins.int:20), builtins.int:2, tuple(builtins.int:7, builtins.int:20), '
                    'tuple(tuple(builtins.int:10, builtins.int:50), tuple(builtins.int:50, '
                    'builtins.int:90), tuple(builtins.int:90, builtins.int:130), '
                    'tuple(builtins.int:130, builtins.int:170), tuple(builtins.int:170, '
                    'builtins.int:210), tuple(builtins.int:210, builtins.int:250), '
                    'tuple(builtins.int:250, builtins.int:290)))',
 "tuple|str:'1e2'": 'list(numpy.int64(np.int64(2)), dict{builtins.int:0: '
                    "dict{builtins.str:'offset': builtins.int:10, builtins.str:'size': "
                    "builtins.int:80}, builtins.int:1: dict{builtins.str:'offset': "
                    "builtins.int:90, builtins.str:'size': builtins.int:80}, builtins.int:2: "
                    "dict{builtins.str:'offset': builtins.int:170, builtins.str:'size': "
                    "builtins.int:80}, builtins.int:3: dict{builtins.str:'offset': "
                    "builtins.int:250, builtins.str:'size': builtins.int:40}}, "
                    'builtins.str:"Array(url=\'image\', shape=(7, 20), dtype=\'uint16\', '
                    'records_per_chunk=np.int64(2))", tuple(numpy.int64(np.int64(2)), '
                    'builtins.int:20), builtins.int:2, tuple(builtins.int:7, builtins.int:20), '
                    'tuple(tuple(builtins.int:10, builtins.int:50), tuple(builtins.int:50, '
                    'builtins.int:90), tuple(builtins.int:90, builtins.int:130), '
                    'tuple(builtins.int:130, builtins.int:170), tuple(builtins.int:170, '
                    'builtins.int:210), tuple(builtins.int:210, builtins.int:250), '
                    'tuple(builtins.int:250, builtins.int:290)))',
 "tuple|str:'kB'": 'list(numpy.int64(np.int64(7)), dict{builtins.int:0: '
                   "dict{builtins.str:'offset': builtins.int:10, builtins.str:'size': "
                   'builtins.int:280}}, builtins.str:"Array(url=\'image\', shape=(7, 20), '
                   'dtype=\'uint16\', records_per_chunk=np.int64(7))", '
                   'tuple(numpy.int64(np.int64(7)), builtins.int:20), builtins.int:2, '
                   'tuple(builtins.int:7, builtins.int:20), tuple(tuple(builtins.int:10, '
                   'builtins.int:50), tuple(builtins.int:50, builtins.int:90), '
                   'tuple(builtins.int:90, builtins.int:130), tuple(builtins.int:130, '
                   'builtins.int:170), tuple(builtins.int:170, builtins.int:210), '
                   'tuple(builtins.int:210, builtins.int:250), tuple(builtins.int:250, '
                   'builtins.int:290)))',
 "tuple|str:''": "list(numpy.int64(np.int64(1)), dict{builtins.int:0: dict{builtins.str:'offset': "
                 "builtins.int:10, builtins.str:'size': builtins.int:40}, builtins.int:1: "
                 "dict{builtins.str:'offset': builtins.int:50, builtins.str:'size': "
                 "builtins.int:40}, builtins.int:2: dict{builtins.str:'offset': builtins.int:90, "
                 "builtins.str:'size': builtins.int:40}, builtins.int:3: "
                 "dict{builtins.str:'offset': builtins.int:130, builtins.str:'size': "
                 "builtins.int:40}, builtins.int:4: dict{builtins.str:'offset': builtins.int:170, "
                 "builtins.str:'size': builtins.int:40}, builtins.int:5: "
                 "dict{builtins.str:'offset': builtins.int:210, builtins.str:'size': "
                 "builtins.int:40}, builtins.int:6: dict{builtins.str:'offset': builtins.int:250, "
                 'builtins.str:\'size\': builtins.int:40}}, builtins.str:"Array(url=\'image\', '
                 'shape=(7, 20), dtype=\'uint16\', records_per_chunk=np.int64(1))", '
                 'tuple(numpy.int64(np.int64(1)), builtins.int:20), builtins.int:2, '
                 'tuple(builtins.int:7, builtins.int:20), tuple(tuple(builtins.int:10, '
                 'builtins.int:50), tuple(builtins.int:50, builtins.int:90), '
                 'tuple(builtins.int:90, builtins.int:130), tuple(builtins.int:130, '
                 'builtins.int:170), tuple(builtins.int:170, builtins.int:210), '
                 'tuple(builtins.int:210, builtins.int:250), tuple(builtins.int:250, '
                 'builtins.int:290)))',
 "tuple|str:'5 foos'": "raise builtins.ValueError: Could not interpret 'foos' as a byte unit",
 "tuple|str:'abc'": "raise builtins.ValueError: Could not interpret 'abc' as a byte unit",
 "tuple|str:'AUTO'": "raise builtins.ValueError: Could not interpret 'AUTO' as a byte unit",
 "tuple|str:' auto'": "raise builtins.ValueError: Could not interpret 'auto' as a byte unit",
 "tuple|Text:'auto'": 'list(numpy.int64(np.int64(7)), dict{builtins.int:0: '
                      "dict{builtins.str:'offset': builtins.int:10, builtins.str:'size': "
                      'builtins.int:280}}, builtins.str:"Array(url=\'image\', shape=(7, 20), '
                      'dtype=\'uint16\', records_per_chunk=np.int64(7))", '
                      'tuple(numpy.int64(np.int64(7)), builtins.int:20), builtins.int:2, '
                      'tuple(builtins.int:7, builtins.int:20), tuple(tuple(builtins.int:10, '
                      'builtins.int:50), tuple(builtins.int:50, builtins.int:90), '
                      'tuple(builtins.int:90, builtins.int:130), tuple(builtins.int:130, '
                      'builtins.int:170), tuple(builtins.int:170, builtins.int:210), '
                      'tuple(builtins.int:210, builtins.int:250), tuple(builtins.int:250, '
                      'builtins.int:290)))',
 "tuple|Text:'160B'": 'list(numpy.int64(np.int64(4)), dict{builtins.int:0: '
                      "dict{builtins.str:'offset': builtins.int:10, builtins.str:'size': "
                      "builtins.int:160}, builtins.int:1: dict{builtins.str:'offset': "
                      "builtins.int:170, builtins.str:'size': builtins.int:120}}, "
                      'builtins.str:"Array(url=\'image\', shape=(7, 20), dtype=\'uint16\', '
                      'records_per_chunk=np.int64(4))", tuple(numpy.int64(np.int64(4)), '
                      'builtins.int:20), builtins.int:2, tuple(builtins.int:7, builtins.int:20), '
                      'tuple(tuple(builtins.int:10, builtins.int:50), tuple(builtins.int:50, '
                      'builtins.int:90), tuple(builtins.int:90, builtins.int:130), '
                      'tuple(builtins.int:130, builtins.int:170), tuple(builtins.int:170, '
                      'builtins.int:210), tuple(builtins.int:210, builtins.int:250), '
                      'tuple(builtins.int:250, builtins.int:290)))',
 'tuple|int:-1': "list(builtins.int:7, dict{builtins.int:0: dict{builtins.str:'offset': "
                 "builtins.int:10, builtins.str:'size': builtins.int:280}}, "
                 'builtins.str:"Array(url=\'image\', shape=(7, 20), dtype=\'uint16\', '
                 'records_per_chunk=7)", tuple(builtins.int:7, builtins.int:20), builtins.int:2, '
                 'tuple(builtins.int:7, builtins.int:20), tuple(tuple(builtins.int:10, '
                 'builtins.int:50), tuple(builtins.int:50, builtins.int:90), '
                 'tuple(builtins.int:90, builtins.int:130), tuple(builtins.int:130, '
                 'builtins.int:170), tuple(builtins.int:170, builtins.int:210), '
                 'tuple(builtins.int:210, builtins.int:250), tuple(builtins.int:250, '
                 'builtins.int:290)))',
 'tuple|int:0': 'list(builtins.int:0, dict{}, builtins.str:"Array(url=\'image\', shape=(7, 20), '
                'dtype=\'uint16\', records_per_chunk=0)", tuple(builtins.int:0, builtins.int:20), '
                'builtins.int:2, tuple(builtins.int:7, builtins.int:20), '
                'tuple(tuple(builtins.int:10, builtins.int:50), tuple(builtins.int:50, '
                'builtins.int:90), tuple(builtins.int:90, builtins.int:130), '
                'tuple(builtins.int:130, builtins.int:170), tuple(builtins.int:170, '
                'builtins.int:210), tuple(builtins.int:210, builtins.int:250), '
                'tuple(builtins.int:250, builtins.int:290)))',
 'tuple|int:1': "list(builtins.int:1, dict{builtins.int:0: dict{builtins.str:'offset': "
                "builtins.int:10, builtins.str:'size': builtins.int:40}, builtins.int:1: "
                "dict{builtins.str:'offset': builtins.int:50, builtins.str:'size': "
                "builtins.int:40}, builtins.int:2: dict{builtins.str:'offset': builtins.int:90, "
                "builtins.str:'size': builtins.int:40}, builtins.int:3: "
                "dict{builtins.str:'offset': builtins.int:130, builtins.str:'size': "
                "builtins.int:40}, builtins.int:4: dict{builtins.str:'offset': builtins.int:170, "
                "builtins.str:'size': builtins.int:40}, builtins.int:5: "
                "dict{builtins.str:'offset': builtins.int:210, builtins.str:'size': "
                "builtins.int:40}, builtins.int:6: dict{builtins.str:'offset': builtins.int:250, "
                'builtins.str:\'size\': builtins.int:40}}, builtins.str:"Array(url=\'image\', '
                'shape=(7, 20), dtype=\'uint16\', records_per_chunk=1)", tuple(builtins.int:1, '
                'builtins.int:20), builtins.int:2, tuple(builtins.int:7, builtins.int:20), '
                'tuple(tuple(builtins.int:10, builtins.int:50), tuple(builtins.int:50, '
                'builtins.int:90), tuple(builtins.int:90, builtins.int:130), '
                'tuple(builtins.int:130, builtins.int:170), tuple(builtins.int:170, '
                'builtins.int:210), tuple(builtins.int:210, builtins.int:250), '
                'tuple(builtins.int:250, builtins.int:290)))',
 'tuple|int:2': "list(builtins.int:2, dict{builtins.int:0: dict{builtins.str:'offset': "
                "builtins.int:10, builtins.str:'size': builtins.int:80}, builtins.int:1: "
                "dict{builtins.str:'offset': builtins.int:90, builtins.str:'size': "
                "builtins.int:80}, builtins.int:2: dict{builtins.str:'offset': builtins.int:170, "
                "builtins.str:'size': builtins.int:80}, builtins.int:3: "
                "dict{builtins.str:'offset': builtins.int:250, builtins.str:'size': "
                'builtins.int:40}}, builtins.str:"Array(url=\'image\', shape=(7, 20), '
                'dtype=\'uint16\', records_per_chunk=2)", tuple(builtins.int:2, builtins.int:20), '
                'builtins.int:2, tuple(builtins.int:7, builtins.int:20), '
                'tuple(tuple(builtins.int:10, builtins.int:50), tuple(builtins.int:50, '
                'builtins.int:90), tuple(builtins.int:90, builtins.int:130), '
                'tuple(builtins.int:130, builtins.int:170), tuple(builtins.int:170, '
                'builtins.int:210), tuple(builtins.int:210, builtins.int:250), '
                'tuple(builtins.int:250, builtins.int:290)))',
 'tuple|int:3': "list(builtins.int:3, dict{builtins.int:0: dict{builtins.str:'offset': "
                "builtins.int:10, builtins.str:'size': builtins.int:120}, builtins.int:1: "
                "dict{builtins.str:'offset': builtins.int:130, builtins.str:'size': "
                "builtins.int:120}, builtins.int:2: dict{builtins.str:'offset': builtins.int:250, "
                'builtins.str:\'size\': builtins.int:40}}, builtins.str:"Array(url=\'image\', '
                'shape=(7, 20), dtype=\'uint16\', records_per_chunk=3)", tuple(builtins.int:3, '
                'builtins.int:20), builtins.int:2, tuple(builtins.int:7, builtins.int:20), '
                'tuple(tuple(builtins.int:10, builtins.int:50), tuple(builtins.int:50, '
                'builtins.int:90), tuple(builtins.int:90, builtins.int:130), '
                'tuple(builtins.int:130, builtins.int:170), tuple(builtins.int:170, '
                'builtins.int:210), tuple(builtins.int:210, builtins.int:250), '
                'tuple(builtins.int:250, builtins.int:290)))',
 'tuple|int:4': "list(builtins.int:4, dict{builtins.int:0: dict{builtins.str:'offset': "
                "builtins.int:10, builtins.str:'size': builtins.int:160}, builtins.int:1: "
                "dict{builtins.str:'offset': builtins.int:170, builtins.str:'size': "
                'builtins.int:120}}, builtins.str:"Array(url=\'image\', shape=(7, 20), '
                'dtype=\'uint16\', records_per_chunk=4)", tuple(builtins.int:4, builtins.int:20), '
                'builtins.int:2, tuple(builtins.int:7, builtins.int:20), '
                'tuple(tuple(builtins.int:10, builtins.int:50), tuple(builtins.int:50, '
                'builtins.int:90), tuple(builtins.int:90, builtins.int:130), '
                'tuple(builtins.int:130, builtins.int:170), tuple(builtins.int:170, '
                'builtins.int:210), tuple(builtins.int:210, builtins.int:250), '
                'tuple(builtins.int:250, builtins.int:290)))',
 'tuple|int:5': "list(builtins.int:5, dict{builtins.int:0: dict{builtins.str:'offset': "
                "builtins.int:10, builtins.str:'size': builtins.int:200}, builtins.int:1: "
                "dict{builtins.str:'offset': builtins.int:210, builtins.str:'size': "
                'builtins.int:80}}, builtins.str:"Array(url=\'image\', shape=(7, 20), '
                'dtype=\'uint16\', records_per_chunk=5)", tuple(builtins.int:5, builtins.int:20), '
                'builtins.int:2, tuple(builtins.int:7, builtins.int:20), '
                'tuple(tuple(builtins.int:10, builtins.int:50), tuple(builtins.int:50, '
                'builtins.int:90), tuple(builtins.int:90, builtins.int:130), '
                'tuple(builtins.int:130, builtins.int:170), tuple(builtins.int:170, '
                'builtins.int:210), tuple(builtins.int:210, builtins.int:250), '
                'tuple(builtins.int:250, builtins.int:290)))',
 'tuple|int:6': "list(builtins.int:6, dict{builtins.int:0: dict{builtins.str:'offset': "
                "builtins.int:10, builtins.str:'size': builtins.int:240}, builtins.int:1: "
                "dict{builtins.str:'offset': builtins.int:250, builtins.str:'size': "
                'builtins.int:40}}, builtins.str:"Array(url=\'image\', shape=(7, 20), '
                'dtype=\'uint16\', records_per_chunk=6)", tuple(builtins.int:6, builtins.int:20), '
                'builtins.int:2, tuple(builtins.int:7, builtins.int:20), '
                'tuple(tuple(builtins.int:10, builtins.int:50), tuple(builtins.int:50, '
                'builtins.int:90), tuple(builtins.int:90, builtins.int:130), '
                'tuple(builtins.int:130, builtins.int:170), tuple(builtins.int:170, '
                'builtins.int:210), tuple(builtins.int:210, builtins.int:250), '
                'tuple(builtins.int:250, builtins.int:290)))',
 'tuple|int:7': "list(builtins.int:7, dict{builtins.int:0: dict{builtins.str:'offset': "
                "builtins.int:10, builtins.str:'size': builtins.int:280}}, "
                'builtins.str:"Array(url=\'image\', shape=(7, 20), dtype=\'uint16\', '
                'records_per_chunk=7)", tuple(builtins.int:7, builtins.int:20), builtins.int:2, '
                'tuple(builtins.int:7, builtins.int:20), tuple(tuple(builtins.int:10, '
                'builtins.int:50), tuple(builtins.int:50, builtins.int:90), tuple(builtins.int:90, '
                'builtins.int:130), tuple(builtins.int:130, builtins.int:170), '
                'tuple(builtins.int:170, builtins.int:210), tuple(builtins.int:210, '
                'builtins.int:250), tuple(builtins.int:250, builtins.int:290)))',
 'tuple|int:8': "list(builtins.int:7, dict{builtins.int:0: dict{builtins.str:'offset': "
                "builtins.int:10, builtins.str:'size': builtins.int:280}}, "
                'builtins.str:"Array(url=\'image\', shape=(7, 20), dtype=\'uint16\', '
                'records_per_chunk=7)", tuple(builtins.int:7, builtins.int:20), builtins.int:2, '
                'tuple(builtins.int:7, builtins.int:20), tuple(tuple(builtins.int:10, '
                'builtins.int:50), tuple(builtins.int:50, builtins.int:90), tuple(builtins.int:90, '
                'builtins.int:130), tuple(builtins.int:130, builtins.int:170), '
                'tuple(builtins.int:170, builtins.int:210), tuple(builtins.int:210, '
                'builtins.int:250), tuple(builtins.int:250, builtins.int:290)))',
 'tuple|int:1024': "list(builtins.int:7, dict{builtins.int:0: dict{builtins.str:'offset': "
                   "builtins.int:10, builtins.str:'size': builtins.int:280}}, "
                   'builtins.str:"Array(url=\'image\', shape=(7, 20), dtype=\'uint16\', '
                   'records_per_chunk=7)", tuple(builtins.int:7, builtins.int:20), builtins.int:2, '
                   'tuple(builtins.int:7, builtins.int:20), tuple(tuple(builtins.int:10, '
                   'builtins.int:50), tuple(builtins.int:50, builtins.int:90), '
                   'tuple(builtins.int:90, builtins.int:130), tuple(builtins.int:130, '
                   'builtins.int:170), tuple(builtins.int:170, builtins.int:210), '
                   'tuple(builtins.int:210, builtins.int:250), tuple(builtins.int:250, '
                   'builtins.int:290)))',
 'tuple|int:-2': 'list(builtins.int:-2, dict{}, builtins.str:"Array(url=\'image\', shape=(7, 20), '
                 'dtype=\'uint16\', records_per_chunk=-2)", tuple(builtins.int:-2, '
                 'builtins.int:20), builtins.int:2, tuple(builtins.int:7, builtins.int:20), '
                 'tuple(tuple(builtins.int:10, builtins.int:50), tuple(builtins.int:50, '
                 'builtins.int:90), tuple(builtins.int:90, builtins.int:130), '
                 'tuple(builtins.int:130, builtins.int:170), tuple(builtins.int:170, '
                 'builtins.int:210), tuple(builtins.int:210, builtins.int:250), '
                 'tuple(builtins.int:250, builtins.int:290)))',
 'tuple|bool:True': "list(builtins.bool:True, dict{builtins.int:0: dict{builtins.str:'offset': "
                    "builtins.int:10, builtins.str:'size': builtins.int:40}, builtins.int:1: "
                    "dict{builtins.str:'offset': builtins.int:50, builtins.str:'size': "
                    "builtins.int:40}, builtins.int:2: dict{builtins.str:'offset': "
                    "builtins.int:90, builtins.str:'size': builtins.int:40}, builtins.int:3: "
                    "dict{builtins.str:'offset': builtins.int:130, builtins.str:'size': "
                    "builtins.int:40}, builtins.int:4: dict{builtins.str:'offset': "
                    "builtins.int:170, builtins.str:'size': builtins.int:40}, builtins.int:5: "
                    "dict{builtins.str:'offset': builtins.int:210, builtins.str:'size': "
                    "builtins.int:40}, builtins.int:6: dict{builtins.str:'offset': "
                    "builtins.int:250, builtins.str:'size': builtins.int:40}}, "
                    'builtins.str:"Array(url=\'image\', shape=(7, 20), dtype=\'uint16\', '
                    'records_per_chunk=True)", tuple(builtins.bool:True, builtins.int:20), '
                    'builtins.int:2, tuple(builtins.int:7, builtins.int:20), '
                    'tuple(tuple(builtins.int:10, builtins.int:50), tuple(builtins.int:50, '
                    'builtins.int:90), tuple(builtins.int:90, builtins.int:130), '
                    'tuple(builtins.int:130, builtins.int:170), tuple(builtins.int:170, '
                    'builtins.int:210), tuple(builtins.int:210, builtins.int:250), '
                    'tuple(builtins.int:250, builtins.int:290)))',
 'tuple|bool:False': 'list(builtins.bool:False, dict{}, builtins.str:"Array(url=\'image\', '
                     'shape=(7, 20), dtype=\'uint16\', records_per_chunk=False)", '
                     'tuple(builtins.bool:False, builtins.int:20), builtins.int:2, '
                     'tuple(builtins.int:7, builtins.int:20), tuple(tuple(builtins.int:10, '
                     'builtins.int:50), tuple(builtins.int:50, builtins.int:90), '
                     'tuple(builtins.int:90, builtins.int:130), tuple(builtins.int:130, '
                     'builtins.int:170), tuple(builtins.int:170, builtins.int:210), '
                     'tuple(builtins.int:210, builtins.int:250), tuple(builtins.int:250, '
                     'builtins.int:290)))',
 'tuple|int64:np.int64(3)': 'list(numpy.int64(np.int64(3)), dict{builtins.int:0: '
                            "dict{builtins.str:'offset': builtins.int:10, builtins.str:'size': "
                            "builtins.int:120}, builtins.int:1: dict{builtins.str:'offset': "
                            "builtins.int:130, builtins.str:'size': builtins.int:120}, "
                            "builtins.int:2: dict{builtins.str:'offset': builtins.int:250, "
                            "builtins.str:'size': builtins.int:40}}, "
                            'builtins.str:"Array(url=\'image\', shape=(7, 20), dtype=\'uint16\', '
                            'records_per_chunk=np.int64(3))", tuple(numpy.int64(np.int64(3)), '
                            'builtins.int:20), builtins.int:2, tuple(builtins.int:7, '
                            'builtins.int:20), tuple(tuple(builtins.int:10, builtins.int:50), '
                            'tuple(builtins.int:50, builtins.int:90), tuple(builtins.int:90, '
                            'builtins.int:130), tuple(builtins.int:130, builtins.int:170), '
                            'tuple(builtins.int:170, builtins.int:210), tuple(builtins.int:210, '
                            'builtins.int:250), tuple(builtins.int:250, builtins.int:290)))',
 'tuple|int64:np.int64(-1)': 'list(builtins.int:7, dict{builtins.int:0: '
                             "dict{builtins.str:'offset': builtins.int:10, builtins.str:'size': "
                             'builtins.int:280}}, builtins.str:"Array(url=\'image\', shape=(7, '
                             '20), dtype=\'uint16\', records_per_chunk=7)", tuple(builtins.int:7, '
                             'builtins.int:20), builtins.int:2, tuple(builtins.int:7, '
                             'builtins.int:20), tuple(tuple(builtins.int:10, builtins.int:50), '
                             'tuple(builtins.int:50, builtins.int:90), tuple(builtins.int:90, '
                             'builtins.int:130), tuple(builtins.int:130, builtins.int:170), '
                             'tuple(builtins.int:170, builtins.int:210), tuple(builtins.int:210, '
                             'builtins.int:250), tuple(builtins.int:250, builtins.int:290)))',
 'tuple|int64:np.int64(1000000)': 'list(builtins.int:7, dict{builtins.int:0: '
                                  "dict{builtins.str:'offset': builtins.int:10, "
                                  "builtins.str:'size': builtins.int:280}}, "
                                  'builtins.str:"Array(url=\'image\', shape=(7, 20), '
                                  'dtype=\'uint16\', records_per_chunk=7)", tuple(builtins.int:7, '
                                  'builtins.int:20), builtins.int:2, tuple(builtins.int:7, '
                                  'builtins.int:20), tuple(tuple(builtins.int:10, '
                                  'builtins.int:50), tuple(builtins.int:50, builtins.int:90), '
                                  'tuple(builtins.int:90, builtins.int:130), '
                                  'tuple(builtins.int:130, builtins.int:170), '
                                  'tuple(builtins.int:170, builtins.int:210), '
                                  'tuple(builtins.int:210, builtins.int:250), '
                                  'tuple(builtins.int:250, builtins.int:290)))',
 'tuple|float:2.0': "raise builtins.TypeError: can't multiply sequence by non-int of type 'float'",
 'tuple|float:2.5': "raise builtins.TypeError: can't multiply sequence by non-int of type 'float'",
 'tuple|float:-1.0': "list(builtins.int:7, dict{builtins.int:0: dict{builtins.str:'offset': "
                     "builtins.int:10, builtins.str:'size': builtins.int:280}}, "
                     'builtins.str:"Array(url=\'image\', shape=(7, 20), dtype=\'uint16\', '
                     'records_per_chunk=7)", tuple(builtins.int:7, builtins.int:20), '
                     'builtins.int:2, tuple(builtins.int:7, builtins.int:20), '
                     'tuple(tuple(builtins.int:10, builtins.int:50), tuple(builtins.int:50, '
                     'builtins.int:90), tuple(builtins.int:90, builtins.int:130), '
                     'tuple(builtins.int:130, builtins.int:170), tuple(builtins.int:170, '
                     'builtins.int:210), tuple(builtins.int:210, builtins.int:250), '
                     'tuple(builtins.int:250, builtins.int:290)))',
 'tuple|float:nan': "raise builtins.TypeError: can't multiply sequence by non-int of type 'float'",
 'tuple|float:inf': "list(builtins.int:7, dict{builtins.int:0: dict{builtins.str:'offset': "
                    "builtins.int:10, builtins.str:'size': builtins.int:280}}, "
                    'builtins.str:"Array(url=\'image\', shape=(7, 20), dtype=\'uint16\', '
                    'records_per_chunk=7)", tuple(builtins.int:7, builtins.int:20), '
                    'builtins.int:2, tuple(builtins.int:7, builtins.int:20), '
                    'tuple(tuple(builtins.int:10, builtins.int:50), tuple(builtins.int:50, '
                    'builtins.int:90), tuple(builtins.int:90, builtins.int:130), '
                    'tuple(builtins.int:130, builtins.int:170), tuple(builtins.int:170, '
                    'builtins.int:210), tuple(builtins.int:210, builtins.int:250), '
                    'tuple(builtins.int:250, builtins.int:290)))',
 "tuple|bytes:b'auto'": "raise builtins.TypeError: '>' not supported between instances of 'bytes' "
                        "and 'int'",
 'tuple|list:[2]': "raise builtins.TypeError: '>' not supported between instances of 'list' and "
                   "'int'",
 'tuple|tuple:(2,)': "raise builtins.TypeError: '>' not supported between instances of 'tuple' and "
                     "'int'",
 'tuple|dict:{}': "raise builtins.TypeError: '>' not supported between instances of 'dict' and "
                  "'int'",
 'tuple|complex:(1+0j)': "raise builtins.TypeError: '>' not supported between instances of "
                         "'complex' and 'int'",
 "lists|str:'<omitted>'": 'list(builtins.int:1024, dict{builtins.int:0: '
                          "dict{builtins.str:'offset': builtins.int:10, builtins.str:'size': "
                          'builtins.int:280}}, builtins.str:"Array(url=\'image\', shape=[7, 20], '
                          'dtype=\'uint16\', records_per_chunk=1024)", tuple(builtins.int:1024, '
                          'builtins.int:20), builtins.int:2, list(builtins.int:7, '
                          'builtins.int:20), list(list(builtins.int:10, builtins.int:50), '
                          'list(builtins.int:50, builtins.int:90), list(builtins.int:90, '
                          'builtins.int:130), list(builtins.int:130, builtins.int:170), '
                          'list(builtins.int:170, builtins.int:210), list(builtins.int:210, '
                          'builtins.int:250), list(builtins.int:250, builtins.int:290)))',
 'lists|NoneType:None': "list(builtins.int:1024, dict{builtins.int:0: dict{builtins.str:'offset': "
                        "builtins.int:10, builtins.str:'size': builtins.int:280}}, "
                        'builtins.str:"Array(url=\'image\', shape=[7, 20], dtype=\'uint16\', '
                        'records_per_chunk=1024)", tuple(builtins.int:1024, builtins.int:20), '
                        'builtins.int:2, list(builtins.int:7, builtins.int:20), '
                        'list(list(builtins.int:10, builtins.int:50), list(builtins.int:50, '
                        'builtins.int:90), list(builtins.int:90, builtins.int:130), '
                        'list(builtins.int:130, builtins.int:170), list(builtins.int:170, '
                        'builtins.int:210), list(builtins.int:210, builtins.int:250), '
                        'list(builtins.int:250, builtins.int:290)))',
 "lists|str:'auto'": 'list(numpy.int64(np.int64(7)), dict{builtins.int:0: '
                     "dict{builtins.str:'offset': builtins.int:10, builtins.str:'size': "
                     'builtins.int:280}}, builtins.str:"Array(url=\'image\', shape=[7, 20], '
                     'dtype=\'uint16\', records_per_chunk=np.int64(7))", '
                     'tuple(numpy.int64(np.int64(7)), builtins.int:20), builtins.int:2, '
                     'list(builtins.int:7, builtins.int:20), list(list(builtins.int:10, '
                     'builtins.int:50), list(builtins.int:50, builtins.int:90), '
                     'list(builtins.int:90, builtins.int:130), list(builtins.int:130, '
                     'builtins.int:170), list(builtins.int:170, builtins.int:210), '
                     'list(builtins.int:210, builtins.int:250), list(builtins.int:250, '
                     'builtins.int:290)))',
 "lists|str:'80B'": 'list(numpy.int64(np.int64(2)), dict{builtins.int:0: '
                    "dict{builtins.str:'offset': builtins.int:10, builtins.str:'size': "
                    "builtins.int:80}, builtins.int:1: dict{builtins.str:'offset': "
                    "builtins.int:90, builtins.str:'size': builtins.int:80}, builtins.int:2: "
                    "dict{builtins.str:'offset': builtins.int:170, builtins.str:'size': "
                    "builtins.int:80}, builtins.int:3: dict{builtins.str:'offset': "
                    "builtins.int:250, builtins.str:'size': builtins.int:40}}, "
                    'builtins.str:"Array(url=\'image\', shape=[7, 20], dtype=\'uint16\', '
                    'records_per_chunk=np.int64(2))", tuple(numpy.int64(np.int64(2)), '
                    'builtins.int:20), builtins.int:2, list(builtins.int:7, builtins.int:20), '
                    'list(list(builtins.int:10, builtins.int:50), list(builtins.int:50, '
                    'builtins.int:90), list(builtins.int:90, builtins.int:130), '
                    'list(builtins.int:130, builtins.int:170), list(builtins.int:170, '
                    'builtins.int:210), list(builtins.int:210, builtins.int:250), '
                    'list(builtins.int:250, builtins.int:290)))',
 "lists|str:'81B'": 'list(numpy.int64(np.int64(2)), dict{builtins.int:0: '
                    "dict{builtins.str:'offset': builtins.int:10, builtins.str:'size': "
                    "builtins.int:80}, builtins.int:1: dict{builtins.str:'offset': "
                    "builtins.int:90, builtins.str:'size': builtins.int:80}, builtins.int:2: "
                    "dict{builtins.str:'offset': builtins.int:170, builtins.str:'size': "
                    "builtins.int:80}, builtins.int:3: dict{builtins.str:'offset': "
                    "builtins.int:250, builtins.str:'size': builtins.int:40}}, "
                    'builtins.str:"Array(url=\'image\', shape=[7, 20], dtype=\'uint16\', '
                    'records_per_chunk=np.int64(2))", tuple(numpy.int64(np.int64(2)), '
                    'builtins.int:20), builtins.int:2, list(builtins.int:7, builtins.int:20), '
                    'list(list(builtins.int:10, builtins.int:50), list(builtins.int:50, '
                    'builtins.int:90), list(builtins.int:90, builtins.int:130), '
                    'list(builtins.int:130, builtins.int:170), list(builtins.int:170, '
                    'builtins.int:210), list(builtins.int:210, builtins.int:250), '
                    'list(builtins.int:250, builtins.int:290)))',
 "lists|str:'100B'": 'list(numpy.int64(np.int64(2)), dict{builtins.int:0: '
                     "dict{builtins.str:'offset': builtins.int:10, builtins.str:'size': "
                     "builtins.int:80}, builtins.int:1: dict{builtins.str:'offset': "
                     "builtins.int:90, builtins.str:'size': builtins.int:80}, builtins.int:2: "
                     "dict{builtins.str:'offset': builtins.int:170, builtins.str:'size': "
                     "builtins.int:80}, builtins.int:3: dict{builtins.str:'offset': "
                     "builtins.int:250, builtins.str:'size': builtins.int:40}}, "
                     'builtins.str:"Array(url=\'image\', shape=[7, 20], dtype=\'uint16\', '
                     'records_per_chunk=np.int64(2))", tuple(numpy.int64(np.int64(2)), '
                     'builtins.int:20), builtins.int:2, list(builtins.int:7, builtins.int:20), '
                     'list(list(builtins.int:10, builtins.int:50), list(builtins.int:50, '
                     'builtins.int:90), list(builtins.int:90, builtins.int:130), '
                     'list(builtins.int:130, builtins.int:170), list(builtins.int:170, '
                     'builtins.int:210), list(builtins.int:210, builtins.int:250), '
                     'list(builtins.int:250, builtins.int:290)))',
 "lists|str:'119B'": 'list(numpy.int64(np.int64(3)), dict{builtins.int:0: '
                     "dict{builtins.str:'offset': builtins.int:10, builtins.str:'size': "
                     "builtins.int:120}, builtins.int:1: dict{builtins.str:'offset': "
                     "builtins.int:130, builtins.str:'size': builtins.int:120}, builtins.int:2: "
                     "dict{builtins.str:'offset': builtins.int:250, builtins.str:'size': "
                     'builtins.int:40}}, builtins.str:"Array(url=\'image\', shape=[7, 20], '
                     'dtype=\'uint16\', records_per_chunk=np.int64(3))", '
                     'tuple(numpy.int64(np.int64(3)), builtins.int:20), builtins.int:2, '
                     'list(builtins.int:7, builtins.int:20), list(list(builtins.int:10, '
                     'builtins.int:50), list(builtins.int:50, builtins.int:90), '
                     'list(builtins.int:90, builtins.int:130), list(builtins.int:130, '
                     'builtins.int:170), list(builtins.int:170, builtins.int:210), '
                     'list(builtins.int:210, builtins.int:250), list(builtins.int:250, '
                     'builtins.int:290)))',
 "lists|str:'120B'": 'list(numpy.int64(np.int64(3)), dict{builtins.int:0: '
                     "dict{builtins.str:'offset': builtins.int:10, builtins.str:'size': "
                     "builtins.int:120}, builtins.int:1: dict{builtins.str:'offset': "
                     "builtins.int:130, builtins.str:'size': builtins.int:120}, builtins.int:2: "
                     "dict{builtins.str:'offset': builtins.int:250, builtins.str:'size': "
                     'builtins.int:40}}, builtins.str:"Array(url=\'image\', shape=[7, 20], '
                     'dtype=\'uint16\', records_per_chunk=np.int64(3))", '
                     'tuple(numpy.int64(np.int64(3)), builtins.int:20), builtins.int:2, '
                     'list(builtins.int:7, builtins.int:20), list(list(builtins.int:10, '
                     'builtins.int:50), list(builtins.int:50, builtins.int:90), '
                     'list(builtins.int:90, builtins.int:130), list(builtins.int:130, '
                     'builtins.int:170), list(builtins.int:170, builtins.int:210), '
                     'list(builtins.int:210, builtins.int:250), list(builtins.int:250, '
                     'builtins.int:290)))',
 "lists|str:'121B'": 'list(numpy.int64(np.int64(3)), dict{builtins.int:0: '
                     "dict{builtins.str:'offset': builtins.int:10, builtins.str:'size': "
                     "builtins.int:120}, builtins.int:1: dict{builtins.str:'offset': "
                     "builtins.int:130, builtins.str:'size': builtins.int:120}, builtins.int:2: "
                     "dict{builtins.str:'offset': builtins.int:250, builtins.str:'size': "
                     'builtins.int:40}}, builtins.str:"Array(url=\'image\', shape=[7, 20], '
                     'dtype=\'uint16\', records_per_chunk=np.int64(3))", '
                     'tuple(numpy.int64(np.int64(3)), builtins.int:20), builtins.int:2, '
                     'list(builtins.int:7, builtins.int:20), list(list(builtins.int:10, '
                     'builtins.int:50), list(builtins.int:50, builtins.int:90), '
                     'list(builtins.int:90, builtins.int:130), list(builtins.int:130, '
                     'builtins.int:170), list(builtins.int:170, builtins.int:210), '
                     'list(builtins.int:210, builtins.int:250), list(builtins.int:250, '
                     'builtins.int:290)))',
 "lists|str:'0B'": 'list(numpy.int64(np.int64(1)), dict{builtins.int:0: '
                   "dict{builtins.str:'offset': builtins.int:10, builtins.str:'size': "
                   "builtins.int:40}, builtins.int:1: dict{builtins.str:'offset': builtins.int:50, "
                   "builtins.str:'size': builtins.int:40}, builtins.int:2: "
                   "dict{builtins.str:'offset': builtins.int:90, builtins.str:'size': "
                   "builtins.int:40}, builtins.int:3: dict{builtins.str:'offset': "
                   "builtins.int:130, builtins.str:'size': builtins.int:40}, builtins.int:4: "
                   "dict{builtins.str:'offset': builtins.int:170, builtins.str:'size': "
                   "builtins.int:40}, builtins.int:5: dict{builtins.str:'offset': "
                   "builtins.int:210, builtins.str:'size': builtins.int:40}, builtins.int:6: "
                   "dict{builtins.str:'offset': builtins.int:250, builtins.str:'size': "
                   'builtins.int:40}}, builtins.str:"Array(url=\'image\', shape=[7, 20], '
                   'dtype=\'uint16\', records_per_chunk=np.int64(1))", '
                   'tuple(numpy.int64(np.int64(1)), builtins.int:20), builtins.int:2, '
                   'list(builtins.int:7, builtins.int:20), list(list(builtins.int:10, '
                   'builtins.int:50), list(builtins.int:50, builtins.int:90), '
                   'list(builtins.int:90, builtins.int:130), list(builtins.int:130, '
                   'builtins.int:170), list(builtins.int:170, builtins.int:210), '
                   'list(builtins.int:210, builtins.int:250), list(builtins.int:250, '
                   'builtins.int:290)))',
 "lists|str:'1kB'": 'list(numpy.int64(np.int64(7)), dict{builtins.int:0: '
                    "dict{builtins.str:'offset': builtins.int:10, builtins.str:'size': "
                    'builtins.int:280}}, builtins.str:"Array(url=\'image\', shape=[7, 20], '
                    'dtype=\'uint16\', records_per_chunk=np.int64(7))", '
                    'tuple(numpy.int64(np.int64(7)), builtins.int:20), builtins.int:2, '
                    'list(builtins.int:7, builtins.int:20), list(list(builtins.int:10, '
                    'builtins.int:50), list(builtins.int:50, builtins.int:90), '
                    'list(builtins.int:90, builtins.int:130), list(builtins.int:130, '
                    'builtins.int:170), list(builtins.int:170, builtins.int:210), '
                    'list(builtins.int:210, builtins.int:250), list(builtins.int:250, '
                    'builtins.int:290)))',
 "lists|str:'1kiB'": 'list(numpy.int64(np.int64(7)), dict{builtins.int:0: '
                     "dict{builtins.str:'offset': builtins.int:10, builtins.str:'size': "
                     'builtins.int:280}}, builtins.str:"Array(url=\'image\', shape=[7, 20], '
                     'dtype=\'uint16\', records_per_chunk=np.int64(7))", '
                     'tuple(numpy.int64(np.int64(7)), builtins.int:20), builtins.int:2, '
                     'list(builtins.int:7, builtins.int:20), list(list(builtins.int:10, '
                     'builtins.int:50), list(builtins.int:50, builtins.int:90), '
                     'list(builtins.int:90, builtins.int:130), list(builtins.int:130, '
                     'builtins.int:170), list(builtins.int:170, builtins.int:210), '
                     'list(builtins.int:210, builtins.int:250), list(builtins.int:250, '
                     'builtins.int:290)))',
 "lists|str:'1 MiB'": 'list(numpy.int64(np.int64(7)), dict{builtins.int:0: '
                      "dict{builtins.str:'offset': builtins.int:10, builtins.str:'size': "
                      'builtins.int:280}}, builtins.str:"Array(url=\'image\', shape=[7, 20], '
                      'dtype=\'uint16\', records_per_chunk=np.int64(7))", '
                      'tuple(numpy.int64(np.int64(7)), builtins.int:20), builtins.int:2, '
                      'list(builtins.int:7, builtins.int:20), list(list(builtins.int:10, '
                      'builtins.int:50), list(builtins.int:50, builtins.int:90), '
                      'list(builtins.int:90, builtins.int:130), list(builtins.int:130, '
                      'builtins.int:170), list(builtins.int:170, builtins.int:210), '
                      'list(builtins.int:210, builtins.int:250), list(builtins.int:250, '
                      'builtins.int:290)))',
 "lists|str:'95MiB'": 'list(numpy.int64(np.int64(7)), dict{builtins.int:0: '
                      "dict{builtins.str:'offset': builtins.int:10, builtins.str:'size': "
                      'builtins.int:280}}, builtins.str:"Array(url=\'image\', shape=[7, 20], '
                      'dtype=\'uint16\', records_per_chunk=np.int64(7))", '
                      'tuple(numpy.int64(np.int64(7)), builtins.int:20), builtins.int:2, '
                      'list(builtins.int:7, builtins.int:20), list(list(builtins.int:10, '
                      'builtins.int:50), list(builtins.int:50, builtins.int:90), '
                      'list(builtins.int:90, builtins.int:130), list(builtins.int:130, '
                      'builtins.int:170), list(builtins.int:170, builtins.int:210), '
                      'list(builtins.int:210, builtins.int:250), list(builtins.int:250, '
                      'builtins.int:290)))',
 "lists|str:'0.1 GB'": 'list(numpy.int64(np.int64(7)), dict{builtins.int:0: '
                       "dict{builtins.str:'offset': builtins.int:10, builtins.str:'size': "
                       'builtins.int:280}}, builtins.str:"Array(url=\'image\', shape=[7, 20], '
                       'dtype=\'uint16\', records_per_chunk=np.int64(7))", '
                       'tuple(numpy.int64(np.int64(7)), builtins.int:20), builtins.int:2, '
                       'list(builtins.int:7, builtins.int:20), list(list(builtins.int:10, '
                       'builtins.int:50), list(builtins.int:50, builtins.int:90), '
                       'list(builtins.int:90, builtins.int:130), list(builtins.int:130, '
                       'builtins.int:170), list(builtins.int:170, builtins.int:210), '
                       'list(builtins.int:210, builtins.int:250), list(builtins.int:250, '
                       'builtins.int:290)))',
 "lists|str:'100'": 'list(numpy.int64(np.int64(2)), dict{builtins.int:0: '
                    "dict{builtins.str:'offset': builtins.int:10, builtins.str:'size': "
                    "builtins.int:80}, builtins.int:1: dict{builtins.str:'offset': "
                    "builtins.int:90, builtins.str:'size': builtins.int:80}, builtins.int:2: "
                    "dict{builtins.str:'offset': builtins.int:170, builtins.str:'size': "
                    "builtins.int:80}, builtins.int:3: dict{builtins.str:'offset': "
                    "builtins.int:250, builtins.str:'size': builtins.int:40}}, "
                    'builtins.str:"Array(url=\'image\', shape=[7, 20], dtype=\'uint16\', '
                    'records_per_chunk=np.int64(2))", tuple(numpy.int64(np.int64(2)), '
                    'builtins.int:20), builtins.int:2, list(builtins.int:7, builtins.int:20), '
                    'list(list(builtins.int:10, builtins.int:50), list(builtins.int:50, '
                    'builtins.int:90), list(builtins.int:90, builtins.int:130), '
                    'list(builtins.int:130, builtins.int:170), list(builtins.int:170, '
                    'builtins.int:210), list(builtins.int:210, builtins.int:250), '
                    'list(builtins.int:250, builtins.int:290)))',
 "lists|str:'1e2'": 'list(numpy.int64(np.int64(2)), dict{builtins.int:0: '
                    "dict{builtins.str:'offset': builtins.int:10, builtins.str:'size': "
                    "builtins.int:80}, builtins.int:1: dict{builtins.str:'offset': "
                    "builtins.int:90, builtins.str:'size': builtins.int:80}, builtins.int:2: "
                    "dict{builtins.str:'offset': builtins.int:170, builtins.str:'size': "
                    "builtins.int:80}, builtins.int:3: dict{builtins.str:'offset': "
                    "builtins.int:250, builtins.str:'size': builtins.int:40}}, "
                    'builtins.str:"Array(url=\'image\', shape=[7, 20], dtype=\'uint16\', '
                    'records_per_chunk=np.int64(2))", tuple(numpy.int64(np.int64(2)), '
                    'builtins.int:20), builtins.int:2, list(builtins.int:7, builtins.int:20), '
                    'list(list(builtins.int:10, builtins.int:50), list(builtins.int:50, '
                    'builtins.int:90), list(builtins.int:90, builtins.int:130), '
                    'list(builtins.int:130, builtins.int:170), list(builtins.int:170, '
                    'builtins.int:210), list(builtins.int:210, builtins.int:250), '
                    'list(builtins.int:250, builtins.int:290)))',
 "lists|str:'kB'": 'list(numpy.int64(np.int64(7)), dict{builtins.int:0: '
                   "dict{builtins.str:'offset': builtins.int:10, builtins.str:'size': "
                   'builtins.int:280}}, builtins.str:"Array(url=\'image\', shape=[7, 20], '
                   'dtype=\'uint16\', records_per_chunk=np.int64(7))", '
                   'tuple(numpy.int64(np.int64(7)), builtins.int:20), builtins.int:2, '
                   'list(builtins.int:7, builtins.int:20), list(list(builtins.int:10, '
                   'builtins.int:50), list(builtins.int:50, builtins.int:90), '
                   'list(builtins.int:90, builtins.int:130), list(builtins.int:130, '
                   'builtins.int:170), list(builtins.int:170, builtins.int:210), '
                   'list(builtins.int:210, builtins.int:250), list(builtins.int:250, '
                   'builtins.int:290)))',
 "lists|str:''": "list(numpy.int64(np.int64(1)), dict{builtins.int:0: dict{builtins.str:'offset': "
                 "builtins.int:10, builtins.str:'size': builtins.int:40}, builtins.int:1: "
                 "dict{builtins.str:'offset': builtins.int:50, builtins.str:'size': "
                 "builtins.int:40}, builtins.int:2: dict{builtins.str:'offset': builtins.int:90, "
                 "builtins.str:'size': builtins.int:40}, builtins.int:3: "
                 "dict{builtins.str:'offset': builtins.int:130, builtins.str:'size': "
                 "builtins.int:40}, builtins.int:4: dict{builtins.str:'offset': builtins.int:170, "
                 "builtins.str:'size': builtins.int:40}, builtins.int:5: "
                 "dict{builtins.str:'offset': builtins.int:210, builtins.str:'size': "
                 "builtins.int:40}, builtins.int:6: dict{builtins.str:'offset': builtins.int:250, "
                 'builtins.str:\'size\': builtins.int:40}}, builtins.str:"Array(url=\'image\', '
                 'shape=[7, 20], dtype=\'uint16\', records_per_chunk=np.int64(1))", '
                 'tuple(numpy.int64(np.int64(1)), builtins.int:20), builtins.int:2, '
                 'list(builtins.int:7, builtins.int:20), list(list(builtins.int:10, '
                 'builtins.int:50), list(builtins.int:50, builtins.int:90), list(builtins.int:90, '
                 'builtins.int:130), list(builtins.int:130, builtins.int:170), '
                 'list(builtins.int:170, builtins.int:210), list(builtins.int:210, '
                 'builtins.int:250), list(builtins.int:250, builtins.int:290)))',
 "lists|str:'5 foos'": "raise builtins.ValueError: Could not interpret 'foos' as a byte unit",
 "lists|str:'abc'": "raise builtins.ValueError: Could not interpret 'abc' as a byte unit",
 "lists|str:'AUTO'": "raise builtins.ValueError: Could not interpret 'AUTO' as a byte unit",
 "lists|str:' auto'": "raise builtins.ValueError: Could not interpret 'auto' as a byte unit",
 "lists|Text:'auto'": 'list(numpy.int64(np.int64(7)), dict{builtins.int:0: '
                      "dict{builtins.str:'offset': builtins.int:10, builtins.str:'size': "
                      'builtins.int:280}}, builtins.str:"Array(url=\'image\', shape=[7, 20], '
                      'dtype=\'uint16\', records_per_chunk=np.int64(7))", '
                      'tuple(numpy.int64(np.int64(7)), builtins.int:20), builtins.int:2, '
                      'list(builtins.int:7, builtins.int:20), list(list(builtins.int:10, '
                      'builtins.int:50), list(builtins.int:50, builtins.int:90), '
                      'list(builtins.int:90, builtins.int:130), list(builtins.int:130, '
                      'builtins.int:170), list(builtins.int:170, builtins.int:210), '
                      'list(builtins.int:210, builtins.int:250), list(builtins.int:250, '
                      'builtins.int:290)))',
 "lists|Text:'160B'": 'list(numpy.int64(np.int64(4)), dict{builtins.int:0: '
                      "dict{builtins.str:'offset': builtins.int:10, builtins.str:'size': "
                      "builtins.int:160}, builtins.int:1: dict{builtins.str:'offset': "
                      "builtins.int:170, builtins.str:'size': builtins.int:120}}, "
                      'builtins.str:"Array(url=\'image\', shape=[7, 20], dtype=\'uint16\', '
                      'records_per_chunk=np.int64(4))", tuple(numpy.int64(np.int64(4)), '
                      'builtins.int:20), builtins.int:2, list(builtins.int:7, builtins.int:20), '
                      'list(list(builtins.int:10, builtins.int:50), list(builtins.int:50, '
                      'builtins.int:90), list(builtins.int:90, builtins.int:130), '
                      'list(builtins.int:130, builtins.int:170), list(builtins.int:170, '
                      'builtins.int:210), list(builtins.int:210, builtins.int:250), '
                      'list(builtins.int:250, builtins.int:290)))',
 'lists|int:-1': "list(builtins.int:7, dict{builtins.int:0: dict{builtins.str:'offset': "
                 "builtins.int:10, builtins.str:'size': builtins.int:280}}, "
                 'builtins.str:"Array(url=\'image\', shape=[7, 20], dtype=\'uint16\', '
                 'records_per_chunk=7)", tuple(builtins.int:7, builtins.int:20), builtins.int:2, '
                 'list(builtins.int:7, builtins.int:20), list(list(builtins.int:10, '
                 'builtins.int:50), list(builtins.int:50, builtins.int:90), list(builtins.int:90, '
                 'builtins.int:130), list(builtins.int:130, builtins.int:170), '
                 'list(builtins.int:170, builtins.int:210), list(builtins.int:210, '
                 'builtins.int:250), list(builtins.int:250, builtins.int:290)))',
 'lists|int:0': 'list(builtins.int:0, dict{}, builtins.str:"Array(url=\'image\', shape=[7, 20], '
                'dtype=\'uint16\', records_per_chunk=0)", tuple(builtins.int:0, builtins.int:20), '
                'builtins.int:2, list(builtins.int:7, builtins.int:20), list(list(builtins.int:10, '
                'builtins.int:50), list(builtins.int:50, builtins.int:90), list(builtins.int:90, '
                'builtins.int:130), list(builtins.int:130, builtins.int:170), '
                'list(builtins.int:170, builtins.int:210), list(builtins.int:210, '
                'builtins.int:250), list(builtins.int:250, builtins.int:290)))',
 'lists|int:1': "list(builtins.int:1, dict{builtins.int:0: dict{builtins.str:'offset': "
                "builtins.int:10, builtins.str:'size': builtins.int:40}, builtins.int:1: "
                "dict{builtins.str:'offset': builtins.int:50, builtins.str:'size': "
                "builtins.int:40}, builtins.int:2: dict{builtins.str:'offset': builtins.int:90, "
                "builtins.str:'size': builtins.int:40}, builtins.int:3: "
                "dict{builtins.str:'offset': builtins.int:130, builtins.str:'size': "
                "builtins.int:40}, builtins.int:4: dict{builtins.str:'offset': builtins.int:170, "
                "builtins.str:'size': builtins.int:40}, builtins.int:5: "
                "dict{builtins.str:'offset': builtins.int:210, builtins.str:'size': "
                "builtins.int:40}, builtins.int:6: dict{builtins.str:'offset': builtins.int:250, "
                'builtins.str:\'size\': builtins.int:40}}, builtins.str:"Array(url=\'image\', '
                'shape=[7, 20], dtype=\'uint16\', records_per_chunk=1)", tuple(builtins.int:1, '
                'builtins.int:20), builtins.int:2, list(builtins.int:7, builtins.int:20), '
                'list(list(builtins.int:10, builtins.int:50), list(builtins.int:50, '
                'builtins.int:90), list(builtins.int:90, builtins.int:130), list(builtins.int:130, '
                'builtins.int:170), list(builtins.int:170, builtins.int:210), '
                'list(builtins.int:210, builtins.int:250), list(builtins.int:250, '
                'builtins.int:290)))',
 'lists|int:2': "list(builtins.int:2, dict{builtins.int:0: dict{builtins.str:'offset': "
                "builtins.int:10, builtins.str:'size': builtins.int:80}, builtins.int:1: "
                "dict{builtins.str:'offset': builtins.int:90, builtins.str:'size': "
                "builtins.int:80}, builtins.int:2: dict{builtins.str:'offset': builtins.int:170, "
                "builtins.str:'size': builtins.int:80}, builtins.int:3: "
                "dict{builtins.str:'offset': builtins.int:250, builtins.str:'size': "
                'builtins.int:40}}, builtins.str:"Array(url=\'image\', shape=[7, 20], '
                'dtype=\'uint16\', records_per_chunk=2)", tuple(builtins.int:2, builtins.int:20), '
                'builtins.int:2, list(builtins.int:7, builtins.int:20), list(list(builtins.int:10, '
                'builtins.int:50), list(builtins.int:50, builtins.int:90), list(builtins.int:90, '
                'builtins.int:130), list(builtins.int:130, builtins.int:170), '
                'list(builtins.int:170, builtins.int:210), list(builtins.int:210, '
                'builtins.int:250), list(builtins.int:250, builtins.int:290)))',
 'lists|int:3': "list(builtins.int:3, dict{builtins.int:0: dict{builtins.str:'offset': "
                "builtins.int:10, builtins.str:'size': builtins.int:120}, builtins.int:1: "
                "dict{builtins.str:'offset': builtins.int:130, builtins.str:'size': "
                "builtins.int:120}, builtins.int:2: dict{builtins.str:'offset': builtins.int:250, "
                'builtins.str:\'size\': builtins.int:40}}, builtins.str:"Array(url=\'image\', '
                'shape=[7, 20], dtype=\'uint16\', records_per_chunk=3)", tuple(builtins.int:3, '
                'builtins.int:20), builtins.int:2, list(builtins.int:7, builtins.int:20), '
                'list(list(builtins.int:10, builtins.int:50), list(builtins.int:50, '
                'builtins.int:90), list(builtins.int:90, builtins.int:130), list(builtins.int:130, '
                'builtins.int:170), list(builtins.int:170, builtins.int:210), '
                'list(builtins.int:210, builtins.int:250), list(builtins.int:250, '
                'builtins.int:290)))',
 'lists|int:4': "list(builtins.int:4, dict{builtins.int:0: dict{builtins.str:'offset': "
                "builtins.int:10, builtins.str:'size': builtins.int:160}, builtins.int:1: "
                "dict{builtins.str:'offset': builtins.int:170, builtins.str:'size': "
                'builtins.int:120}}, builtins.str:"Array(url=\'image\', shape=[7, 20], '
                'dtype=\'uint16\', records_per_chunk=4)", tuple(builtins.int:4, builtins.int:20), '
                'builtins.int:2, list(builtins.int:7, builtins.int:20), list(list(builtins.int:10, '
                'builtins.int:50), list(builtins.int:50, builtins.int:90), list(builtins.int:90, '
                'builtins.int:130), list(builtins.int:130, builtins.int:170), '
                'list(builtins.int:170, builtins.int:210), list(builtins.int:210, '
                'builtins.int:250), list(builtins.int:250, builtins.int:290)))',
 'lists|int:5': "list(builtins.int:5, dict{builtins.int:0: dict{builtins.str:'offset': "
                "builtins.int:10, builtins.str:'size': builtins.int:200}, builtins.int:1: "
                "dict{builtins.str:'offset': builtins.int:210, builtins.str:'size': "
                'builtins.int:80}}, builtins.str:"Array(url=\'image\', shape=[7, 20], '
                'dtype=\'uint16\', records_per_chunk=5)", tuple(builtins.int:5, builtins.int:20), '
                'builtins.int:2, list(builtins.int:7, builtins.int:20), list(list(builtins.int:10, '
                'builtins.int:50), list(builtins.int:50, builtins.int:90), list(builtins.int:90, '
                'builtins.int:130), list(builtins.int:130, builtins.int:170), '
                'list(builtins.int:170, builtins.int:210), list(builtins.int:210, '
                'builtins.int:250), list(builtins.int:250, builtins.int:290)))',
 'lists|int:6': "list(builtins.int:6, dict{builtins.int:0: dict{builtins.str:'offset': "
                "builtins.int:10, builtins.str:'size': builtins.int:240}, builtins.int:1: "
                "dict{builtins.str:'offset': builtins.int:250, builtins.str:'size': "
                'builtins.int:40}}, builtins.str:"Array(url=\'image\', shape=[7, 20], '
                'dtype=\'uint16\', records_per_chunk=6)", tuple(builtins.int:6, builtins.int:20), '
                'builtins.int:2, list(builtins.int:7, builtins.int:20), list(list(builtins.int:10, '
                'builtins.int:50), list(builtins.int:50, builtins.int:90), list(builtins.int:90, '
                'builtins.int:130), list(builtins.int:130, builtins.int:170), '
                'list(builtins.int:170, builtins.int:210), list(builtins.int:210, '
                'builtins.int:250), list(builtins.int:250, builtins.int:290)))',
 'lists|int:7': "list(builtins.int:7, dict{builtins.int:0: dict{builtins.str:'offset': "
                "builtins.int:10, builtins.str:'size': builtins.int:280}}, "
                'builtins.str:"Array(url=\'image\', shape=[7, 20], dtype=\'uint16\', '
                'records_per_chunk=7)", tuple(builtins.int:7, builtins.int:20), builtins.int:2, '
                'list(builtins.int:7, builtins.int:20), list(list(builtins.int:10, '
                'builtins.int:50), list(builtins.int:50, builtins.int:90), list(builtins.int:90, '
                'builtins.int:130), list(builtins.int:130, builtins.int:170), '
                'list(builtins.int:170, builtins.int:210), list(builtins.int:210, '
                'builtins.int:250), list(builtins.int:250, builtins.int:290)))',
 'lists|int:8': "list(builtins.int:7, dict{builtins.int:0: dict{builtins.str:'offset': "
                "builtins.int:10, builtins.str:'size': builtins.int:280}}, "
                'builtins.str:"Array(url=\'image\', shape=[7, 20], dtype=\'uint16\', '
                'records_per_chunk=7)", tuple(builtins.int:7, builtins.int:20), builtins.int:2, '
                'list(builtins.int:7, builtins.int:20), list(list(builtins.int:10, '
                'builtins.int:50), list(builtins.int:50, builtins.int:90), list(builtins.int:90, '
                'builtins.int:130), list(builtins.int:130, builtins.int:170), '
                'list(builtins.int:170, builtins.int:210), list(builtins.int:210, '
                'builtins.int:250), list(builtins.int:250, builtins.int:290)))',
 'lists|int:1024': "list(builtins.int:7, dict{builtins.int:0: dict{builtins.str:'offset': "
                   "builtins.int:10, builtins.str:'size': builtins.int:280}}, "
                   'builtins.str:"Array(url=\'image\', shape=[7, 20], dtype=\'uint16\', '
                   'records_per_chunk=7)", tuple(builtins.int:7, builtins.int:20), builtins.int:2, '
                   'list(builtins.int:7, builtins.int:20), list(list(builtins.int:10, '
                   'builtins.int:50), list(builtins.int:50, builtins.int:90), '
                   'list(builtins.int:90, builtins.int:130), list(builtins.int:130, '
                   'builtins.int:170), list(builtins.int:170, builtins.int:210), '
                   'list(builtins.int:210, builtins.int:250), list(builtins.int:250, '
                   'builtins.int:290)))',
 'lists|int:-2': 'list(builtins.int:-2, dict{}, builtins.str:"Array(url=\'image\', shape=[7, 20], '
                 'dtype=\'uint16\', records_per_chunk=-2)", tuple(builtins.int:-2, '
                 'builtins.int:20), builtins.int:2, list(builtins.int:7, builtins.int:20), '
                 'list(list(builtins.int:10, builtins.int:50), list(builtins.int:50, '
                 'builtins.int:90), list(builtins.int:90, builtins.int:130), '
                 'list(builtins.int:130, builtins.int:170), list(builtins.int:170, '
                 'builtins.int:210), list(builtins.int:210, builtins.int:250), '
                 'list(builtins.int:250, builtins.int:290)))',
 'lists|bool:True': "list(builtins.bool:True, dict{builtins.int:0: dict{builtins.str:'offset': "
                    "builtins.int:10, builtins.str:'size': builtins.int:40}, builtins.int:1: "
                    "dict{builtins.str:'offset': builtins.int:50, builtins.str:'size': "
                    "builtins.int:40}, builtins.int:2: dict{builtins.str:'offset': "
                    "builtins.int:90, builtins.str:'size': builtins.int:40}, builtins.int:3: "
                    "dict{builtins.str:'offset': builtins.int:130, builtins.str:'size': "
                    "builtins.int:40}, builtins.int:4: dict{builtins.str:'offset': "
                    "builtins.int:170, builtins.str:'size': builtins.int:40}, builtins.int:5: "
                    "dict{builtins.str:'offset': builtins.int:210, builtins.str:'size': "
                    "builtins.int:40}, builtins.int:6: dict{builtins.str:'offset': "
                    "builtins.int:250, builtins.str:'size': builtins.int:40}}, "
                    'builtins.str:"Array(url=\'image\', shape=[7, 20], dtype=\'uint16\', '
                    'records_per_chunk=True)", tuple(builtins.bool:True, builtins.int:20), '
                    'builtins.int:2, list(builtins.int:7, builtins.int:20), '
                    'list(list(builtins.int:10, builtins.int:50), list(builtins.int:50, '
                    'builtins.int:90), list(builtins.int:90, builtins.int:130), '
                    'list(builtins.int:130, builtins.int:170), list(builtins.int:170, '
                    'builtins.int:210), list(builtins.int:210, builtins.int:250), '
                    'list(builtins.int:250, builtins.int:290)))',
 'lists|bool:False': 'list(builtins.bool:False, dict{}, builtins.str:"Array(url=\'image\', '
                     'shape=[7, 20], dtype=\'uint16\', records_per_chunk=False)", '
                     'tuple(builtins.bool:False, builtins.int:20), builtins.int:2, '
                     'list(builtins.int:7, builtins.int:20), list(list(builtins.int:10, '
                     'builtins.int:50), list(builtins.int:50, builtins.int:90), '
                     'list(builtins.int:90, builtins.int:130), list(builtins.int:130, '
                     'builtins.int:170), list(builtins.int:170, builtins.int:210), '
                     'list(builtins.int:210, builtins.int:250), list(builtins.int:250, '
                     'builtins.int:290)))',
 'lists|int64:np.int64(3)': 'list(numpy.int64(np.int64(3)), dict{builtins.int:0: '
                            "dict{builtins.str:'offset': builtins.int:10, builtins.str:'size': "
                            "builtins.int:120}, builtins.int:1: dict{builtins.str:'offset': "
                            "builtins.int:130, builtins.str:'size': builtins.int:120}, "
                            "builtins.int:2: dict{builtins.str:'offset': builtins.int:250, "
                            "builtins.str:'size': builtins.int:40}}, "
                            'builtins.str:"Array(url=\'image\', shape=[7, 20], dtype=\'uint16\', '
                            'records_per_chunk=np.int64(3))", tuple(numpy.int64(np.int64(3)), '
                            'builtins.int:20), builtins.int:2, list(builtins.int:7, '
                            'builtins.int:20), list(list(builtins.int:10, builtins.int:50), '
                            'list(builtins.int:50, builtins.int:90), list(builtins.int:90, '
                            'builtins.int:130), list(builtins.int:130, builtins.int:170), '
                            'list(builtins.int:170, builtins.int:210), list(builtins.int:210, '
                            'builtins.int:250), list(builtins.int:250, builtins.int:290)))',
 'lists|int64:np.int64(-1)': 'list(builtins.int:7, dict{builtins.int:0: '
                             "dict{builtins.str:'offset': builtins.int:10, builtins.str:'size': "
                             'builtins.int:280}}, builtins.str:"Array(url=\'image\', shape=[7, '
                             '20], dtype=\'uint16\', records_per_chunk=7)", tuple(builtins.int:7, '
                             'builtins.int:20), builtins.int:2, list(builtins.int:7, '
                             'builtins.int:20), list(list(builtins.int:10, builtins.int:50), '
                             'list(builtins.int:50, builtins.int:90), list(builtins.int:90, '
                             'builtins.int:130), list(builtins.int:130, builtins.int:170), '
                             'list(builtins.int:170, builtins.int:210), list(builtins.int:210, '
                             'builtins.int:250), list(builtins.int:250, builtins.int:290)))',
 'lists|int64:np.int64(1000000)': 'list(builtins.int:7, dict{builtins.int:0: '
                                  "dict{builtins.str:'offset': builtins.int:10, "
                                  "builtins.str:'size': builtins.int:280}}, "
                                  'builtins.str:"Array(url=\'image\', shape=[7, 20], '
                                  'dtype=\'uint16\', records_per_chunk=7)", tuple(builtins.int:7, '
                                  'builtins.int:20), builtins.int:2, list(builtins.int:7, '
                                  'builtins.int:20), list(list(builtins.int:10, builtins.int:50), '
                                  'list(builtins.int:50, builtins.int:90), list(builtins.int:90, '
                                  'builtins.int:130), list(builtins.int:130, builtins.int:170), '
                                  'list(builtins.int:170, builtins.int:210), '
                                  'list(builtins.int:210, builtins.int:250), '
                                  'list(builtins.int:250, builtins.int:290)))',
 'lists|float:2.0': "raise builtins.TypeError: can't multiply sequence by non-int of type 'float'",
 'lists|float:2.5': "raise builtins.TypeError: can't multiply sequence by non-int of type 'float'",
 'lists|float:-1.0': "list(builtins.int:7, dict{builtins.int:0: dict{builtins.str:'offset': "
                     "builtins.int:10, builtins.str:'size': builtins.int:280}}, "
                     'builtins.str:"Array(url=\'image\', shape=[7, 20], dtype=\'uint16\', '
                     'records_per_chunk=7)", tuple(builtins.int:7, builtins.int:20), '
                     'builtins.int:2, list(builtins.int:7, builtins.int:20), '
                     'list(list(builtins.int:10, builtins.int:50), list(builtins.int:50, '
                     'builtins.int:90), list(builtins.int:90, builtins.int:130), '
                     'list(builtins.int:130, builtins.int:170), list(builtins.int:170, '
                     'builtins.int:210), list(builtins.int:210, builtins.int:250), '
                     'list(builtins.int:250, builtins.int:290)))',
 'lists|float:nan': "raise builtins.TypeError: can't multiply sequence by non-int of type 'float'",
 'lists|float:inf': "list(builtins.int:7, dict{builtins.int:0: dict{builtins.str:'offset': "
                    "builtins.int:10, builtins.str:'size': builtins.int:280}}, "
                    'builtins.str:"Array(url=\'image\', shape=[7, 20], dtype=\'uint16\', '
                    'records_per_chunk=7)", tuple(builtins.int:7, builtins.int:20), '
                    'builtins.int:2, list(builtins.int:7, builtins.int:20), '
                    'list(list(builtins.int:10, builtins.int:50), list(builtins.int:50, '
                    'builtins.int:90), list(builtins.int:90, builtins.int:130), '
                    'list(builtins.int:130, builtins.int:170), list(builtins.int:170, '
                    'builtins.int:210), list(builtins.int:210, builtins.int:250), '
                    'list(builtins.int:250, builtins.int:290)))',
 "lists|bytes:b'auto'": "raise builtins.TypeError: '>' not supported between instances of 'bytes' "
                        "and 'int'",
 'lists|list:[2]': "raise builtins.TypeError: '>' not supported between instances of 'list' and "
                   "'int'",
 'lists|tuple:(2,)': "raise builtins.TypeError: '>' not supported between instances of 'tuple' and "
                     "'int'",
 'lists|dict:{}': "raise builtins.TypeError: '>' not supported between instances of 'dict' and "
                  "'int'",
 'lists|complex:(1+0j)': "raise builtins.TypeError: '>' not supported between instances of "
                         "'complex' and 'int'",
 "1d|str:'<omitted>'": "list(builtins.int:1024, dict{builtins.int:0: dict{builtins.str:'offset': "
                       "builtins.int:10, builtins.str:'size': builtins.int:280}}, "
                       'builtins.str:"Array(url=\'image\', shape=(7,), dtype=\'uint16\', '
                       'records_per_chunk=1024)", tuple(builtins.int:1024), builtins.int:1, '
                       'tuple(builtins.int:7), list(tuple(builtins.int:10, builtins.int:50), '
                       'tuple(builtins.int:50, builtins.int:90), tuple(builtins.int:90, '
                       'builtins.int:130), tuple(builtins.int:130, builtins.int:170), '
                       'tuple(builtins.int:170, builtins.int:210), tuple(builtins.int:210, '
                       'builtins.int:250), tuple(builtins.int:250, builtins.int:290)))',
 '1d|NoneType:None': "list(builtins.int:1024, dict{builtins.int:0: dict{builtins.str:'offset': "
                     "builtins.int:10, builtins.str:'size': builtins.int:280}}, "
                     'builtins.str:"Array(url=\'image\', shape=(7,), dtype=\'uint16\', '
                     'records_per_chunk=1024)", tuple(builtins.int:1024), builtins.int:1, '
                     'tuple(builtins.int:7), list(tuple(builtins.int:10, builtins.int:50), '
                     'tuple(builtins.int:50, builtins.int:90), tuple(builtins.int:90, '
                     'builtins.int:130), tuple(builtins.int:130, builtins.int:170), '
                     'tuple(builtins.int:170, builtins.int:210), tuple(builtins.int:210, '
                     'builtins.int:250), tuple(builtins.int:250, builtins.int:290)))',
 "1d|str:'auto'": "list(numpy.int64(np.int64(7)), dict{builtins.int:0: dict{builtins.str:'offset': "
                  "builtins.int:10, builtins.str:'size': builtins.int:280}}, "
                  'builtins.str:"Array(url=\'image\', shape=(7,), dtype=\'uint16\', '
                  'records_per_chunk=np.int64(7))", tuple(numpy.int64(np.int64(7))), '
                  'builtins.int:1, tuple(builtins.int:7), list(tuple(builtins.int:10, '
                  'builtins.int:50), tuple(builtins.int:50, builtins.int:90), '
                  'tuple(builtins.int:90, builtins.int:130), tuple(builtins.int:130, '
                  'builtins.int:170), tuple(builtins.int:170, builtins.int:210), '
                  'tuple(builtins.int:210, builtins.int:250), tuple(builtins.int:250, '
                  'builtins.int:290)))',
 "1d|str:'80B'": "list(numpy.int64(np.int64(2)), dict{builtins.int:0: dict{builtins.str:'offset': "
                 "builtins.int:10, builtins.str:'size': builtins.int:80}, builtins.int:1: "
                 "dict{builtins.str:'offset': builtins.int:90, builtins.str:'size': "
                 "builtins.int:80}, builtins.int:2: dict{builtins.str:'offset': builtins.int:170, "
                 "builtins.str:'size': builtins.int:80}, builtins.int:3: "
                 "dict{builtins.str:'offset': builtins.int:250, builtins.str:'size': "
                 'builtins.int:40}}, builtins.str:"Array(url=\'image\', shape=(7,), '
                 'dtype=\'uint16\', records_per_chunk=np.int64(2))", '
                 'tuple(numpy.int64(np.int64(2))), builtins.int:1, tuple(builtins.int:7), '
                 'list(tuple(builtins.int:10, builtins.int:50), tuple(builtins.int:50, '
                 'builtins.int:90), tuple(builtins.int:90, builtins.int:130), '
                 'tuple(builtins.int:130, builtins.int:170), tuple(builtins.int:170, '
                 'builtins.int:210), tuple(builtins.int:210, builtins.int:250), '
                 'tuple(builtins.int:250, builtins.int:290)))',
 "1d|str:'81B'": "list(numpy.int64(np.int64(2)), dict{builtins.int:0: dict{builtins.str:'offset': "
                 "builtins.int:10, builtins.str:'size': builtins.int:80}, builtins.int:1: "
                 "dict{builtins.str:'offset': builtins.int:90, builtins.str:'size': "
                 "builtins.int:80}, builtins.int:2: dict{builtins.str:'offset': builtins.int:170, "
                 "builtins.str:'size': builtins.int:80}, builtins.int:3: "
                 "dict{builtins.str:'offset': builtins.int:250, builtins.str:'size': "
                 'builtins.int:40}}, builtins.str:"Array(url=\'image\', shape=(7,), '
                 'dtype=\'uint16\', records_per_chunk=np.int64(2))", '
                 'tuple(numpy.int64(np.int64(2))), builtins.int:1, tuple(builtins.int:7), '
                 'list(tuple(builtins.int:10, builtins.int:50), tuple(builtins.int:50, '
                 'builtins.int:90), tuple(builtins.int:90, builtins.int:130), '
                 'tuple(builtins.int:130, builtins.int:170), tuple(builtins.int:170, '
                 'builtins.int:210), tuple(builtins.int:210, builtins.int:250), '
                 'tuple(builtins.int:250, builtins.int:290)))',
 "1d|str:'100B'": "list(numpy.int64(np.int64(2)), dict{builtins.int:0: dict{builtins.str:'offset': "
                  "builtins.int:10, builtins.str:'size': builtins.int:80}, builtins.int:1: "
                  "dict{builtins.str:'offset': builtins.int:90, builtins.str:'size': "
                  "builtins.int:80}, builtins.int:2: dict{builtins.str:'offset': builtins.int:170, "
                  "builtins.str:'size': builtins.int:80}, builtins.int:3: "
                  "dict{builtins.str:'offset': builtins.int:250, builtins.str:'size': "
                  'builtins.int:40}}, builtins.str:"Array(url=\'image\', shape=(7,), '
                  'dtype=\'uint16\', records_per_chunk=np.int64(2))", '
                  'tuple(numpy.int64(np.int64(2))), builtins.int:1, tuple(builtins.int:7), '
                  'list(tuple(builtins.int:10, builtins.int:50), tuple(builtins.int:50, '
                  'builtins.int:90), tuple(builtins.int:90, builtins.int:130), '
                  'tuple(builtins.int:130, builtins.int:170), tuple(builtins.int:170, '
                  'builtins.int:210), tuple(builtins.int:210, builtins.int:250), '
                  'tuple(builtins.int:250, builtins.int:290)))',
 "1d|str:'119B'": "list(numpy.int64(np.int64(3)), dict{builtins.int:0: dict{builtins.str:'offset': "
                  "builtins.int:10, builtins.str:'size': builtins.int:120}, builtins.int:1: "
                  "dict{builtins.str:'offset': builtins.int:130, builtins.str:'size': "
                  "builtins.int:120}, builtins.int:2: dict{builtins.str:'offset': "
                  "builtins.int:250, builtins.str:'size': builtins.int:40}}, "
                  'builtins.str:"Array(url=\'image\', shape=(7,), dtype=\'uint16\', '
                  'records_per_chunk=np.int64(3))", tuple(numpy.int64(np.int64(3))), '
                  'builtins.int:1, tuple(builtins.int:7), list(tuple(builtins.int:10, '
                  'builtins.int:50), tuple(builtins.int:50, builtins.int:90), '
                  'tuple(builtins.int:90, builtins.int:130), tuple(builtins.int:130, '
                  'builtins.int:170), tuple(builtins.int:170, builtins.int:210), '
                  'tuple(builtins.int:210, builtins.int:250), tuple(builtins.int:250, '
                  'builtins.int:290)))',
 "1d|str:'120B'": "list(numpy.int64(np.int64(3)), dict{builtins.int:0: dict{builtins.str:'offset': "
                  "builtins.int:10, builtins.str:'size': builtins.int:120}, builtins.int:1: "
                  "dict{builtins.str:'offset': builtins.int:130, builtins.str:'size': "
                  "builtins.int:120}, builtins.int:2: dict{builtins.str:'offset': "
                  "builtins.int:250, builtins.str:'size': builtins.int:40}}, "
                  'builtins.str:"Array(url=\'image\', shape=(7,), dtype=\'uint16\', '
                  'records_per_chunk=np.int64(3))", tuple(numpy.int64(np.int64(3))), '
                  'builtins.int:1, tuple(builtins.int:7), list(tuple(builtins.int:10, '
                  'builtins.int:50), tuple(builtins.int:50, builtins.int:90), '
                  'tuple(builtins.int:90, builtins.int:130), tuple(builtins.int:130, '
                  'builtins.int:170), tuple(builtins.int:170, builtins.int:210), '
                  'tuple(builtins.int:210, builtins.int:250), tuple(builtins.int:250, '
                  'builtins.int:290)))',
 "1d|str:'121B'": "list(numpy.int64(np.int64(3)), dict{builtins.int:0: dict{builtins.str:'offset': "
                  "builtins.int:10, builtins.str:'size': builtins.int:120}, builtins.int:1: "
                  "dict{builtins.str:'offset': builtins.int:130, builtins.str:'size': "
                  "builtins.int:120}, builtins.int:2: dict{builtins.str:'offset': "
                  "builtins.int:250, builtins.str:'size': builtins.int:40}}, "
                  'builtins.str:"Array(url=\'image\', shape=(7,), dtype=\'uint16\', '
                  'records_per_chunk=np.int64(3))", tuple(numpy.int64(np.int64(3))), '
                  'builtins.int:1, tuple(builtins.int:7), list(tuple(builtins.int:10, '
                  'builtins.int:50), tuple(builtins.int:50, builtins.int:90), '
                  'tuple(builtins.int:90, builtins.int:130), tuple(builtins.int:130, '
                  'builtins.int:170), tuple(builtins.int:170, builtins.int:210), '
                  'tuple(builtins.int:210, builtins.int:250), tuple(builtins.int:250, '
                  'builtins.int:290)))',
 "1d|str:'0B'": "list(numpy.int64(np.int64(1)), dict{builtins.int:0: dict{builtins.str:'offset': "
                "builtins.int:10, builtins.str:'size': builtins.int:40}, builtins.int:1: "
                "dict{builtins.str:'offset': builtins.int:50, builtins.str:'size': "
                "builtins.int:40}, builtins.int:2: dict{builtins.str:'offset': builtins.int:90, "
                "builtins.str:'size': builtins.int:40}, builtins.int:3: "
                "dict{builtins.str:'offset': builtins.int:130, builtins.str:'size': "
                "builtins.int:40}, builtins.int:4: dict{builtins.str:'offset': builtins.int:170, "
                "builtins.str:'size': builtins.int:40}, builtins.int:5: "
                "dict{builtins.str:'offset': builtins.int:210, builtins.str:'size': "
                "builtins.int:40}, builtins.int:6: dict{builtins.str:'offset': builtins.int:250, "
                'builtins.str:\'size\': builtins.int:40}}, builtins.str:"Array(url=\'image\', '
                'shape=(7,), dtype=\'uint16\', records_per_chunk=np.int64(1))", '
                'tuple(numpy.int64(np.int64(1))), builtins.int:1, tuple(builtins.int:7), '
                'list(tuple(builtins.int:10, builtins.int:50), tuple(builtins.int:50, '
                'builtins.int:90), tuple(builtins.int:90, builtins.int:130), '
                'tuple(builtins.int:130, builtins.int:170), tuple(builtins.int:170, '
                'builtins.int:210), tuple(builtins.int:210, builtins.int:250), '
                'tuple(builtins.int:250, builtins.int:290)))',
 "1d|str:'1kB'": "list(numpy.int64(np.int64(7)), dict{builtins.int:0: dict{builtins.str:'offset': "
                 "builtins.int:10, builtins.str:'size': builtins.int:280}}, "
                 'builtins.str:"Array(url=\'image\', shape=(7,), dtype=\'uint16\', '
                 'records_per_chunk=np.int64(7))", tuple(numpy.int64(np.int64(7))), '
                 'builtins.int:1, tuple(builtins.int:7), list(tuple(builtins.int:10, '
                 'builtins.int:50), tuple(builtins.int:50, builtins.int:90), '
                 'tuple(builtins.int:90, builtins.int:130), tuple(builtins.int:130, '
                 'builtins.int:170), tuple(builtins.int:170, builtins.int:210), '
                 'tuple(builtins.int:210, builtins.int:250), tuple(builtins.int:250, '
                 'builtins.int:290)))',
 "1d|str:'1kiB'": "list(numpy.int64(np.int64(7)), dict{builtins.int:0: dict{builtins.str:'offset': "
                  "builtins.int:10, builtins.str:'size': builtins.int:280}}, "
                  'builtins.str:"Array(url=\'image\', shape=(7,), dtype=\'uint16\', '
                  'records_per_chunk=np.int64(7))", tuple(numpy.int64(np.int64(7))), '
                  'builtins.int:1, tuple(builtins.int:7), list(tuple(builtins.int:10, '
                  'builtins.int:50), tuple(builtins.int:50, builtins.int:90), '
                  'tuple(builtins.int:90, builtins.int:130), tuple(builtins.int:130, '
                  'builtins.int:170), tuple(builtins.int:170, builtins.int:210), '
                  'tuple(builtins.int:210, builtins.int:250), tuple(builtins.int:250, '
                  'builtins.int:290)))',
 "1d|str:'1 MiB'": 'list(numpy.int64(np.int64(7)), dict{builtins.int:0: '
                   "dict{builtins.str:'offset': builtins.int:10, builtins.str:'size': "
                   'builtins.int:280}}, builtins.str:"Array(url=\'image\', shape=(7,), '
                   'dtype=\'uint16\', records_per_chunk=np.int64(7))", '
                   'tuple(numpy.int64(np.int64(7))), builtins.int:1, tuple(builtins.int:7), '
                   'list(tuple(builtins.int:10, builtins.int:50), tuple(builtins.int:50, '
                   'builtins.int:90), tuple(builtins.int:90, builtins.int:130), '
                   'tuple(builtins.int:130, builtins.int:170), tuple(builtins.int:170, '
                   'builtins.int:210), tuple(builtins.int:210, builtins.int:250), '
                   'tuple(builtins.int:250, builtins.int:290)))',
 "1d|str:'95MiB'": 'list(numpy.int64(np.int64(7)), dict{builtins.int:0: '
                   "dict{builtins.str:'offset': builtins.int:10, builtins.str:'size': "
                   'builtins.int:280}}, builtins.str:"Array(url=\'image\', shape=(7,), '
                   'dtype=\'uint16\', records_per_chunk=np.int64(7))", '
                   'tuple(numpy.int64(np.int64(7))), builtins.int:1, tuple(builtins.int:7), '
                   'list(tuple(builtins.int:10, builtins.int:50), tuple(builtins.int:50, '
                   'builtins.int:90), tuple(builtins.int:90, builtins.int:130), '
                   'tuple(builtins.int:130, builtins.int:170), tuple(builtins.int:170, '
                   'builtins.int:210), tuple(builtins.int:210, builtins.int:250), '
                   'tuple(builtins.int:250, builtins.int:290)))',
 "1d|str:'0.1 GB'": 'list(numpy.int64(np.int64(7)), dict{builtins.int:0: '
                    "dict{builtins.str:'offset': builtins.int:10, builtins.str:'size': "
                    'builtins.int:280}}, builtins.str:"Array(url=\'image\', shape=(7,), '
                    'dtype=\'uint16\', records_per_chunk=np.int64(7))", '
                    'tuple(numpy.int64(np.int64(7))), builtins.int:1, tuple(builtins.int:7), '
                    'list(tuple(builtins.int:10, builtins.int:50), tuple(builtins.int:50, '
                    'builtins.int:90), tuple(builtins.int:90, builtins.int:130), '
                    'tuple(builtins.int:130, builtins.int:170), tuple(builtins.int:170, '
                    'builtins.int:210), tuple(builtins.int:210, builtins.int:250), '
                    'tuple(builtins.int:250, builtins.int:290)))',
 "1d|str:'100'": "list(numpy.int64(np.int64(2)), dict{builtins.int:0: dict{builtins.str:'offset': "
                 "builtins.int:10, builtins.str:'size': builtins.int:80}, builtins.int:1: "
                 "dict{builtins.str:'offset': builtins.int:90, builtins.str:'size': "
                 "builtins.int:80}, builtins.int:2: dict{builtins.str:'offset': builtins.int:170, "
                 "builtins.str:'size': builtins.int:80}, builtins.int:3: "
                 "dict{builtins.str:'offset': builtins.int:250, builtins.str:'size': "
                 'builtins.int:40}}, builtins.str:"Array(url=\'image\', shape=(7,), '
                 'dtype=\'uint16\', records_per_chunk=np.int64(2))", '
                 'tuple(numpy.int64(np.int64(2))), builtins.int:1, tuple(builtins.int:7), '
                 'list(tuple(builtins.int:10, builtins.int:50), tuple(builtins.int:50, '
                 'builtins.int:90), tuple(builtins.int:90, builtins.int:130), '
                 'tuple(builtins.int:130, builtins.int:170), tuple(builtins.int:170, '
                 'builtins.int:210), tuple(builtins.int:210, builtins.int:250), '
                 'tuple(builtins.int:250, builtins.int:290)))',
 "1d|str:'1e2'": "list(numpy.int64(np.int64(2)), dict{builtins.int:0: dict{builtins.str:'offset': "
                 "builtins.int:10, builtins.str:'size': builtins.int:80}, builtins.int:1: "
                 "dict{builtins.str:'offset': builtins.int:90, builtins.str:'size': "
                 "builtins.int:80}, builtins.int:2: dict{builtins.str:'offset': builtins.int:170, "
                 "builtins.str:'size': builtins.int:80}, builtins.int:3: "
                 "dict{builtins.str:'offset': builtins.int:250, builtins.str:'size': "
                 'builtins.int:40}}, builtins.str:"Array(url=\'image\', shape=(7,), '
                 'dtype=\'uint16\', records_per_chunk=np.int64(2))", '
                 'tuple(numpy.int64(np.int64(2))), builtins.int:1, tuple(builtins.int:7), '
                 'list(tuple(builtins.int:10, builtins.int:50), tuple(builtins.int:50, '
                 'builtins.int:90), tuple(builtins.int:90, builtins.int:130), '
                 'tuple(builtins.int:130, builtins.int:170), tuple(builtins.int:170, '
                 'builtins.int:210), tuple(builtins.int:210, builtins.int:250), '
                 'tuple(builtins.int:250, builtins.int:290)))',
 "1d|str:'kB'": "list(numpy.int64(np.int64(7)), dict{builtins.int:0: dict{builtins.str:'offset': "
                "builtins.int:10, builtins.str:'size': builtins.int:280}}, "
                'builtins.str:"Array(url=\'image\', shape=(7,), dtype=\'uint16\', '
                'records_per_chunk=np.int64(7))", tuple(numpy.int64(np.int64(7))), builtins.int:1, '
                'tuple(builtins.int:7), list(tuple(builtins.int:10, builtins.int:50), '
                'tuple(builtins.int:50, builtins.int:90), tuple(builtins.int:90, '
                'builtins.int:130), tuple(builtins.int:130, builtins.int:170), '
                'tuple(builtins.int:170, builtins.int:210), tuple(builtins.int:210, '
                'builtins.int:250), tuple(builtins.int:250, builtins.int:290)))',
 "1d|str:''": "list(numpy.int64(np.int64(1)), dict{builtins.int:0: dict{builtins.str:'offset': "
              "builtins.int:10, builtins.str:'size': builtins.int:40}, builtins.int:1: "
              "dict{builtins.str:'offset': builtins.int:50, builtins.str:'size': builtins.int:40}, "
              "builtins.int:2: dict{builtins.str:'offset': builtins.int:90, builtins.str:'size': "
              "builtins.int:40}, builtins.int:3: dict{builtins.str:'offset': builtins.int:130, "
              "builtins.str:'size': builtins.int:40}, builtins.int:4: dict{builtins.str:'offset': "
              "builtins.int:170, builtins.str:'size': builtins.int:40}, builtins.int:5: "
              "dict{builtins.str:'offset': builtins.int:210, builtins.str:'size': "
              "builtins.int:40}, builtins.int:6: dict{builtins.str:'offset': builtins.int:250, "
              'builtins.str:\'size\': builtins.int:40}}, builtins.str:"Array(url=\'image\', '
              'shape=(7,), dtype=\'uint16\', records_per_chunk=np.int64(1))", '
              'tuple(numpy.int64(np.int64(1))), builtins.int:1, tuple(builtins.int:7), '
              'list(tuple(builtins.int:10, builtins.int:50), tuple(builtins.int:50, '
              'builtins.int:90), tuple(builtins.int:90, builtins.int:130), tuple(builtins.int:130, '
              'builtins.int:170), tuple(builtins.int:170, builtins.int:210), '
              'tuple(builtins.int:210, builtins.int:250), tuple(builtins.int:250, '
              'builtins.int:290)))',
 "1d|str:'5 foos'": "raise builtins.ValueError: Could not interpret 'foos' as a byte unit",
 "1d|str:'abc'": "raise builtins.ValueError: Could not interpret 'abc' as a byte unit",
 "1d|str:'AUTO'": "raise builtins.ValueError: Could not interpret 'AUTO' as a byte unit",
 "1d|str:' auto'": "raise builtins.ValueError: Could not interpret 'auto' as a byte unit",
 "1d|Text:'auto'": 'list(numpy.int64(np.int64(7)), dict{builtins.int:0: '
                   "dict{builtins.str:'offset': builtins.int:10, builtins.str:'size': "
                   'builtins.int:280}}, builtins.str:"Array(url=\'image\', shape=(7,), '
                   'dtype=\'uint16\', records_per_chunk=np.int64(7))", '
                   'tuple(numpy.int64(np.int64(7))), builtins.int:1, tuple(builtins.int:7), '
                   'list(tuple(builtins.int:10, builtins.int:50), tuple(builtins.int:50, '
                   'builtins.int:90), tuple(builtins.int:90, builtins.int:130), '
                   'tuple(builtins.int:130, builtins.int:170), tuple(builtins.int:170, '
                   'builtins.int:210), tuple(builtins.int:210, builtins.int:250), '
                   'tuple(builtins.int:250, builtins.int:290)))',
 "1d|Text:'160B'": 'list(numpy.int64(np.int64(4)), dict{builtins.int:0: '
                   "dict{builtins.str:'offset': builtins.int:10, builtins.str:'size': "
                   "builtins.int:160}, builtins.int:1: dict{builtins.str:'offset': "
                   "builtins.int:170, builtins.str:'size': builtins.int:120}}, "
                   'builtins.str:"Array(url=\'image\', shape=(7,), dtype=\'uint16\', '
                   'records_per_chunk=np.int64(4))", tuple(numpy.int64(np.int64(4))), '
                   'builtins.int:1, tuple(builtins.int:7), list(tuple(builtins.int:10, '
                   'builtins.int:50), tuple(builtins.int:50, builtins.int:90), '
                   'tuple(builtins.int:90, builtins.int:130), tuple(builtins.int:130, '
                   'builtins.int:170), tuple(builtins.int:170, builtins.int:210), '
                   'tuple(builtins.int:210, builtins.int:250), tuple(builtins.int:250, '
                   'builtins.int:290)))',
 '1d|int:-1': "list(builtins.int:7, dict{builtins.int:0: dict{builtins.str:'offset': "
              "builtins.int:10, builtins.str:'size': builtins.int:280}}, "
              'builtins.str:"Array(url=\'image\', shape=(7,), dtype=\'uint16\', '
              'records_per_chunk=7)", tuple(builtins.int:7), builtins.int:1, '
              'tuple(builtins.int:7), list(tuple(builtins.int:10, builtins.int:50), '
              'tuple(builtins.int:50, builtins.int:90), tuple(builtins.int:90, builtins.int:130), '
              'tuple(builtins.int:130, builtins.int:170), tuple(builtins.int:170, '
              'builtins.int:210), tuple(builtins.int:210, builtins.int:250), '
              'tuple(builtins.int:250, builtins.int:290)))',
 '1d|int:0': 'list(builtins.int:0, dict{}, builtins.str:"Array(url=\'image\', shape=(7,), '
             'dtype=\'uint16\', records_per_chunk=0)", tuple(builtins.int:0), builtins.int:1, '
             'tuple(builtins.int:7), list(tuple(builtins.int:10, builtins.int:50), '
             'tuple(builtins.int:50, builtins.int:90), tuple(builtins.int:90, builtins.int:130), '
             'tuple(builtins.int:130, builtins.int:170), tuple(builtins.int:170, '
             'builtins.int:210), tuple(builtins.int:210, builtins.int:250), '
             'tuple(builtins.int:250, builtins.int:290)))',
 '1d|int:1': "list(builtins.int:1, dict{builtins.int:0: dict{builtins.str:'offset': "
             "builtins.int:10, builtins.str:'size': builtins.int:40}, builtins.int:1: "
             "dict{builtins.str:'offset': builtins.int:50, builtins.str:'size': builtins.int:40}, "
             "builtins.int:2: dict{builtins.str:'offset': builtins.int:90, builtins.str:'size': "
             "builtins.int:40}, builtins.int:3: dict{builtins.str:'offset': builtins.int:130, "
             "builtins.str:'size': builtins.int:40}, builtins.int:4: dict{builtins.str:'offset': "
             "builtins.int:170, builtins.str:'size': builtins.int:40}, builtins.int:5: "
             "dict{builtins.str:'offset': builtins.int:210, builtins.str:'size': builtins.int:40}, "
             "builtins.int:6: dict{builtins.str:'offset': builtins.int:250, builtins.str:'size': "
             'builtins.int:40}}, builtins.str:"Array(url=\'image\', shape=(7,), dtype=\'uint16\', '
             'records_per_chunk=1)", tuple(builtins.int:1), builtins.int:1, tuple(builtins.int:7), '
             'list(tuple(builtins.int:10, builtins.int:50), tuple(builtins.int:50, '
             'builtins.int:90), tuple(builtins.int:90, builtins.int:130), tuple(builtins.int:130, '
             'builtins.int:170), tuple(builtins.int:170, builtins.int:210), '
             'tuple(builtins.int:210, builtins.int:250), tuple(builtins.int:250, '
             'builtins.int:290)))',
 '1d|int:2': "list(builtins.int:2, dict{builtins.int:0: dict{builtins.str:'offset': "
             "builtins.int:10, builtins.str:'size': builtins.int:80}, builtins.int:1: "
             "dict{builtins.str:'offset': builtins.int:90, builtins.str:'size': builtins.int:80}, "
             "builtins.int:2: dict{builtins.str:'offset': builtins.int:170, builtins.str:'size': "
             "builtins.int:80}, builtins.int:3: dict{builtins.str:'offset': builtins.int:250, "
             'builtins.str:\'size\': builtins.int:40}}, builtins.str:"Array(url=\'image\', '
             'shape=(7,), dtype=\'uint16\', records_per_chunk=2)", tuple(builtins.int:2), '
             'builtins.int:1, tuple(builtins.int:7), list(tuple(builtins.int:10, builtins.int:50), '
             'tuple(builtins.int:50, builtins.int:90), tuple(builtins.int:90, builtins.int:130), '
             'tuple(builtins.int:130, builtins.int:170), tuple(builtins.int:170, '
             'builtins.int:210), tuple(builtins.int:210, builtins.int:250), '
             'tuple(builtins.int:250, builtins.int:290)))',
 '1d|int:3': "list(builtins.int:3, dict{builtins.int:0: dict{builtins.str:'offset': "
             "builtins.int:10, builtins.str:'size': builtins.int:120}, builtins.int:1: "
             "dict{builtins.str:'offset': builtins.int:130, builtins.str:'size': "
             "builtins.int:120}, builtins.int:2: dict{builtins.str:'offset': builtins.int:250, "
             'builtins.str:\'size\': builtins.int:40}}, builtins.str:"Array(url=\'image\', '
             'shape=(7,), dtype=\'uint16\', records_per_chunk=3)", tuple(builtins.int:3), '
             'builtins.int:1, tuple(builtins.int:7), list(tuple(builtins.int:10, builtins.int:50), '
             'tuple(builtins.int:50, builtins.int:90), tuple(builtins.int:90, builtins.int:130), '
             'tuple(builtins.int:130, builtins.int:170), tuple(builtins.int:170, '
             'builtins.int:210), tuple(builtins.int:210, builtins.int:250), '
             'tuple(builtins.int:250, builtins.int:290)))',
 '1d|int:4': "list(builtins.int:4, dict{builtins.int:0: dict{builtins.str:'offset': "
             "builtins.int:10, builtins.str:'size': builtins.int:160}, builtins.int:1: "
             "dict{builtins.str:'offset': builtins.int:170, builtins.str:'size': "
             'builtins.int:120}}, builtins.str:"Array(url=\'image\', shape=(7,), dtype=\'uint16\', '
             'records_per_chunk=4)", tuple(builtins.int:4), builtins.int:1, tuple(builtins.int:7), '
             'list(tuple(builtins.int:10, builtins.int:50), tuple(builtins.int:50, '
             'builtins.int:90), tuple(builtins.int:90, builtins.int:130), tuple(builtins.int:130, '
             'builtins.int:170), tuple(builtins.int:170, builtins.int:210), '
             'tuple(builtins.int:210, builtins.int:250), tuple(builtins.int:250, '
             'builtins.int:290)))',
 '1d|int:5': "list(builtins.int:5, dict{builtins.int:0: dict{builtins.str:'offset': "
             "builtins.int:10, builtins.str:'size': builtins.int:200}, builtins.int:1: "
             "dict{builtins.str:'offset': builtins.int:210, builtins.str:'size': "
             'builtins.int:80}}, builtins.str:"Array(url=\'image\', shape=(7,), dtype=\'uint16\', '
             'records_per_chunk=5)", tuple(builtins.int:5), builtins.int:1, tuple(builtins.int:7), '
             'list(tuple(builtins.int:10, builtins.int:50), tuple(builtins.int:50, '
             'builtins.int:90), tuple(builtins.int:90, builtins.int:130), tuple(builtins.int:130, '
             'builtins.int:170), tuple(builtins.int:170, builtins.int:210), '
             'tuple(builtins.int:210, builtins.int:250), tuple(builtins.int:250, '
             'builtins.int:290)))',
 '1d|int:6': "list(builtins.int:6, dict{builtins.int:0: dict{builtins.str:'offset': "
             "builtins.int:10, builtins.str:'size': builtins.int:240}, builtins.int:1: "
             "dict{builtins.str:'offset': builtins.int:250, builtins.str:'size': "
             'builtins.int:40}}, builtins.str:"Array(url=\'image\', shape=(7,), dtype=\'uint16\', '
             'records_per_chunk=6)", tuple(builtins.int:6), builtins.int:1, tuple(builtins.int:7), '
             'list(tuple(builtins.int:10, builtins.int:50), tuple(builtins.int:50, '
             'builtins.int:90), tuple(builtins.int:90, builtins.int:130), tuple(builtins.int:130, '
             'builtins.int:170), tuple(builtins.int:170, builtins.int:210), '
             'tuple(builtins.int:210, builtins.int:250), tuple(builtins.int:250, '
             'builtins.int:290)))',
 '1d|int:7': "list(builtins.int:7, dict{builtins.int:0: dict{builtins.str:'offset': "
             "builtins.int:10, builtins.str:'size': builtins.int:280}}, "
             'builtins.str:"Array(url=\'image\', shape=(7,), dtype=\'uint16\', '
             'records_per_chunk=7)", tuple(builtins.int:7), builtins.int:1, tuple(builtins.int:7), '
             'list(tuple(builtins.int:10, builtins.int:50), tuple(builtins.int:50, '
             'builtins.int:90), tuple(builtins.int:90, builtins.int:130), tuple(builtins.int:130, '
             'builtins.int:170), tuple(builtins.int:170, builtins.int:210), '
             'tuple(builtins.int:210, builtins.int:250), tuple(builtins.int:250, '
             'builtins.int:290)))',
 '1d|int:8': "list(builtins.int:7, dict{builtins.int:0: dict{builtins.str:'offset': "
             "builtins.int:10, builtins.str:'size': builtins.int:280}}, "
             'builtins.str:"Array(url=\'image\', shape=(7,), dtype=\'uint16\', '
             'records_per_chunk=7)", tuple(builtins.int:7), builtins.int:1, tuple(builtins.int:7), '
             'list(tuple(builtins.int:10, builtins.int:50), tuple(builtins.int:50, '
             'builtins.int:90), tuple(builtins.int:90, builtins.int:130), tuple(builtins.int:130, '
             'builtins.int:170), tuple(builtins.int:170, builtins.int:210), '
             'tuple(builtins.int:210, builtins.int:250), tuple(builtins.int:250, '
             'builtins.int:290)))',
 '1d|int:1024': "list(builtins.int:7, dict{builtins.int:0: dict{builtins.str:'offset': "
                "builtins.int:10, builtins.str:'size': builtins.int:280}}, "
                'builtins.str:"Array(url=\'image\', shape=(7,), dtype=\'uint16\', '
                'records_per_chunk=7)", tuple(builtins.int:7), builtins.int:1, '
                'tuple(builtins.int:7), list(tuple(builtins.int:10, builtins.int:50), '
                'tuple(builtins.int:50, builtins.int:90), tuple(builtins.int:90, '
                'builtins.int:130), tuple(builtins.int:130, builtins.int:170), '
                'tuple(builtins.int:170, builtins.int:210), tuple(builtins.int:210, '
                'builtins.int:250), tuple(builtins.int:250, builtins.int:290)))',
 '1d|int:-2': 'list(builtins.int:-2, dict{}, builtins.str:"Array(url=\'image\', shape=(7,), '
              'dtype=\'uint16\', records_per_chunk=-2)", tuple(builtins.int:-2), builtins.int:1, '
              'tuple(builtins.int:7), list(tuple(builtins.int:10, builtins.int:50), '
              'tuple(builtins.int:50, builtins.int:90), tuple(builtins.int:90, builtins.int:130), '
              'tuple(builtins.int:130, builtins.int:170), tuple(builtins.int:170, '
              'builtins.int:210), tuple(builtins.int:210, builtins.int:250), '
              'tuple(builtins.int:250, builtins.int:290)))',
 '1d|bool:True': "list(builtins.bool:True, dict{builtins.int:0: dict{builtins.str:'offset': "
                 "builtins.int:10, builtins.str:'size': builtins.int:40}, builtins.int:1: "
                 "dict{builtins.str:'offset': builtins.int:50, builtins.str:'size': "
                 "builtins.int:40}, builtins.int:2: dict{builtins.str:'offset': builtins.int:90, "
                 "builtins.str:'size': builtins.int:40}, builtins.int:3: "
                 "dict{builtins.str:'offset': builtins.int:130, builtins.str:'size': "
                 "builtins.int:40}, builtins.int:4: dict{builtins.str:'offset': builtins.int:170, "
                 "builtins.str:'size': builtins.int:40}, builtins.int:5: "
                 "dict{builtins.str:'offset': builtins.int:210, builtins.str:'size': "
                 "builtins.int:40}, builtins.int:6: dict{builtins.str:'offset': builtins.int:250, "
                 'builtins.str:\'size\': builtins.int:40}}, builtins.str:"Array(url=\'image\', '
                 'shape=(7,), dtype=\'uint16\', records_per_chunk=True)", '
                 'tuple(builtins.bool:True), builtins.int:1, tuple(builtins.int:7), '
                 'list(tuple(builtins.int:10, builtins.int:50), tuple(builtins.int:50, '
                 'builtins.int:90), tuple(builtins.int:90, builtins.int:130), '
                 'tuple(builtins.int:130, builtins.int:170), tuple(builtins.int:170, '
                 'builtins.int:210), tuple(builtins.int:210, builtins.int:250), '
                 'tuple(builtins.int:250, builtins.int:290)))',
 '1d|bool:False': 'list(builtins.bool:False, dict{}, builtins.str:"Array(url=\'image\', '
                  'shape=(7,), dtype=\'uint16\', records_per_chunk=False)", '
                  'tuple(builtins.bool:False), builtins.int:1, tuple(builtins.int:7), '
                  'list(tuple(builtins.int:10, builtins.int:50), tuple(builtins.int:50, '
                  'builtins.int:90), tuple(builtins.int:90, builtins.int:130), '
                  'tuple(builtins.int:130, builtins.int:170), tuple(builtins.int:170, '
                  'builtins.int:210), tuple(builtins.int:210, builtins.int:250), '
                  'tuple(builtins.int:250, builtins.int:290)))',
 '1d|int64:np.int64(3)': 'list(numpy.int64(np.int64(3)), dict{builtins.int:0: '
                         "dict{builtins.str:'offset': builtins.int:10, builtins.str:'size': "
                         "builtins.int:120}, builtins.int:1: dict{builtins.str:'offset': "
                         "builtins.int:130, builtins.str:'size': builtins.int:120}, "
                         "builtins.int:2: dict{builtins.str:'offset': builtins.int:250, "
                         "builtins.str:'size': builtins.int:40}}, "
                         'builtins.str:"Array(url=\'image\', shape=(7,), dtype=\'uint16\', '
                         'records_per_chunk=np.int64(3))", tuple(numpy.int64(np.int64(3))), '
                         'builtins.int:1, tuple(builtins.int:7), list(tuple(builtins.int:10, '
                         'builtins.int:50), tuple(builtins.int:50, builtins.int:90), '
                         'tuple(builtins.int:90, builtins.int:130), tuple(builtins.int:130, '
                         'builtins.int:170), tuple(builtins.int:170, builtins.int:210), '
                         'tuple(builtins.int:210, builtins.int:250), tuple(builtins.int:250, '
                         'builtins.int:290)))',
 '1d|int64:np.int64(-1)': "list(builtins.int:7, dict{builtins.int:0: dict{builtins.str:'offset': "
                          "builtins.int:10, builtins.str:'size': builtins.int:280}}, "
                          'builtins.str:"Array(url=\'image\', shape=(7,), dtype=\'uint16\', '
                          'records_per_chunk=7)", tuple(builtins.int:7), builtins.int:1, '
                          'tuple(builtins.int:7), list(tuple(builtins.int:10, builtins.int:50), '
                          'tuple(builtins.int:50, builtins.int:90), tuple(builtins.int:90, '
                          'builtins.int:130), tuple(builtins.int:130, builtins.int:170), '
                          'tuple(builtins.int:170, builtins.int:210), tuple(builtins.int:210, '
                          'builtins.int:250), tuple(builtins.int:250, builtins.int:290)))',
 '1d|int64:np.int64(1000000)': 'list(builtins.int:7, dict{builtins.int:0: '
                               "dict{builtins.str:'offset': builtins.int:10, builtins.str:'size': "
                               'builtins.int:280}}, builtins.str:"Array(url=\'image\', shape=(7,), '
                               'dtype=\'uint16\', records_per_chunk=7)", tuple(builtins.int:7), '
                               'builtins.int:1, tuple(builtins.int:7), list(tuple(builtins.int:10, '
                               'builtins.int:50), tuple(builtins.int:50, builtins.int:90), '
                               'tuple(builtins.int:90, builtins.int:130), tuple(builtins.int:130, '
                               'builtins.int:170), tuple(builtins.int:170, builtins.int:210), '
                               'tuple(builtins.int:210, builtins.int:250), tuple(builtins.int:250, '
                               'builtins.int:290)))',
 '1d|float:2.0': "raise builtins.TypeError: can't multiply sequence by non-int of type 'float'",
 '1d|float:2.5': "raise builtins.TypeError: can't multiply sequence by non-int of type 'float'",
 '1d|float:-1.0': "list(builtins.int:7, dict{builtins.int:0: dict{builtins.str:'offset': "
                  "builtins.int:10, builtins.str:'size': builtins.int:280}}, "
                  'builtins.str:"Array(url=\'image\', shape=(7,), dtype=\'uint16\', '
                  'records_per_chunk=7)", tuple(builtins.int:7), builtins.int:1, '
                  'tuple(builtins.int:7), list(tuple(builtins.int:10, builtins.int:50), '
                  'tuple(builtins.int:50, builtins.int:90), tuple(builtins.int:90, '
                  'builtins.int:130), tuple(builtins.int:130, builtins.int:170), '
                  'tuple(builtins.int:170, builtins.int:210), tuple(builtins.int:210, '
                  'builtins.int:250), tuple(builtins.int:250, builtins.int:290)))',
 '1d|float:nan': "raise builtins.TypeError: can't multiply sequence by non-int of type 'float'",
 '1d|float:inf': "list(builtins.int:7, dict{builtins.int:0: dict{builtins.str:'offset': "
                 "builtins.int:10, builtins.str:'size': builtins.int:280}}, "
                 'builtins.str:"Array(url=\'image\', shape=(7,), dtype=\'uint16\', '
                 'records_per_chunk=7)", tuple(builtins.int:7), builtins.int:1, '
                 'tuple(builtins.int:7), list(tuple(builtins.int:10, builtins.int:50), '
                 'tuple(builtins.int:50, builtins.int:90), tuple(builtins.int:90, '
                 'builtins.int:130), tuple(builtins.int:130, builtins.int:170), '
                 'tuple(builtins.int:170, builtins.int:210), tuple(builtins.int:210, '
                 'builtins.int:250), tuple(builtins.int:250, builtins.int:290)))',
 "1d|bytes:b'auto'": "raise builtins.TypeError: '>' not supported between instances of 'bytes' and "
                     "'int'",
 '1d|list:[2]': "raise builtins.TypeError: '>' not supported between instances of 'list' and 'int'",
 '1d|tuple:(2,)': "raise builtins.TypeError: '>' not supported between instances of 'tuple' and "
                  "'int'",
 '1d|dict:{}': "raise builtins.TypeError: '>' not supported between instances of 'dict' and 'int'",
 '1d|complex:(1+0j)': "raise builtins.TypeError: '>' not supported between instances of 'complex' "
                      "and 'int'",
 "shape-mismatch|str:'<omitted>'": 'list(builtins.int:1024, dict{builtins.int:0: '
                                   "dict{builtins.str:'offset': builtins.int:10, "
                                   "builtins.str:'size': builtins.int:280}}, "
                                   'builtins.str:"Array(url=\'image\', shape=(3, 20), '
                                   'dtype=\'uint16\', records_per_chunk=1024)", '
                                   'tuple(builtins.int:1024, builtins.int:20), builtins.int:2, '
                                   'tuple(builtins.int:3, builtins.int:20), '
                                   'list(tuple(builtins.int:10, builtins.int:50), '
                                   'tuple(builtins.int:50, builtins.int:90), '
                                   'tuple(builtins.int:90, builtins.int:130), '
                                   'tuple(builtins.int:130, builtins.int:170), '
                                   'tuple(builtins.int:170, builtins.int:210), '
                                   'tuple(builtins.int:210, builtins.int:250), '
                                   'tuple(builtins.int:250, builtins.int:290)))',
 'shape-mismatch|NoneType:None': 'list(builtins.int:1024, dict{builtins.int:0: '
                                 "dict{builtins.str:'offset': builtins.int:10, "
                                 "builtins.str:'size': builtins.int:280}}, "
                                 'builtins.str:"Array(url=\'image\', shape=(3, 20), '
                                 'dtype=\'uint16\', records_per_chunk=1024)", '
                                 'tuple(builtins.int:1024, builtins.int:20), builtins.int:2, '
                                 'tuple(builtins.int:3, builtins.int:20), '
                                 'list(tuple(builtins.int:10, builtins.int:50), '
                                 'tuple(builtins.int:50, builtins.int:90), tuple(builtins.int:90, '
                                 'builtins.int:130), tuple(builtins.int:130, builtins.int:170), '
                                 'tuple(builtins.int:170, builtins.int:210), '
                                 'tuple(builtins.int:210, builtins.int:250), '
                                 'tuple(builtins.int:250, builtins.int:290)))',
 "shape-mismatch|str:'auto'": 'list(numpy.int64(np.int64(7)), dict{builtins.int:0: '
                              "dict{builtins.str:'offset': builtins.int:10, builtins.str:'size': "
                              'builtins.int:280}}, builtins.str:"Array(url=\'image\', shape=(3, '
                              '20), dtype=\'uint16\', records_per_chunk=np.int64(7))", '
                              'tuple(numpy.int64(np.int64(7)), builtins.int:20), builtins.int:2, '
                              'tuple(builtins.int:3, builtins.int:20), list(tuple(builtins.int:10, '
                              'builtins.int:50), tuple(builtins.int:50, builtins.int:90), '
                              'tuple(builtins.int:90, builtins.int:130), tuple(builtins.int:130, '
                              'builtins.int:170), tuple(builtins.int:170, builtins.int:210), '
                              'tuple(builtins.int:210, builtins.int:250), tuple(builtins.int:250, '
                              'builtins.int:290)))',
 "shape-mismatch|str:'80B'": 'list(numpy.int64(np.int64(2)), dict{builtins.int:0: '
                             "dict{builtins.str:'offset': builtins.int:10, builtins.str:'size': "
                             "builtins.int:80}, builtins.int:1: dict{builtins.str:'offset': "
                             "builtins.int:90, builtins.str:'size': builtins.int:80}, "
                             "builtins.int:2: dict{builtins.str:'offset': builtins.int:170, "
                             "builtins.str:'size': builtins.int:80}, builtins.int:3: "
                             "dict{builtins.str:'offset': builtins.int:250, builtins.str:'size': "
                             'builtins.int:40}}, builtins.str:"Array(url=\'image\', shape=(3, 20), '
                             'dtype=\'uint16\', records_per_chunk=np.int64(2))", '
                             'tuple(numpy.int64(np.int64(2)), builtins.int:20), builtins.int:2, '
                             'tuple(builtins.int:3, builtins.int:20), list(tuple(builtins.int:10, '
                             'builtins.int:50), tuple(builtins.int:50, builtins.int:90), '
                             'tuple(builtins.int:90, builtins.int:130), tuple(builtins.int:130, '
                             'builtins.int:170), tuple(builtins.int:170, builtins.int:210), '
                             'tuple(builtins.int:210, builtins.int:250), tuple(builtins.int:250, '
                             'builtins.int:290)))',
 "shape-mismatch|str:'81B'": 'list(numpy.int64(np.int64(2)), dict{builtins.int:0: '
                             "dict{builtins.str:'offset': builtins.int:10, builtins.str:'size': "
                             "builtins.int:80}, builtins.int:1: dict{builtins.str:'offset': "
                             "builtins.int:90, builtins.str:'size': builtins.int:80}, "
                             "builtins.int:2: dict{builtins.str:'offset': builtins.int:170, "
                             "builtins.str:'size': builtins.int:80}, builtins.int:3: "
                             "dict{builtins.str:'offset': builtins.int:250, builtins.str:'size': "
                             'builtins.int:40}}, builtins.str:"Array(url=\'image\', shape=(3, 20), '
                             'dtype=\'uint16\', records_per_chunk=np.int64(2))", '
                             'tuple(numpy.int64(np.int64(2)), builtins.int:20), builtins.int:2, '
                             'tuple(builtins.int:3, builtins.int:20), list(tuple(builtins.int:10, '
                             'builtins.int:50), tuple(builtins.int:50, builtins.int:90), '
                             'tuple(builtins.int:90, builtins.int:130), tuple(builtins.int:130, '
                             'builtins.int:170), tuple(builtins.int:170, builtins.int:210), '
                             'tuple(builtins.int:210, builtins.int:250), tuple(builtins.int:250, '
                             'builtins.int:290)))',
 "shape-mismatch|str:'100B'": 'list(numpy.int64(np.int64(2)), dict{builtins.int:0: '
                              "dict{builtins.str:'offset': builtins.int:10, builtins.str:'size': "
                              "builtins.int:80}, builtins.int:1: dict{builtins.str:'offset': "
                              "builtins.int:90, builtins.str:'size': builtins.int:80}, "
                              "builtins.int:2: dict{builtins.str:'offset': builtins.int:170, "
                              "builtins.str:'size': builtins.int:80}, builtins.int:3: "
                              "dict{builtins.str:'offset': builtins.int:250, builtins.str:'size': "
                              'builtins.int:40}}, builtins.str:"Array(url=\'image\', shape=(3, '
                              '20), dtype=\'uint16\', records_per_chunk=np.int64(2))", '
                              'tuple(numpy.int64(np.int64(2)), builtins.int:20), builtins.int:2, '
                              'tuple(builtins.int:3, builtins.int:20), list(tuple(builtins.int:10, '
                              'builtins.int:50), tuple(builtins.int:50, builtins.int:90), '
                              'tuple(builtins.int:90, builtins.int:130), tuple(builtins.int:130, '
                              'builtins.int:170), tuple(builtins.int:170, builtins.int:210), '
                              'tuple(builtins.int:210, builtins.int:250), tuple(builtins.int:250, '
                              'builtins.int:290)))',
 "shape-mismatch|str:'119B'": 'list(numpy.int64(np.int64(3)), dict{builtins.int:0: '
                              "dict{builtins.str:'offset': builtins.int:10, builtins.str:'size': "
                              "builtins.int:120}, builtins.int:1: dict{builtins.str:'offset': "
                              "builtins.int:130, builtins.str:'size': builtins.int:120}, "
                              "builtins.int:2: dict{builtins.str:'offset': builtins.int:250, "
                              "builtins.str:'size': builtins.int:40}}, "
                              'builtins.str:"Array(url=\'image\', shape=(3, 20), dtype=\'uint16\', '
                              'records_per_chunk=np.int64(3))", tuple(numpy.int64(np.int64(3)), '
                              'builtins.int:20), builtins.int:2, tuple(builtins.int:3, '
                              'builtins.int:20), list(tuple(builtins.int:10, builtins.int:50), '
                              'tuple(builtins.int:50, builtins.int:90), tuple(builtins.int:90, '
                              'builtins.int:130), tuple(builtins.int:130, builtins.int:170), '
                              'tuple(builtins.int:170, builtins.int:210), tuple(builtins.int:210, '
                              'builtins.int:250), tuple(builtins.int:250, builtins.int:290)))',
 "shape-mismatch|str:'120B'": 'list(numpy.int64(np.int64(3)), dict{builtins.int:0: '
                              "dict{builtins.str:'offset': builtins.int:10, builtins.str:'size': "
                              "builtins.int:120}, builtins.int:1: dict{builtins.str:'offset': "
                              "builtins.int:130, builtins.str:'size': builtins.int:120}, "
                              "builtins.int:2: dict{builtins.str:'offset': builtins.int:250, "
                              "builtins.str:'size': builtins.int:40}}, "
                              'builtins.str:"Array(url=\'image\', shape=(3, 20), dtype=\'uint16\', '
                              'records_per_chunk=np.int64(3))", tuple(numpy.int64(np.int64(3)), '
                              'builtins.int:20), builtins.int:2, tuple(builtins.int:3, '
                              'builtins.int:20), list(tuple(builtins.int:10, builtins.int:50), '
                              'tuple(builtins.int:50, builtins.int:90), tuple(builtins.int:90, '
                              'builtins.int:130), tuple(builtins.int:130, builtins.int:170), '
                              'tuple(builtins.int:170, builtins.int:210), tuple(builtins.int:210, '
                              'builtins.int:250), tuple(builtins.int:250, builtins.int:290)))',
 "shape-mismatch|str:'121B'": 'list(numpy.int64(np.int64(3)), dict{builtins.int:0: '
                              "dict{builtins.str:'offset': builtins.int:10, builtins.str:'size': "
                              "builtins.int:120}, builtins.int:1: dict{builtins.str:'offset': "
                              "builtins.int:130, builtins.str:'size': builtins.int:120}, "
                              "builtins.int:2: dict{builtins.str:'offset': builtins.int:250, "
                              "builtins.str:'size': builtins.int:40}}, "
                              'builtins.str:"Array(url=\'image\', shape=(3, 20), dtype=\'uint16\', '
                              'records_per_chunk=np.int64(3))", tuple(numpy.int64(np.int64(3)), '
                              'builtins.int:20), builtins.int:2, tuple(builtins.int:3, '
                              'builtins.int:20), list(tuple(builtins.int:10, builtins.int:50), '
                              'tuple(builtins.int:50, builtins.int:90), tuple(builtins.int:90, '
                              'builtins.int:130), tuple(builtins.int:130, builtins.int:170), '
                              'tuple(builtins.int:170, builtins.int:210), tuple(builtins.int:210, '
                              'builtins.int:250), tuple(builtins.int:250, builtins.int:290)))',
 "shape-mismatch|str:'0B'": 'list(numpy.int64(np.int64(1)), dict{builtins.int:0: '
                            "dict{builtins.str:'offset': builtins.int:10, builtins.str:'size': "
                            "builtins.int:40}, builtins.int:1: dict{builtins.str:'offset': "
                            "builtins.int:50, builtins.str:'size': builtins.int:40}, "
                            "builtins.int:2: dict{builtins.str:'offset': builtins.int:90, "
                            "builtins.str:'size': builtins.int:40}, builtins.int:3: "
                            "dict{builtins.str:'offset': builtins.int:130, builtins.str:'size': "
                            "builtins.int:40}, builtins.int:4: dict{builtins.str:'offset': "
                            "builtins.int:170, builtins.str:'size': builtins.int:40}, "
                            "builtins.int:5: dict{builtins.str:'offset': builtins.int:210, "
                            "builtins.str:'size': builtins.int:40}, builtins.int:6: "
                            "dict{builtins.str:'offset': builtins.int:250, builtins.str:'size': "
                            'builtins.int:40}}, builtins.str:"Array(url=\'image\', shape=(3, 20), '
                            'dtype=\'uint16\', records_per_chunk=np.int64(1))", '
                            'tuple(numpy.int64(np.int64(1)), builtins.int:20), builtins.int:2, '
                            'tuple(builtins.int:3, builtins.int:20), list(tuple(builtins.int:10, '
                            'builtins.int:50), tuple(builtins.int:50, builtins.int:90), '
                            'tuple(builtins.int:90, builtins.int:130), tuple(builtins.int:130, '
                            'builtins.int:170), tuple(builtins.int:170, builtins.int:210), '
                            'tuple(builtins.int:210, builtins.int:250), tuple(builtins.int:250, '
                            'builtins.int:290)))',
 "shape-mismatch|str:'1kB'": 'list(numpy.int64(np.int64(7)), dict{builtins.int:0: '
                             "dict{builtins.str:'offset': builtins.int:10, builtins.str:'size': "
                             'builtins.int:280}}, builtins.str:"Array(url=\'image\', shape=(3, '
                             '20), dtype=\'uint16\', records_per_chunk=np.int64(7))", '
                             'tuple(numpy.int64(np.int64(7)), builtins.int:20), builtins.int:2, '
                             'tuple(builtins.int:3, builtins.int:20), list(tuple(builtins.int:10, '
                             'builtins.int:50), tuple(builtins.int:50, builtins.int:90), '
                             'tuple(builtins.int:90, builtins.int:130), tuple(builtins.int:130, '
                             'builtins.int:170), tuple(builtins.int:170, builtins.int:210), '
                             'tuple(builtins.int:210, builtins.int:250), tuple(builtins.int:250, '
                             'builtins.int:290)))',
 "shape-mismatch|str:'1kiB'": 'list(numpy.int64(np.int64(7)), dict{builtins.int:0: '
                              "dict{builtins.str:'offset': builtins.int:10, builtins.str:'size': "
                              'builtins.int:280}}, builtins.str:"Array(url=\'image\', shape=(3, '
                              '20), dtype=\'uint16\', records_per_chunk=np.int64(7))", '
                              'tuple(numpy.int64(np.int64(7)), builtins.int:20), builtins.int:2, '
                              'tuple(builtins.int:3, builtins.int:20), list(tuple(builtins.int:10, '
                              'builtins.int:50), tuple(builtins.int:50, builtins.int:90), '
                              'tuple(builtins.int:90, builtins.int:130), tuple(builtins.int:130, '
                              'builtins.int:170), tuple(builtins.int:170, builtins.int:210), '
                              'tuple(builtins.int:210, builtins.int:250), tuple(builtins.int:250, '
                              'builtins.int:290)))',
 "shape-mismatch|str:'1 MiB'": 'list(numpy.int64(np.int64(7)), dict{builtins.int:0: '
                               "dict{builtins.str:'offset': builtins.int:10, builtins.str:'size': "
                               'builtins.int:280}}, builtins.str:"Array(url=\'image\', shape=(3, '
                               '20), dtype=\'uint16\', records_per_chunk=np.int64(7))", '
                               'tuple(numpy.int64(np.int64(7)), builtins.int:20), builtins.int:2, '
                               'tuple(builtins.int:3, builtins.int:20), '
                               'list(tuple(builtins.int:10, builtins.int:50), '
                               'tuple(builtins.int:50, builtins.int:90), tuple(builtins.int:90, '
                               'builtins.int:130), tuple(builtins.int:130, builtins.int:170), '
                               'tuple(builtins.int:170, builtins.int:210), tuple(builtins.int:210, '
                               'builtins.int:250), tuple(builtins.int:250, builtins.int:290)))',
 "shape-mismatch|str:'95MiB'": 'list(numpy.int64(np.int64(7)), dict{builtins.int:0: '
                               "dict{builtins.str:'offset': builtins.int:10, builtins.str:'size': "
                               'builtins.int:280}}, builtins.str:"Array(url=\'image\', shape=(3, '
                               '20), dtype=\'uint16\', records_per_chunk=np.int64(7))", '
                               'tuple(numpy.int64(np.int64(7)), builtins.int:20), builtins.int:2, '
                               'tuple(builtins.int:3, builtins.int:20), '
                               'list(tuple(builtins.int:10, builtins.int:50), '
                               'tuple(builtins.int:50, builtins.int:90), tuple(builtins.int:90, '
                               'builtins.int:130), tuple(builtins.int:130, builtins.int:170), '
                               'tuple(builtins.int:170, builtins.int:210), tuple(builtins.int:210, '
                               'builtins.int:250), tuple(builtins.int:250, builtins.int:290)))',
 "shape-mismatch|str:'0.1 GB'": 'list(numpy.int64(np.int64(7)), dict{builtins.int:0: '
                                "dict{builtins.str:'offset': builtins.int:10, builtins.str:'size': "
                                'builtins.int:280}}, builtins.str:"Array(url=\'image\', shape=(3, '
                                '20), dtype=\'uint16\', records_per_chunk=np.int64(7))", '
                                'tuple(numpy.int64(np.int64(7)), builtins.int:20), builtins.int:2, '
                                'tuple(builtins.int:3, builtins.int:20), '
                                'list(tuple(builtins.int:10, builtins.int:50), '
                                'tuple(builtins.int:50, builtins.int:90), tuple(builtins.int:90, '
                                'builtins.int:130), tuple(builtins.int:130, builtins.int:170), '
                                'tuple(builtins.int:170, builtins.int:210), '
                                'tuple(builtins.int:210, builtins.int:250), '
                                'tuple(builtins.int:250, builtins.int:290)))',
 "shape-mismatch|str:'100'": 'list(numpy.int64(np.int64(2)), dict{builtins.int:0: '
                             "dict{builtins.str:'offset': builtins.int:10, builtins.str:'size': "
                             "builtins.int:80}, builtins.int:1: dict{builtins.str:'offset': "
                             "builtins.int:90, builtins.str:'size': builtins.int:80}, "
                             "builtins.int:2: dict{builtins.str:'offset': builtins.int:170, "
                             "builtins.str:'size': builtins.int:80}, builtins.int:3: "
                             "dict{builtins.str:'offset': builtins.int:250, builtins.str:'size': "
                             'builtins.int:40}}, builtins.str:"Array(url=\'image\', shape=(3, 20), '
                             'dtype=\'uint16\', records_per_chunk=np.int64(2))", '
                             'tuple(numpy.int64(np.int64(2)), builtins.int:20), builtins.int:2, '
                             'tuple(builtins.int:3, builtins.int:20), list(tuple(builtins.int:10, '
                             'builtins.int:50), tuple(builtins.int:50, builtins.int:90), '
                             'tuple(builtins.int:90, builtins.int:130), tuple(builtins.int:130, '
                             'builtins.int:170), tuple(builtins.int:170, builtins.int:210), '
                             'tuple(builtins.int:210, builtins.int:250), tuple(builtins.int:250, '
                             'builtins.int:290)))',
 "shape-mismatch|str:'1e2'": 'list(numpy.int64(np.int64(2)), dict{builtins.int:0: '
                             "dict{builtins.str:'offset': builtins.int:10, builtins.str:'size': "
                             "builtins.int:80}, builtins.int:1: dict{builtins.str:'offset': "
                             "builtins.int:90, builtins.str:'size': builtins.int:80}, "
                             "builtins.int:2: dict{builtins.str:'offset': builtins.int:170, "
                             "builtins.str:'size': builtins.int:80}, builtins.int:3: "
                             "dict{builtins.str:'offset': builtins.int:250, builtins.str:'size': "
                             'builtins.int:40}}, builtins.str:"Array(url=\'image\', shape=(3, 20), '
                             'dtype=\'uint16\', records_per_chunk=np.int64(2))", '
                             'tuple(numpy.int64(np.int64(2)), builtins.int:20), builtins.int:2, '
                             'tuple(builtins.int:3, builtins.int:20), list(tuple(builtins.int:10, '
                             'builtins.int:50), tuple(builtins.int:50, builtins.int:90), '
                             'tuple(builtins.int:90, builtins.int:130), tuple(builtins.int:130, '
                             'builtins.int:170), tuple(builtins.int:170, builtins.int:210), '
                             'tuple(builtins.int:210, builtins.int:250), tuple(builtins.int:250, '
                             'builtins.int:290)))',
 "shape-mismatch|str:'kB'": 'list(numpy.int64(np.int64(7)), dict{builtins.int:0: '
                            "dict{builtins.str:'offset': builtins.int:10, builtins.str:'size': "
                            'builtins.int:280}}, builtins.str:"Array(url=\'image\', shape=(3, 20), '
                            'dtype=\'uint16\', records_per_chunk=np.int64(7))", '
                            'tuple(numpy.int64(np.int64(7)), builtins.int:20), builtins.int:2, '
                            'tuple(builtins.int:3, builtins.int:20), list(tuple(builtins.int:10, '
                            'builtins.int:50), tuple(builtins.int:50, builtins.int:90), '
                            'tuple(builtins.int:90, builtins.int:130), tuple(builtins.int:130, '
                            'builtins.int:170), tuple(builtins.int:170, builtins.int:210), '
                            'tuple(builtins.int:210, builtins.int:250), tuple(builtins.int:250, '
                            'builtins.int:290)))',
 "shape-mismatch|str:''": 'list(numpy.int64(np.int64(1)), dict{builtins.int:0: '
                          "dict{builtins.str:'offset': builtins.int:10, builtins.str:'size': "
                          "builtins.int:40}, builtins.int:1: dict{builtins.str:'offset': "
                          "builtins.int:50, builtins.str:'size': builtins.int:40}, builtins.int:2: "
                          "dict{builtins.str:'offset': builtins.int:90, builtins.str:'size': "
                          "builtins.int:40}, builtins.int:3: dict{builtins.str:'offset': "
                          "builtins.int:130, builtins.str:'size': builtins.int:40}, "
                          "builtins.int:4: dict{builtins.str:'offset': builtins.int:170, "
                          "builtins.str:'size': builtins.int:40}, builtins.int:5: "
                          "dict{builtins.str:'offset': builtins.int:210, builtins.str:'size': "
                          "builtins.int:40}, builtins.int:6: dict{builtins.str:'offset': "
                          "builtins.int:250, builtins.str:'size': builtins.int:40}}, "
                          'builtins.str:"Array(url=\'image\', shape=(3, 20), dtype=\'uint16\', '
                          'records_per_chunk=np.int64(1))", tuple(numpy.int64(np.int64(1)), '
                          'builtins.int:20), builtins.int:2, tuple(builtins.int:3, '
                          'builtins.int:20), list(tuple(builtins.int:10, builtins.int:50), '
                          'tuple(builtins.int:50, builtins.int:90), tuple(builtins.int:90, '
                          'builtins.int:130), tuple(builtins.int:130, builtins.int:170), '
                          'tuple(builtins.int:170, builtins.int:210), tuple(builtins.int:210, '
                          'builtins.int:250), tuple(builtins.int:250, builtins.int:290)))',
 "shape-mismatch|str:'5 foos'": "raise builtins.ValueError: Could not interpret 'foos' as a byte "
                                'unit',
 "shape-mismatch|str:'abc'": "raise builtins.ValueError: Could not interpret 'abc' as a byte unit",
 "shape-mismatch|str:'AUTO'": "raise builtins.ValueError: Could not interpret 'AUTO' as a byte "
                              'unit',
 "shape-mismatch|str:' auto'": "raise builtins.ValueError: Could not interpret 'auto' as a byte "
                               'unit',
 "shape-mismatch|Text:'auto'": 'list(numpy.int64(np.int64(7)), dict{builtins.int:0: '
                               "dict{builtins.str:'offset': builtins.int:10, builtins.str:'size': "
                               'builtins.int:280}}, builtins.str:"Array(url=\'image\', shape=(3, '
                               '20), dtype=\'uint16\', records_per_chunk=np.int64(7))", '
                               'tuple(numpy.int64(np.int64(7)), builtins.int:20), builtins.int:2, '
                               'tuple(builtins.int:3, builtins.int:20), '
                               'list(tuple(builtins.int:10, builtins.int:50), '
                               'tuple(builtins.int:50, builtins.int:90), tuple(builtins.int:90, '
                               'builtins.int:130), tuple(builtins.int:130, builtins.int:170), '
                               'tuple(builtins.int:170, builtins.int:210), tuple(builtins.int:210, '
                               'builtins.int:250), tuple(builtins.int:250, builtins.int:290)))',
 "shape-mismatch|Text:'160B'": 'list(numpy.int64(np.int64(4)), dict{builtins.int:0: '
                               "dict{builtins.str:'offset': builtins.int:10, builtins.str:'size': "
                               "builtins.int:160}, builtins.int:1: dict{builtins.str:'offset': "
                               "builtins.int:170, builtins.str:'size': builtins.int:120}}, "
                               'builtins.str:"Array(url=\'image\', shape=(3, 20), '
                               'dtype=\'uint16\', records_per_chunk=np.int64(4))", '
                               'tuple(numpy.int64(np.int64(4)), builtins.int:20), builtins.int:2, '
                               'tuple(builtins.int:3, builtins.int:20), '
                               'list(tuple(builtins.int:10, builtins.int:50), '
                               'tuple(builtins.int:50, builtins.int:90), tuple(builtins.int:90, '
                               'builtins.int:130), tuple(builtins.int:130, builtins.int:170), '
                               'tuple(builtins.int:170, builtins.int:210), tuple(builtins.int:210, '
                               'builtins.int:250), tuple(builtins.int:250, builtins.int:290)))',
 'shape-mismatch|int:-1': "list(builtins.int:3, dict{builtins.int:0: dict{builtins.str:'offset': "
                          "builtins.int:10, builtins.str:'size': builtins.int:120}, "
                          "builtins.int:1: dict{builtins.str:'offset': builtins.int:130, "
                          "builtins.str:'size': builtins.int:120}, builtins.int:2: "
                          "dict{builtins.str:'offset': builtins.int:250, builtins.str:'size': "
                          'builtins.int:40}}, builtins.str:"Array(url=\'image\', shape=(3, 20), '
                          'dtype=\'uint16\', records_per_chunk=3)", tuple(builtins.int:3, '
                          'builtins.int:20), builtins.int:2, tuple(builtins.int:3, '
                          'builtins.int:20), list(tuple(builtins.int:10, builtins.int:50), '
                          'tuple(builtins.int:50, builtins.int:90), tuple(builtins.int:90, '
                          'builtins.int:130), tuple(builtins.int:130, builtins.int:170), '
                          'tuple(builtins.int:170, builtins.int:210), tuple(builtins.int:210, '
                          'builtins.int:250), tuple(builtins.int:250, builtins.int:290)))',
 'shape-mismatch|int:0': 'list(builtins.int:0, dict{}, builtins.str:"Array(url=\'image\', '
                         'shape=(3, 20), dtype=\'uint16\', records_per_chunk=0)", '
                         'tuple(builtins.int:0, builtins.int:20), builtins.int:2, '
                         'tuple(builtins.int:3, builtins.int:20), list(tuple(builtins.int:10, '
                         'builtins.int:50), tuple(builtins.int:50, builtins.int:90), '
                         'tuple(builtins.int:90, builtins.int:130), tuple(builtins.int:130, '
                         'builtins.int:170), tuple(builtins.int:170, builtins.int:210), '
                         'tuple(builtins.int:210, builtins.int:250), tuple(builtins.int:250, '
                         'builtins.int:290)))',
 'shape-mismatch|int:1': "list(builtins.int:1, dict{builtins.int:0: dict{builtins.str:'offset': "
                         "builtins.int:10, builtins.str:'size': builtins.int:40}, builtins.int:1: "
                         "dict{builtins.str:'offset': builtins.int:50, builtins.str:'size': "
                         "builtins.int:40}, builtins.int:2: dict{builtins.str:'offset': "
                         "builtins.int:90, builtins.str:'size': builtins.int:40}, builtins.int:3: "
                         "dict{builtins.str:'offset': builtins.int:130, builtins.str:'size': "
                         "builtins.int:40}, builtins.int:4: dict{builtins.str:'offset': "
                         "builtins.int:170, builtins.str:'size': builtins.int:40}, builtins.int:5: "
                         "dict{builtins.str:'offset': builtins.int:210, builtins.str:'size': "
                         "builtins.int:40}, builtins.int:6: dict{builtins.str:'offset': "
                         "builtins.int:250, builtins.str:'size': builtins.int:40}}, "
                         'builtins.str:"Array(url=\'image\', shape=(3, 20), dtype=\'uint16\', '
                         'records_per_chunk=1)", tuple(builtins.int:1, builtins.int:20), '
                         'builtins.int:2, tuple(builtins.int:3, builtins.int:20), '
                         'list(tuple(builtins.int:10, builtins.int:50), tuple(builtins.int:50, '
                         'builtins.int:90), tuple(builtins.int:90, builtins.int:130), '
                         'tuple(builtins.int:130, builtins.int:170), tuple(builtins.int:170, '
                         'builtins.int:210), tuple(builtins.int:210, builtins.int:250), '
                         'tuple(builtins.int:250, builtins.int:290)))',
 'shape-mismatch|int:2': "list(builtins.int:2, dict{builtins.int:0: dict{builtins.str:'offset': "
                         "builtins.int:10, builtins.str:'size': builtins.int:80}, builtins.int:1: "
                         "dict{builtins.str:'offset': builtins.int:90, builtins.str:'size': "
                         "builtins.int:80}, builtins.int:2: dict{builtins.str:'offset': "
                         "builtins.int:170, builtins.str:'size': builtins.int:80}, builtins.int:3: "
                         "dict{builtins.str:'offset': builtins.int:250, builtins.str:'size': "
                         'builtins.int:40}}, builtins.str:"Array(url=\'image\', shape=(3, 20), '
                         'dtype=\'uint16\', records_per_chunk=2)", tuple(builtins.int:2, '
                         'builtins.int:20), builtins.int:2, tuple(builtins.int:3, '
                         'builtins.int:20), list(tuple(builtins.int:10, builtins.int:50), '
                         'tuple(builtins.int:50, builtins.int:90), tuple(builtins.int:90, '
                         'builtins.int:130), tuple(builtins.int:130, builtins.int:170), '
                         'tuple(builtins.int:170, builtins.int:210), tuple(builtins.int:210, '
                         'builtins.int:250), tuple(builtins.int:250, builtins.int:290)))',
 'shape-mismatch|int:3': "list(builtins.int:3, dict{builtins.int:0: dict{builtins.str:'offset': "
                         "builtins.int:10, builtins.str:'size': builtins.int:120}, builtins.int:1: "
                         "dict{builtins.str:'offset': builtins.int:130, builtins.str:'size': "
                         "builtins.int:120}, builtins.int:2: dict{builtins.str:'offset': "
                         "builtins.int:250, builtins.str:'size': builtins.int:40}}, "
                         'builtins.str:"Array(url=\'image\', shape=(3, 20), dtype=\'uint16\', '
                         'records_per_chunk=3)", tuple(builtins.int:3, builtins.int:20), '
                         'builtins.int:2, tuple(builtins.int:3, builtins.int:20), '
                         'list(tuple(builtins.int:10, builtins.int:50), tuple(builtins.int:50, '
                         'builtins.int:90), tuple(builtins.int:90, builtins.int:130), '
                         'tuple(builtins.int:130, builtins.int:170), tuple(builtins.int:170, '
                         'builtins.int:210), tuple(builtins.int:210, builtins.int:250), '
                         'tuple(builtins.int:250, builtins.int:290)))',
 'shape-mismatch|int:4': "list(builtins.int:3, dict{builtins.int:0: dict{builtins.str:'offset': "
                         "builtins.int:10, builtins.str:'size': builtins.int:120}, builtins.int:1: "
                         "dict{builtins.str:'offset': builtins.int:130, builtins.str:'size': "
                         "builtins.int:120}, builtins.int:2: dict{builtins.str:'offset': "
                         "builtins.int:250, builtins.str:'size': builtins.int:40}}, "
                         'builtins.str:"Array(url=\'image\', shape=(3, 20), dtype=\'uint16\', '
                         'records_per_chunk=3)", tuple(builtins.int:3, builtins.int:20), '
                         'builtins.int:2, tuple(builtins.int:3, builtins.int:20), '
                         'list(tuple(builtins.int:10, builtins.int:50), tuple(builtins.int:50, '
                         'builtins.int:90), tuple(builtins.int:90, builtins.int:130), '
                         'tuple(builtins.int:130, builtins.int:170), tuple(builtins.int:170, '
                         'builtins.int:210), tuple(builtins.int:210, builtins.int:250), '
                         'tuple(builtins.int:250, builtins.int:290)))',
 'shape-mismatch|int:5': "list(builtins.int:3, dict{builtins.int:0: dict{builtins.str:'offset': "
                         "builtins.int:10, builtins.str:'size': builtins.int:120}, builtins.int:1: "
                         "dict{builtins.str:'offset': builtins.int:130, builtins.str:'size': "
                         "builtins.int:120}, builtins.int:2: dict{builtins.str:'offset': "
                         "builtins.int:250, builtins.str:'size': builtins.int:40}}, "
                         'builtins.str:"Array(url=\'image\', shape=(3, 20), dtype=\'uint16\', '
                         'records_per_chunk=3)", tuple(builtins.int:3, builtins.int:20), '
                         'builtins.int:2, tuple(builtins.int:3, builtins.int:20), '
                         'list(tuple(builtins.int:10, builtins.int:50), tuple(builtins.int:50, '
                         'builtins.int:90), tuple(builtins.int:90, builtins.int:130), '
                         'tuple(builtins.int:130, builtins.int:170), tuple(builtins.int:170, '
                         'builtins.int:210), tuple(builtins.int:210, builtins.int:250), '
                         'tuple(builtins.int:250, builtins.int:290)))',
 'shape-mismatch|int:6': "list(builtins.int:3, dict{builtins.int:0: dict{builtins.str:'offset': "
                         "builtins.int:10, builtins.str:'size': builtins.int:120}, builtins.int:1: "
                         "dict{builtins.str:'offset': builtins.int:130, builtins.str:'size': "
                         "builtins.int:120}, builtins.int:2: dict{builtins.str:'offset': "
                         "builtins.int:250, builtins.str:'size': builtins.int:40}}, "
                         'builtins.str:"Array(url=\'image\', shape=(3, 20), dtype=\'uint16\', '
                         'records_per_chunk=3)", tuple(builtins.int:3, builtins.int:20), '
                         'builtins.int:2, tuple(builtins.int:3, builtins.int:20), '
                         'list(tuple(builtins.int:10, builtins.int:50), tuple(builtins.int:50, '
                         'builtins.int:90), tuple(builtins.int:90, builtins.int:130), '
                         'tuple(builtins.int:130, builtins.int:170), tuple(builtins.int:170, '
                         'builtins.int:210), tuple(builtins.int:210, builtins.int:250), '
                         'tuple(builtins.int:250, builtins.int:290)))',
 'shape-mismatch|int:7': "list(builtins.int:3, dict{builtins.int:0: dict{builtins.str:'offset': "
                         "builtins.int:10, builtins.str:'size': builtins.int:120}, builtins.int:1: "
                         "dict{builtins.str:'offset': builtins.int:130, builtins.str:'size': "
                         "builtins.int:120}, builtins.int:2: dict{builtins.str:'offset': "
                         "builtins.int:250, builtins.str:'size': builtins.int:40}}, "
                         'builtins.str:"Array(url=\'image\', shape=(3, 20), dtype=\'uint16\', '
                         'records_per_chunk=3)", tuple(builtins.int:3, builtins.int:20), '
                         'builtins.int:2, tuple(builtins.int:3, builtins.int:20), '
                         'list(tuple(builtins.int:10, builtins.int:50), tuple(builtins.int:50, '
                         'builtins.int:90), tuple(builtins.int:90, builtins.int:130), '
                         'tuple(builtins.int:130, builtins.int:170), tuple(builtins.int:170, '
                         'builtins.int:210), tuple(builtins.int:210, builtins.int:250), '
                         'tuple(builtins.int:250, builtins.int:290)))',
 'shape-mismatch|int:8': "list(builtins.int:3, dict{builtins.int:0: dict{builtins.str:'offset': "
                         "builtins.int:10, builtins.str:'size': builtins.int:120}, builtins.int:1: "
                         "dict{builtins.str:'offset': builtins.int:130, builtins.str:'size': "
                         "builtins.int:120}, builtins.int:2: dict{builtins.str:'offset': "
                         "builtins.int:250, builtins.str:'size': builtins.int:40}}, "
                         'builtins.str:"Array(url=\'image\', shape=(3, 20), dtype=\'uint16\', '
                         'records_per_chunk=3)", tuple(builtins.int:3, builtins.int:20), '
                         'builtins.int:2, tuple(builtins.int:3, builtins.int:20), '
                         'list(tuple(builtins.int:10, builtins.int:50), tuple(builtins.int:50, '
                         'builtins.int:90), tuple(builtins.int:90, builtins.int:130), '
                         'tuple(builtins.int:130, builtins.int:170), tuple(builtins.int:170, '
                         'builtins.int:210), tuple(builtins.int:210, builtins.int:250), '
                         'tuple(builtins.int:250, builtins.int:290)))',
 'shape-mismatch|int:1024': "list(builtins.int:3, dict{builtins.int:0: dict{builtins.str:'offset': "
                            "builtins.int:10, builtins.str:'size': builtins.int:120}, "
                            "builtins.int:1: dict{builtins.str:'offset': builtins.int:130, "
                            "builtins.str:'size': builtins.int:120}, builtins.int:2: "
                            "dict{builtins.str:'offset': builtins.int:250, builtins.str:'size': "
                            'builtins.int:40}}, builtins.str:"Array(url=\'image\', shape=(3, 20), '
                            'dtype=\'uint16\', records_per_chunk=3)", tuple(builtins.int:3, '
                            'builtins.int:20), builtins.int:2, tuple(builtins.int:3, '
                            'builtins.int:20), list(tuple(builtins.int:10, builtins.int:50), '
                            'tuple(builtins.int:50, builtins.int:90), tuple(builtins.int:90, '
                            'builtins.int:130), tuple(builtins.int:130, builtins.int:170), '
                            'tuple(builtins.int:170, builtins.int:210), tuple(builtins.int:210, '
                            'builtins.int:250), tuple(builtins.int:250, builtins.int:290)))',
 'shape-mismatch|int:-2': 'list(builtins.int:-2, dict{}, builtins.str:"Array(url=\'image\', '
                          'shape=(3, 20), dtype=\'uint16\', records_per_chunk=-2)", '
                          'tuple(builtins.int:-2, builtins.int:20), builtins.int:2, '
                          'tuple(builtins.int:3, builtins.int:20), list(tuple(builtins.int:10, '
                          'builtins.int:50), tuple(builtins.int:50, builtins.int:90), '
                          'tuple(builtins.int:90, builtins.int:130), tuple(builtins.int:130, '
                          'builtins.int:170), tuple(builtins.int:170, builtins.int:210), '
                          'tuple(builtins.int:210, builtins.int:250), tuple(builtins.int:250, '
                          'builtins.int:290)))',
 'shape-mismatch|bool:True': 'list(builtins.bool:True, dict{builtins.int:0: '
                             "dict{builtins.str:'offset': builtins.int:10, builtins.str:'size': "
                             "builtins.int:40}, builtins.int:1: dict{builtins.str:'offset': "
                             "builtins.int:50, builtins.str:'size': builtins.int:40}, "
                             "builtins.int:2: dict{builtins.str:'offset': builtins.int:90, "
                             "builtins.str:'size': builtins.int:40}, builtins.int:3: "
                             "dict{builtins.str:'offset': builtins.int:130, builtins.str:'size': "
                             "builtins.int:40}, builtins.int:4: dict{builtins.str:'offset': "
                             "builtins.int:170, builtins.str:'size': builtins.int:40}, "
                             "builtins.int:5: dict{builtins.str:'offset': builtins.int:210, "
                             "builtins.str:'size': builtins.int:40}, builtins.int:6: "
                             "dict{builtins.str:'offset': builtins.int:250, builtins.str:'size': "
                             'builtins.int:40}}, builtins.str:"Array(url=\'image\', shape=(3, 20), '
                             'dtype=\'uint16\', records_per_chunk=True)", '
                             'tuple(builtins.bool:True, builtins.int:20), builtins.int:2, '
                             'tuple(builtins.int:3, builtins.int:20), list(tuple(builtins.int:10, '
                             'builtins.int:50), tuple(builtins.int:50, builtins.int:90), '
                             'tuple(builtins.int:90, builtins.int:130), tuple(builtins.int:130, '
                             'builtins.int:170), tuple(builtins.int:170, builtins.int:210), '
                             'tuple(builtins.int:210, builtins.int:250), tuple(builtins.int:250, '
                             'builtins.int:290)))',
 'shape-mismatch|bool:False': 'list(builtins.bool:False, dict{}, '
                              'builtins.str:"Array(url=\'image\', shape=(3, 20), dtype=\'uint16\', '
                              'records_per_chunk=False)", tuple(builtins.bool:False, '
                              'builtins.int:20), builtins.int:2, tuple(builtins.int:3, '
                              'builtins.int:20), list(tuple(builtins.int:10, builtins.int:50), '
                              'tuple(builtins.int:50, builtins.int:90), tuple(builtins.int:90, '
                              'builtins.int:130), tuple(builtins.int:130, builtins.int:170), '
                              'tuple(builtins.int:170, builtins.int:210), tuple(builtins.int:210, '
                              'builtins.int:250), tuple(builtins.int:250, builtins.int:290)))',
 'shape-mismatch|int64:np.int64(3)': 'list(numpy.int64(np.int64(3)), dict{builtins.int:0: '
                                     "dict{builtins.str:'offset': builtins.int:10, "
                                     "builtins.str:'size': builtins.int:120}, builtins.int:1: "
                                     "dict{builtins.str:'offset': builtins.int:130, "
                                     "builtins.str:'size': builtins.int:120}, builtins.int:2: "
                                     "dict{builtins.str:'offset': builtins.int:250, "
                                     "builtins.str:'size': builtins.int:40}}, "
                                     'builtins.str:"Array(url=\'image\', shape=(3, 20), '
                                     'dtype=\'uint16\', records_per_chunk=np.int64(3))", '
                                     'tuple(numpy.int64(np.int64(3)), builtins.int:20), '
                                     'builtins.int:2, tuple(builtins.int:3, builtins.int:20), '
                                     'list(tuple(builtins.int:10, builtins.int:50), '
                                     'tuple(builtins.int:50, builtins.int:90), '
                                     'tuple(builtins.int:90, builtins.int:130), '
                                     'tuple(builtins.int:130, builtins.int:170), '
                                     'tuple(builtins.int:170, builtins.int:210), '
                                     'tuple(builtins.int:210, builtins.int:250), '
                                     'tuple(builtins.int:250, builtins.int:290)))',
 'shape-mismatch|int64:np.int64(-1)': 'list(builtins.int:3, dict{builtins.int:0: '
                                      "dict{builtins.str:'offset': builtins.int:10, "
                                      "builtins.str:'size': builtins.int:120}, builtins.int:1: "
                                      "dict{builtins.str:'offset': builtins.int:130, "
                                      "builtins.str:'size': builtins.int:120}, builtins.int:2: "
                                      "dict{builtins.str:'offset': builtins.int:250, "
                                      "builtins.str:'size': builtins.int:40}}, "
                                      'builtins.str:"Array(url=\'image\', shape=(3, 20), '
                                      'dtype=\'uint16\', records_per_chunk=3)", '
                                      'tuple(builtins.int:3, builtins.int:20), builtins.int:2, '
                                      'tuple(builtins.int:3, builtins.int:20), '
                                      'list(tuple(builtins.int:10, builtins.int:50), '
                                      'tuple(builtins.int:50, builtins.int:90), '
                                      'tuple(builtins.int:90, builtins.int:130), '
                                      'tuple(builtins.int:130, builtins.int:170), '
                                      'tuple(builtins.int:170, builtins.int:210), '
                                      'tuple(builtins.int:210, builtins.int:250), '
                                      'tuple(builtins.int:250, builtins.int:290)))',
 'shape-mismatch|int64:np.int64(1000000)': 'list(builtins.int:3, dict{builtins.int:0: '
                                           "dict{builtins.str:'offset': builtins.int:10, "
                                           "builtins.str:'size': builtins.int:120}, "
                                           "builtins.int:1: dict{builtins.str:'offset': "
                                           "builtins.int:130, builtins.str:'size': "
                                           'builtins.int:120}, builtins.int:2: '
                                           "dict{builtins.str:'offset': builtins.int:250, "
                                           "builtins.str:'size': builtins.int:40}}, "
                                           'builtins.str:"Array(url=\'image\', shape=(3, 20), '
                                           'dtype=\'uint16\', records_per_chunk=3)", '
                                           'tuple(builtins.int:3, builtins.int:20), '
                                           'builtins.int:2, tuple(builtins.int:3, '
                                           'builtins.int:20), list(tuple(builtins.int:10, '
                                           'builtins.int:50), tuple(builtins.int:50, '
                                           'builtins.int:90), tuple(builtins.int:90, '
                                           'builtins.int:130), tuple(builtins.int:130, '
                                           'builtins.int:170), tuple(builtins.int:170, '
                                           'builtins.int:210), tuple(builtins.int:210, '
                                           'builtins.int:250), tuple(builtins.int:250, '
                                           'builtins.int:290)))',
 'shape-mismatch|float:2.0': "raise builtins.TypeError: can't multiply sequence by non-int of type "
                             "'float'",
 'shape-mismatch|float:2.5': "raise builtins.TypeError: can't multiply sequence by non-int of type "
                             "'float'",
 'shape-mismatch|float:-1.0': 'list(builtins.int:3, dict{builtins.int:0: '
                              "dict{builtins.str:'offset': builtins.int:10, builtins.str:'size': "
                              "builtins.int:120}, builtins.int:1: dict{builtins.str:'offset': "
                              "builtins.int:130, builtins.str:'size': builtins.int:120}, "
                              "builtins.int:2: dict{builtins.str:'offset': builtins.int:250, "
                              "builtins.str:'size': builtins.int:40}}, "
                              'builtins.str:"Array(url=\'image\', shape=(3, 20), dtype=\'uint16\', '
                              'records_per_chunk=3)", tuple(builtins.int:3, builtins.int:20), '
                              'builtins.int:2, tuple(builtins.int:3, builtins.int:20), '
                              'list(tuple(builtins.int:10, builtins.int:50), '
                              'tuple(builtins.int:50, builtins.int:90), tuple(builtins.int:90, '
                              'builtins.int:130), tuple(builtins.int:130, builtins.int:170), '
                              'tuple(builtins.int:170, builtins.int:210), tuple(builtins.int:210, '
                              'builtins.int:250), tuple(builtins.int:250, builtins.int:290)))',
 'shape-mismatch|float:nan': "raise builtins.TypeError: can't multiply sequence by non-int of type "
                             "'float'",
 'shape-mismatch|float:inf': 'list(builtins.int:3, dict{builtins.int:0: '
                             "dict{builtins.str:'offset': builtins.int:10, builtins.str:'size': "
                             "builtins.int:120}, builtins.int:1: dict{builtins.str:'offset': "
                             "builtins.int:130, builtins.str:'size': builtins.int:120}, "
                             "builtins.int:2: dict{builtins.str:'offset': builtins.int:250, "
                             "builtins.str:'size': builtins.int:40}}, "
                             'builtins.str:"Array(url=\'image\', shape=(3, 20), dtype=\'uint16\', '
                             'records_per_chunk=3)", tuple(builtins.int:3, builtins.int:20), '
                             'builtins.int:2, tuple(builtins.int:3, builtins.int:20), '
                             'list(tuple(builtins.int:10, builtins.int:50), tuple(builtins.int:50, '
                             'builtins.int:90), tuple(builtins.int:90, builtins.int:130), '
                             'tuple(builtins.int:130, builtins.int:170), tuple(builtins.int:170, '
                             'builtins.int:210), tuple(builtins.int:210, builtins.int:250), '
                             'tuple(builtins.int:250, builtins.int:290)))',
 "shape-mismatch|bytes:b'auto'": "raise builtins.TypeError: '>' not supported between instances of "
                                 "'bytes' and 'int'",
 'shape-mismatch|list:[2]': "raise builtins.TypeError: '>' not supported between instances of "
                            "'list' and 'int'",
 'shape-mismatch|tuple:(2,)': "raise builtins.TypeError: '>' not supported between instances of "
                              "'tuple' and 'int'",
 'shape-mismatch|dict:{}': "raise builtins.TypeError: '>' not supported between instances of "
                           "'dict' and 'int'",
 'shape-mismatch|complex:(1+0j)': "raise builtins.TypeError: '>' not supported between instances "
                                  "of 'complex' and 'int'",
 "reversed|str:'<omitted>'": 'list(builtins.int:1024, dict{builtins.int:0: '
                             "dict{builtins.str:'offset': builtins.int:10, builtins.str:'size': "
                             'builtins.int:280}}, builtins.str:"Array(url=\'image\', shape=(7, '
                             '20), dtype=\'uint16\', records_per_chunk=1024)", '
                             'tuple(builtins.int:1024, builtins.int:20), builtins.int:2, '
                             'tuple(builtins.int:7, builtins.int:20), list(tuple(builtins.int:250, '
                             'builtins.int:290), tuple(builtins.int:210, builtins.int:250), '
                             'tuple(builtins.int:170, builtins.int:210), tuple(builtins.int:130, '
                             'builtins.int:170), tuple(builtins.int:90, builtins.int:130), '
                             'tuple(builtins.int:50, builtins.int:90), tuple(builtins.int:10, '
                             'builtins.int:50)))',
 'reversed|NoneType:None': 'list(builtins.int:1024, dict{builtins.int:0: '
                           "dict{builtins.str:'offset': builtins.int:10, builtins.str:'size': "
                           'builtins.int:280}}, builtins.str:"Array(url=\'image\', shape=(7, 20), '
                           'dtype=\'uint16\', records_per_chunk=1024)", tuple(builtins.int:1024, '
                           'builtins.int:20), builtins.int:2, tuple(builtins.int:7, '
                           'builtins.int:20), list(tuple(builtins.int:250, builtins.int:290), '
                           'tuple(builtins.int:210, builtins.int:250), tuple(builtins.int:170, '
                           'builtins.int:210), tuple(builtins.int:130, builtins.int:170), '
                           'tuple(builtins.int:90, builtins.int:130), tuple(builtins.int:50, '
                           'builtins.int:90), tuple(builtins.int:10, builtins.int:50)))',
 "reversed|str:'auto'": 'list(numpy.int64(np.int64(7)), dict{builtins.int:0: '
                        "dict{builtins.str:'offset': builtins.int:10, builtins.str:'size': "
                        'builtins.int:280}}, builtins.str:"Array(url=\'image\', shape=(7, 20), '
                        'dtype=\'uint16\', records_per_chunk=np.int64(7))", '
                        'tuple(numpy.int64(np.int64(7)), builtins.int:20), builtins.int:2, '
                        'tuple(builtins.int:7, builtins.int:20), list(tuple(builtins.int:250, '
                        'builtins.int:290), tuple(builtins.int:210, builtins.int:250), '
                        'tuple(builtins.int:170, builtins.int:210), tuple(builtins.int:130, '
                        'builtins.int:170), tuple(builtins.int:90, builtins.int:130), '
                        'tuple(builtins.int:50, builtins.int:90), tuple(builtins.int:10, '
                        'builtins.int:50)))',
 "reversed|str:'80B'": 'list(numpy.int64(np.int64(2)), dict{builtins.int:0: '
                       "dict{builtins.str:'offset': builtins.int:210, builtins.str:'size': "
                       "builtins.int:80}, builtins.int:1: dict{builtins.str:'offset': "
                       "builtins.int:130, builtins.str:'size': builtins.int:80}, builtins.int:2: "
                       "dict{builtins.str:'offset': builtins.int:50, builtins.str:'size': "
                       "builtins.int:80}, builtins.int:3: dict{builtins.str:'offset': "
                       "builtins.int:10, builtins.str:'size': builtins.int:40}}, "
                       'builtins.str:"Array(url=\'image\', shape=(7, 20), dtype=\'uint16\', '
                       'records_per_chunk=np.int64(2))", tuple(numpy.int64(np.int64(2)), '
                       'builtins.int:20), builtins.int:2, tuple(builtins.int:7, builtins.int:20), '
                       'list(tuple(builtins.int:250, builtins.int:290), tuple(builtins.int:210, '
                       'builtins.int:250), tuple(builtins.int:170, builtins.int:210), '
                       'tuple(builtins.int:130, builtins.int:170), tuple(builtins.int:90, '
                       'builtins.int:130), tuple(builtins.int:50, builtins.int:90), '
                       'tuple(builtins.int:10, builtins.int:50)))',
 "reversed|str:'81B'": 'list(numpy.int64(np.int64(2)), dict{builtins.int:0: '
                       "dict{builtins.str:'offset': builtins.int:210, builtins.str:'size': "
                       "builtins.int:80}, builtins.int:1: dict{builtins.str:'offset': "
                       "builtins.int:130, builtins.str:'size': builtins.int:80}, builtins.int:2: "
                       "dict{builtins.str:'offset': builtins.int:50, builtins.str:'size': "
                       "builtins.int:80}, builtins.int:3: dict{builtins.str:'offset': "
                       "builtins.int:10, builtins.str:'size': builtins.int:40}}, "
                       'builtins.str:"Array(url=\'image\', shape=(7, 20), dtype=\'uint16\', '
                       'records_per_chunk=np.int64(2))", tuple(numpy.int64(np.int64(2)), '
                       'builtins.int:20), builtins.int:2, tuple(builtins.int:7, builtins.int:20), '
                       'list(tuple(builtins.int:250, builtins.int:290), tuple(builtins.int:210, '
                       'builtins.int:250), tuple(builtins.int:170, builtins.int:210), '
                       'tuple(builtins.int:130, builtins.int:170), tuple(builtins.int:90, '
                       'builtins.int:130), tuple(builtins.int:50, builtins.int:90), '
                       'tuple(builtins.int:10, builtins.int:50)))',
 "reversed|str:'100B'": 'list(numpy.int64(np.int64(2)), dict{builtins.int:0: '
                        "dict{builtins.str:'offset': builtins.int:210, builtins.str:'size': "
                        "builtins.int:80}, builtins.int:1: dict{builtins.str:'offset': "
                        "builtins.int:130, builtins.str:'size': builtins.int:80}, builtins.int:2: "
                        "dict{builtins.str:'offset': builtins.int:50, builtins.str:'size': "
                        "builtins.int:80}, builtins.int:3: dict{builtins.str:'offset': "
                        "builtins.int:10, builtins.str:'size': builtins.int:40}}, "
                        'builtins.str:"Array(url=\'image\', shape=(7, 20), dtype=\'uint16\', '
                        'records_per_chunk=np.int64(2))", tuple(numpy.int64(np.int64(2)), '
                        'builtins.int:20), builtins.int:2, tuple(builtins.int:7, builtins.int:20), '
                        'list(tuple(builtins.int:250, builtins.int:290), tuple(builtins.int:210, '
                        'builtins.int:250), tuple(builtins.int:170, builtins.int:210), '
                        'tuple(builtins.int:130, builtins.int:170), tuple(builtins.int:90, '
                        'builtins.int:130), tuple(builtins.int:50, builtins.int:90), '
                        'tuple(builtins.int:10, builtins.int:50)))',
 "reversed|str:'119B'": 'list(numpy.int64(np.int64(3)), dict{builtins.int:0: '
                        "dict{builtins.str:'offset': builtins.int:170, builtins.str:'size': "
                        "builtins.int:120}, builtins.int:1: dict{builtins.str:'offset': "
                        "builtins.int:50, builtins.str:'size': builtins.int:120}, builtins.int:2: "
                        "dict{builtins.str:'offset': builtins.int:10, builtins.str:'size': "
                        'builtins.int:40}}, builtins.str:"Array(url=\'image\', shape=(7, 20), '
                        'dtype=\'uint16\', records_per_chunk=np.int64(3))", '
                        'tuple(numpy.int64(np.int64(3)), builtins.int:20), builtins.int:2, '
                        'tuple(builtins.int:7, builtins.int:20), list(tuple(builtins.int:250, '
                        'builtins.int:290), tuple(builtins.int:210, builtins.int:250), '
                        'tuple(builtins.int:170, builtins.int:210), tuple(builtins.int:130, '
                        'builtins.int:170), tuple(builtins.int:90, builtins.int:130), '
                        'tuple(builtins.int:50, builtins.int:90), tuple(builtins.int:10, '
                        'builtins.int:50)))',
 "reversed|str:'120B'": 'list(numpy.int64(np.int64(3)), dict{builtins.int:0: '
                        "dict{builtins.str:'offset': builtins.int:170, builtins.str:'size': "
                        "builtins.int:120}, builtins.int:1: dict{builtins.str:'offset': "
                        "builtins.int:50, builtins.str:'size': builtins.int:120}, builtins.int:2: "
                        "dict{builtins.str:'offset': builtins.int:10, builtins.str:'size': "
                        'builtins.int:40}}, builtins.str:"Array(url=\'image\', shape=(7, 20), '
                        'dtype=\'uint16\', records_per_chunk=np.int64(3))", '
                        'tuple(numpy.int64(np.int64(3)), builtins.int:20), builtins.int:2, '
                        'tuple(builtins.int:7, builtins.int:20), list(tuple(builtins.int:250, '
                        'builtins.int:290), tuple(builtins.int:210, builtins.int:250), '
                        'tuple(builtins.int:170, builtins.int:210), tuple(builtins.int:130, '
                        'builtins.int:170), tuple(builtins.int:90, builtins.int:130), '
                        'tuple(builtins.int:50, builtins.int:90), tuple(builtins.int:10, '
                        'builtins.int:50)))',
 "reversed|str:'121B'": 'list(numpy.int64(np.int64(3)), dict{builtins.int:0: '
                        "dict{builtins.str:'offset': builtins.int:170, builtins.str:'size': "
                        "builtins.int:120}, builtins.int:1: dict{builtins.str:'offset': "
                        "builtins.int:50, builtins.str:'size': builtins.int:120}, builtins.int:2: "
                        "dict{builtins.str:'offset': builtins.int:10, builtins.str:'size': "
                        'builtins.int:40}}, builtins.str:"Array(url=\'image\', shape=(7, 20), '
                        'dtype=\'uint16\', records_per_chunk=np.int64(3))", '
                        'tuple(numpy.int64(np.int64(3)), builtins.int:20), builtins.int:2, '
                        'tuple(builtins.int:7, builtins.int:20), list(tuple(builtins.int:250, '
                        'builtins.int:290), tuple(builtins.int:210, builtins.int:250), '
                        'tuple(builtins.int:170, builtins.int:210), tuple(builtins.int:130, '
                        'builtins.int:170), tuple(builtins.int:90, builtins.int:130), '
                        'tuple(builtins.int:50, builtins.int:90), tuple(builtins.int:10, '
                        'builtins.int:50)))',
 "reversed|str:'0B'": 'list(numpy.int64(np.int64(1)), dict{builtins.int:0: '
                      "dict{builtins.str:'offset': builtins.int:250, builtins.str:'size': "
                      "builtins.int:40}, builtins.int:1: dict{builtins.str:'offset': "
                      "builtins.int:210, builtins.str:'size': builtins.int:40}, builtins.int:2: "
                      "dict{builtins.str:'offset': builtins.int:170, builtins.str:'size': "
                      "builtins.int:40}, builtins.int:3: dict{builtins.str:'offset': "
                      "builtins.int:130, builtins.str:'size': builtins.int:40}, builtins.int:4: "
                      "dict{builtins.str:'offset': builtins.int:90, builtins.str:'size': "
                      "builtins.int:40}, builtins.int:5: dict{builtins.str:'offset': "
                      "builtins.int:50, builtins.str:'size': builtins.int:40}, builtins.int:6: "
                      "dict{builtins.str:'offset': builtins.int:10, builtins.str:'size': "
                      'builtins.int:40}}, builtins.str:"Array(url=\'image\', shape=(7, 20), '
                      'dtype=\'uint16\', records_per_chunk=np.int64(1))", '
                      'tuple(numpy.int64(np.int64(1)), builtins.int:20), builtins.int:2, '
                      'tuple(builtins.int:7, builtins.int:20), list(tuple(builtins.int:250, '
                      'builtins.int:290), tuple(builtins.int:210, builtins.int:250), '
                      'tuple(builtins.int:170, builtins.int:210), tuple(builtins.int:130, '
                      'builtins.int:170), tuple(builtins.int:90, builtins.int:130), '
                      'tuple(builtins.int:50, builtins.int:90), tuple(builtins.int:10, '
                      'builtins.int:50)))',
 "reversed|str:'1kB'": 'list(numpy.int64(np.int64(7)), dict{builtins.int:0: '
                       "dict{builtins.str:'offset': builtins.int:10, builtins.str:'size': "
                       'builtins.int:280}}, builtins.str:"Array(url=\'image\', shape=(7, 20), '
                       'dtype=\'uint16\', records_per_chunk=np.int64(7))", '
                       'tuple(numpy.int64(np.int64(7)), builtins.int:20), builtins.int:2, '
                       'tuple(builtins.int:7, builtins.int:20), list(tuple(builtins.int:250, '
                       'builtins.int:290), tuple(builtins.int:210, builtins.int:250), '
                       'tuple(builtins.int:170, builtins.int:210), tuple(builtins.int:130, '
                       'builtins.int:170), tuple(builtins.int:90, builtins.int:130), '
                       'tuple(builtins.int:50, builtins.int:90), tuple(builtins.int:10, '
                       'builtins.int:50)))',
 "reversed|str:'1kiB'": 'list(numpy.int64(np.int64(7)), dict{builtins.int:0: '
                        "dict{builtins.str:'offset': builtins.int:10, builtins.str:'size': "
                        'builtins.int:280}}, builtins.str:"Array(url=\'image\', shape=(7, 20), '
                        'dtype=\'uint16\', records_per_chunk=np.int64(7))", '
                        'tuple(numpy.int64(np.int64(7)), builtins.int:20), builtins.int:2, '
                        'tuple(builtins.int:7, builtins.int:20), list(tuple(builtins.int:250, '
                        'builtins.int:290), tuple(builtins.int:210, builtins.int:250), '
                        'tuple(builtins.int:170, builtins.int:210), tuple(builtins.int:130, '
                        'builtins.int:170), tuple(builtins.int:90, builtins.int:130), '
                        'tuple(builtins.int:50, builtins.int:90), tuple(builtins.int:10, '
                        'builtins.int:50)))',
 "reversed|str:'1 MiB'": 'list(numpy.int64(np.int64(7)), dict{builtins.int:0: '
                         "dict{builtins.str:'offset': builtins.int:10, builtins.str:'size': "
                         'builtins.int:280}}, builtins.str:"Array(url=\'image\', shape=(7, 20), '
                         'dtype=\'uint16\', records_per_chunk=np.int64(7))", '
                         'tuple(numpy.int64(np.int64(7)), builtins.int:20), builtins.int:2, '
                         'tuple(builtins.int:7, builtins.int:20), list(tuple(builtins.int:250, '
                         'builtins.int:290), tuple(builtins.int:210, builtins.int:250), '
                         'tuple(builtins.int:170, builtins.int:210), tuple(builtins.int:130, '
                         'builtins.int:170), tuple(builtins.int:90, builtins.int:130), '
                         'tuple(builtins.int:50, builtins.int:90), tuple(builtins.int:10, '
                         'builtins.int:50)))',
 "reversed|str:'95MiB'": 'list(numpy.int64(np.int64(7)), dict{builtins.int:0: '
                         "dict{builtins.str:'offset': builtins.int:10, builtins.str:'size': "
                         'builtins.int:280}}, builtins.str:"Array(url=\'image\', shape=(7, 20), '
                         'dtype=\'uint16\', records_per_chunk=np.int64(7))", '
                         'tuple(numpy.int64(np.int64(7)), builtins.int:20), builtins.int:2, '
                         'tuple(builtins.int:7, builtins.int:20), list(tuple(builtins.int:250, '
                         'builtins.int:290), tuple(builtins.int:210, builtins.int:250), '
                         'tuple(builtins.int:170, builtins.int:210), tuple(builtins.int:130, '
                         'builtins.int:170), tuple(builtins.int:90, builtins.int:130), '
                         'tuple(builtins.int:50, builtins.int:90), tuple(builtins.int:10, '
                         'builtins.int:50)))',
 "reversed|str:'0.1 GB'": 'list(numpy.int64(np.int64(7)), dict{builtins.int:0: '
                          "dict{builtins.str:'offset': builtins.int:10, builtins.str:'size': "
                          'builtins.int:280}}, builtins.str:"Array(url=\'image\', shape=(7, 20), '
                          'dtype=\'uint16\', records_per_chunk=np.int64(7))", '
                          'tuple(numpy.int64(np.int64(7)), builtins.int:20), builtins.int:2, '
                          'tuple(builtins.int:7, builtins.int:20), list(tuple(builtins.int:250, '
                          'builtins.int:290), tuple(builtins.int:210, builtins.int:250), '
                          'tuple(builtins.int:170, builtins.int:210), tuple(builtins.int:130, '
                          'builtins.int:170), tuple(builtins.int:90, builtins.int:130), '
                          'tuple(builtins.int:50, builtins.int:90), tuple(builtins.int:10, '
                          'builtins.int:50)))',
 "reversed|str:'100'": 'list(numpy.int64(np.int64(2)), dict{builtins.int:0: '
                       "dict{builtins.str:'offset': builtins.int:210, builtins.str:'size': "
                       "builtins.int:80}, builtins.int:1: dict{builtins.str:'offset': "
                       "builtins.int:130, builtins.str:'size': builtins.int:80}, builtins.int:2: "
                       "dict{builtins.str:'offset': builtins.int:50, builtins.str:'size': "
                       "builtins.int:80}, builtins.int:3: dict{builtins.str:'offset': "
                       "builtins.int:10, builtins.str:'size': builtins.int:40}}, "
                       'builtins.str:"Array(url=\'image\', shape=(7, 20), dtype=\'uint16\', '
                       'records_per_chunk=np.int64(2))", tuple(numpy.int64(np.int64(2)), '
                       'builtins.int:20), builtins.int:2, tuple(builtins.int:7, builtins.int:20), '
                       'list(tuple(builtins.int:250, builtins.int:290), tuple(builtins.int:210, '
                       'builtins.int:250), tuple(builtins.int:170, builtins.int:210), '
                       'tuple(builtins.int:130, builtins.int:170), tuple(builtins.int:90, '
                       'builtins.int:130), tuple(builtins.int:50, builtins.int:90), '
                       'tuple(builtins.int:10, builtins.int:50)))',
 "reversed|str:'1e2'": 'list(numpy.int64(np.int64(2)), dict{builtins.int:0: '
                       "dict{builtins.str:'offset': builtins.int:210, builtins.str:'size': "
                       "builtins.int:80}, builtins.int:1: dict{builtins.str:'offset': "
                       "builtins.int:130, builtins.str:'size': builtins.int:80}, builtins.int:2: "
                       "dict{builtins.str:'offset': builtins.int:50, builtins.str:'size': "
                       "builtins.int:80}, builtins.int:3: dict{builtins.str:'offset': "
                       "builtins.int:10, builtins.str:'size': builtins.int:40}}, "
                       'builtins.str:"Array(url=\'image\', shape=(7, 20), dtype=\'uint16\', '
                       'records_per_chunk=np.int64(2))", tuple(numpy.int64(np.int64(2)), '
                       'builtins.int:20), builtins.int:2, tuple(builtins.int:7, builtins.int:20), '
                       'list(tuple(builtins.int:250, builtins.int:290), tuple(builtins.int:210, '
                       'builtins.int:250), tuple(builtins.int:170, builtins.int:210), '
                       'tuple(builtins.int:130, builtins.int:170), tuple(builtins.int:90, '
                       'builtins.int:130), tuple(builtins.int:50, builtins.int:90), '
                       'tuple(builtins.int:10, builtins.int:50)))',
 "reversed|str:'kB'": 'list(numpy.int64(np.int64(7)), dict{builtins.int:0: '
                      "dict{builtins.str:'offset': builtins.int:10, builtins.str:'size': "
                      'builtins.int:280}}, builtins.str:"Array(url=\'image\', shape=(7, 20), '
                      'dtype=\'uint16\', records_per_chunk=np.int64(7))", '
                      'tuple(numpy.int64(np.int64(7)), builtins.int:20), builtins.int:2, '
                      'tuple(builtins.int:7, builtins.int:20), list(tuple(builtins.int:250, '
                      'builtins.int:290), tuple(builtins.int:210, builtins.int:250), '
                      'tuple(builtins.int:170, builtins.int:210), tuple(builtins.int:130, '
                      'builtins.int:170), tuple(builtins.int:90, builtins.int:130), '
                      'tuple(builtins.int:50, builtins.int:90), tuple(builtins.int:10, '
                      'builtins.int:50)))',
 "reversed|str:''": 'list(numpy.int64(np.int64(1)), dict{builtins.int:0: '
                    "dict{builtins.str:'offset': builtins.int:250, builtins.str:'size': "
                    "builtins.int:40}, builtins.int:1: dict{builtins.str:'offset': "
                    "builtins.int:210, builtins.str:'size': builtins.int:40}, builtins.int:2: "
                    "dict{builtins.str:'offset': builtins.int:170, builtins.str:'size': "
                    "builtins.int:40}, builtins.int:3: dict{builtins.str:'offset': "
                    "builtins.int:130, builtins.str:'size': builtins.int:40}, builtins.int:4: "
                    "dict{builtins.str:'offset': builtins.int:90, builtins.str:'size': "
                    "builtins.int:40}, builtins.int:5: dict{builtins.str:'offset': "
                    "builtins.int:50, builtins.str:'size': builtins.int:40}, builtins.int:6: "
                    "dict{builtins.str:'offset': builtins.int:10, builtins.str:'size': "
                    'builtins.int:40}}, builtins.str:"Array(url=\'image\', shape=(7, 20), '
                    'dtype=\'uint16\', records_per_chunk=np.int64(1))", '
                    'tuple(numpy.int64(np.int64(1)), builtins.int:20), builtins.int:2, '
                    'tuple(builtins.int:7, builtins.int:20), list(tuple(builtins.int:250, '
                    'builtins.int:290), tuple(builtins.int:210, builtins.int:250), '
                    'tuple(builtins.int:170, builtins.int:210), tuple(builtins.int:130, '
                    'builtins.int:170), tuple(builtins.int:90, builtins.int:130), '
                    'tuple(builtins.int:50, builtins.int:90), tuple(builtins.int:10, '
                    'builtins.int:50)))',
 "reversed|str:'5 foos'": "raise builtins.ValueError: Could not interpret 'foos' as a byte unit",
 "reversed|str:'abc'": "raise builtins.ValueError: Could not interpret 'abc' as a byte unit",
 "reversed|str:'AUTO'": "raise builtins.ValueError: Could not interpret 'AUTO' as a byte unit",
 "reversed|str:' auto'": "raise builtins.ValueError: Could not interpret 'auto' as a byte unit",
 "reversed|Text:'auto'": 'list(numpy.int64(np.int64(7)), dict{builtins.int:0: '
                         "dict{builtins.str:'offset': builtins.int:10, builtins.str:'size': "
                         'builtins.int:280}}, builtins.str:"Array(url=\'image\', shape=(7, 20), '
                         'dtype=\'uint16\', records_per_chunk=np.int64(7))", '
                         'tuple(numpy.int64(np.int64(7)), builtins.int:20), builtins.int:2, '
                         'tuple(builtins.int:7, builtins.int:20), list(tuple(builtins.int:250, '
                         'builtins.int:290), tuple(builtins.int:210, builtins.int:250), '
                         'tuple(builtins.int:170, builtins.int:210), tuple(builtins.int:130, '
                         'builtins.int:170), tuple(builtins.int:90, builtins.int:130), '
                         'tuple(builtins.int:50, builtins.int:90), tuple(builtins.int:10, '
                         'builtins.int:50)))',
 "reversed|Text:'160B'": 'list(numpy.int64(np.int64(4)), dict{builtins.int:0: '
                         "dict{builtins.str:'offset': builtins.int:130, builtins.str:'size': "
                         "builtins.int:160}, builtins.int:1: dict{builtins.str:'offset': "
                         "builtins.int:10, builtins.str:'size': builtins.int:120}}, "
                         'builtins.str:"Array(url=\'image\', shape=(7, 20), dtype=\'uint16\', '
                         'records_per_chunk=np.int64(4))", tuple(numpy.int64(np.int64(4)), '
                         'builtins.int:20), builtins.int:2, tuple(builtins.int:7, '
                         'builtins.int:20), list(tuple(builtins.int:250, builtins.int:290), '
                         'tuple(builtins.int:210, builtins.int:250), tuple(builtins.int:170, '
                         'builtins.int:210), tuple(builtins.int:130, builtins.int:170), '
                         'tuple(builtins.int:90, builtins.int:130), tuple(builtins.int:50, '
                         'builtins.int:90), tuple(builtins.int:10, builtins.int:50)))',
 'reversed|int:-1': "list(builtins.int:7, dict{builtins.int:0: dict{builtins.str:'offset': "
                    "builtins.int:10, builtins.str:'size': builtins.int:280}}, "
                    'builtins.str:"Array(url=\'image\', shape=(7, 20), dtype=\'uint16\', '
                    'records_per_chunk=7)", tuple(builtins.int:7, builtins.int:20), '
                    'builtins.int:2, tuple(builtins.int:7, builtins.int:20), '
                    'list(tuple(builtins.int:250, builtins.int:290), tuple(builtins.int:210, '
                    'builtins.int:250), tuple(builtins.int:170, builtins.int:210), '
                    'tuple(builtins.int:130, builtins.int:170), tuple(builtins.int:90, '
                    'builtins.int:130), tuple(builtins.int:50, builtins.int:90), '
                    'tuple(builtins.int:10, builtins.int:50)))',
 'reversed|int:0': 'list(builtins.int:0, dict{}, builtins.str:"Array(url=\'image\', shape=(7, 20), '
                   'dtype=\'uint16\', records_per_chunk=0)", tuple(builtins.int:0, '
                   'builtins.int:20), builtins.int:2, tuple(builtins.int:7, builtins.int:20), '
                   'list(tuple(builtins.int:250, builtins.int:290), tuple(builtins.int:210, '
                   'builtins.int:250), tuple(builtins.int:170, builtins.int:210), '
                   'tuple(builtins.int:130, builtins.int:170), tuple(builtins.int:90, '
                   'builtins.int:130), tuple(builtins.int:50, builtins.int:90), '
                   'tuple(builtins.int:10, builtins.int:50)))',
 'reversed|int:1': "list(builtins.int:1, dict{builtins.int:0: dict{builtins.str:'offset': "
                   "builtins.int:250, builtins.str:'size': builtins.int:40}, builtins.int:1: "
                   "dict{builtins.str:'offset': builtins.int:210, builtins.str:'size': "
                   "builtins.int:40}, builtins.int:2: dict{builtins.str:'offset': "
                   "builtins.int:170, builtins.str:'size': builtins.int:40}, builtins.int:3: "
                   "dict{builtins.str:'offset': builtins.int:130, builtins.str:'size': "
                   "builtins.int:40}, builtins.int:4: dict{builtins.str:'offset': builtins.int:90, "
                   "builtins.str:'size': builtins.int:40}, builtins.int:5: "
                   "dict{builtins.str:'offset': builtins.int:50, builtins.str:'size': "
                   "builtins.int:40}, builtins.int:6: dict{builtins.str:'offset': builtins.int:10, "
                   'builtins.str:\'size\': builtins.int:40}}, builtins.str:"Array(url=\'image\', '
                   'shape=(7, 20), dtype=\'uint16\', records_per_chunk=1)", tuple(builtins.int:1, '
                   'builtins.int:20), builtins.int:2, tuple(builtins.int:7, builtins.int:20), '
                   'list(tuple(builtins.int:250, builtins.int:290), tuple(builtins.int:210, '
                   'builtins.int:250), tuple(builtins.int:170, builtins.int:210), '
                   'tuple(builtins.int:130, builtins.int:170), tuple(builtins.int:90, '
                   'builtins.int:130), tuple(builtins.int:50, builtins.int:90), '
                   'tuple(builtins.int:10, builtins.int:50)))',
 'reversed|int:2': "list(builtins.int:2, dict{builtins.int:0: dict{builtins.str:'offset': "
                   "builtins.int:210, builtins.str:'size': builtins.int:80}, builtins.int:1: "
                   "dict{builtins.str:'offset': builtins.int:130, builtins.str:'size': "
                   "builtins.int:80}, builtins.int:2: dict{builtins.str:'offset': builtins.int:50, "
                   "builtins.str:'size': builtins.int:80}, builtins.int:3: "
                   "dict{builtins.str:'offset': builtins.int:10, builtins.str:'size': "
                   'builtins.int:40}}, builtins.str:"Array(url=\'image\', shape=(7, 20), '
                   'dtype=\'uint16\', records_per_chunk=2)", tuple(builtins.int:2, '
                   'builtins.int:20), builtins.int:2, tuple(builtins.int:7, builtins.int:20), '
                   'list(tuple(builtins.int:250, builtins.int:290), tuple(builtins.int:210, '
                   'builtins.int:250), tuple(builtins.int:170, builtins.int:210), '
                   'tuple(builtins.int:130, builtins.int:170), tuple(builtins.int:90, '
                   'builtins.int:130), tuple(builtins.int:50, builtins.int:90), '
                   'tuple(builtins.int:10, builtins.int:50)))',
 'reversed|int:3': "list(builtins.int:3, dict{builtins.int:0: dict{builtins.str:'offset': "
                   "builtins.int:170, builtins.str:'size': builtins.int:120}, builtins.int:1: "
                   "dict{builtins.str:'offset': builtins.int:50, builtins.str:'size': "
                   "builtins.int:120}, builtins.int:2: dict{builtins.str:'offset': "
                   "builtins.int:10, builtins.str:'size': builtins.int:40}}, "
                   'builtins.str:"Array(url=\'image\', shape=(7, 20), dtype=\'uint16\', '
                   'records_per_chunk=3)", tuple(builtins.int:3, builtins.int:20), builtins.int:2, '
                   'tuple(builtins.int:7, builtins.int:20), list(tuple(builtins.int:250, '
                   'builtins.int:290), tuple(builtins.int:210, builtins.int:250), '
                   'tuple(builtins.int:170, builtins.int:210), tuple(builtins.int:130, '
                   'builtins.int:170), tuple(builtins.int:90, builtins.int:130), '
                   'tuple(builtins.int:50, builtins.int:90), tuple(builtins.int:10, '
                   'builtins.int:50)))',
 'reversed|int:4': "list(builtins.int:4, dict{builtins.int:0: dict{builtins.str:'offset': "
                   "builtins.int:130, builtins.str:'size': builtins.int:160}, builtins.int:1: "
                   "dict{builtins.str:'offset': builtins.int:10, builtins.str:'size': "
                   'builtins.int:120}}, builtins.str:"Array(url=\'image\', shape=(7, 20), '
                   'dtype=\'uint16\', records_per_chunk=4)", tuple(builtins.int:4, '
                   'builtins.int:20), builtins.int:2, tuple(builtins.int:7, builtins.int:20), '
                   'list(tuple(builtins.int:250, builtins.int:290), tuple(builtins.int:210, '
                   'builtins.int:250), tuple(builtins.int:170, builtins.int:210), '
                   'tuple(builtins.int:130, builtins.int:170), tuple(builtins.int:90, '
                   'builtins.int:130), tuple(builtins.int:50, builtins.int:90), '
                   'tuple(builtins.int:10, builtins.int:50)))',
 'reversed|int:5': "list(builtins.int:5, dict{builtins.int:0: dict{builtins.str:'offset': "
                   "builtins.int:90, builtins.str:'size': builtins.int:200}, builtins.int:1: "
                   "dict{builtins.str:'offset': builtins.int:10, builtins.str:'size': "
                   'builtins.int:80}}, builtins.str:"Array(url=\'image\', shape=(7, 20), '
                   'dtype=\'uint16\', records_per_chunk=5)", tuple(builtins.int:5, '
                   'builtins.int:20), builtins.int:2, tuple(builtins.int:7, builtins.int:20), '
                   'list(tuple(builtins.int:250, builtins.int:290), tuple(builtins.int:210, '
                   'builtins.int:250), tuple(builtins.int:170, builtins.int:210), '
                   'tuple(builtins.int:130, builtins.int:170), tuple(builtins.int:90, '
                   'builtins.int:130), tuple(builtins.int:50, builtins.int:90), '
                   'tuple(builtins.int:10, builtins.int:50)))',
 'reversed|int:6': "list(builtins.int:6, dict{builtins.int:0: dict{builtins.str:'offset': "
                   "builtins.int:50, builtins.str:'size': builtins.int:240}, builtins.int:1: "
                   "dict{builtins.str:'offset': builtins.int:10, builtins.str:'size': "
                   'builtins.int:40}}, builtins.str:"Array(url=\'image\', shape=(7, 20), '
                   'dtype=\'uint16\', records_per_chunk=6)", tuple(builtins.int:6, '
                   'builtins.int:20), builtins.int:2, tuple(builtins.int:7, builtins.int:20), '
                   'list(tuple(builtins.int:250, builtins.int:290), tuple(builtins.int:210, '
                   'builtins.int:250), tuple(builtins.int:170, builtins.int:210), '
                   'tuple(builtins.int:130, builtins.int:170), tuple(builtins.int:90, '
                   'builtins.int:130), tuple(builtins.int:50, builtins.int:90), '
                   'tuple(builtins.int:10, builtins.int:50)))',
 'reversed|int:7': "list(builtins.int:7, dict{builtins.int:0: dict{builtins.str:'offset': "
                   "builtins.int:10, builtins.str:'size': builtins.int:280}}, "
                   'builtins.str:"Array(url=\'image\', shape=(7, 20), dtype=\'uint16\', '
                   'records_per_chunk=7)", tuple(builtins.int:7, builtins.int:20), builtins.int:2, '
                   'tuple(builtins.int:7, builtins.int:20), list(tuple(builtins.int:250, '
                   'builtins.int:290), tuple(builtins.int:210, builtins.int:250), '
                   'tuple(builtins.int:170, builtins.int:210), tuple(builtins.int:130, '
                   'builtins.int:170), tuple(builtins.int:90, builtins.int:130), '
                   'tuple(builtins.int:50, builtins.int:90), tuple(builtins.int:10, '
                   'builtins.int:50)))',
 'reversed|int:8': "list(builtins.int:7, dict{builtins.int:0: dict{builtins.str:'offset': "
                   "builtins.int:10, builtins.str:'size': builtins.int:280}}, "
                   'builtins.str:"Array(url=\'image\', shape=(7, 20), dtype=\'uint16\', '
                   'records_per_chunk=7)", tuple(builtins.int:7, builtins.int:20), builtins.int:2, '
                   'tuple(builtins.int:7, builtins.int:20), list(tuple(builtins.int:250, '
                   'builtins.int:290), tuple(builtins.int:210, builtins.int:250), '
                   'tuple(builtins.int:170, builtins.int:210), tuple(builtins.int:130, '
                   'builtins.int:170), tuple(builtins.int:90, builtins.int:130), '
                   'tuple(builtins.int:50, builtins.int:90), tuple(builtins.int:10, '
                   'builtins.int:50)))',
 'reversed|int:1024': "list(builtins.int:7, dict{builtins.int:0: dict{builtins.str:'offset': "
                      "builtins.int:10, builtins.str:'size': builtins.int:280}}, "
                      'builtins.str:"Array(url=\'image\', shape=(7, 20), dtype=\'uint16\', '
                      'records_per_chunk=7)", tuple(builtins.int:7, builtins.int:20), '
                      'builtins.int:2, tuple(builtins.int:7, builtins.int:20), '
                      'list(tuple(builtins.int:250, builtins.int:290), tuple(builtins.int:210, '
                      'builtins.int:250), tuple(builtins.int:170, builtins.int:210), '
                      'tuple(builtins.int:130, builtins.int:170), tuple(builtins.int:90, '
                      'builtins.int:130), tuple(builtins.int:50, builtins.int:90), '
                      'tuple(builtins.int:10, builtins.int:50)))',
 'reversed|int:-2': 'list(builtins.int:-2, dict{}, builtins.str:"Array(url=\'image\', shape=(7, '
                    '20), dtype=\'uint16\', records_per_chunk=-2)", tuple(builtins.int:-2, '
                    'builtins.int:20), builtins.int:2, tuple(builtins.int:7, builtins.int:20), '
                    'list(tuple(builtins.int:250, builtins.int:290), tuple(builtins.int:210, '
                    'builtins.int:250), tuple(builtins.int:170, builtins.int:210), '
                    'tuple(builtins.int:130, builtins.int:170), tuple(builtins.int:90, '
                    'builtins.int:130), tuple(builtins.int:50, builtins.int:90), '
                    'tuple(builtins.int:10, builtins.int:50)))',
 'reversed|bool:True': "list(builtins.bool:True, dict{builtins.int:0: dict{builtins.str:'offset': "
                       "builtins.int:250, builtins.str:'size': builtins.int:40}, builtins.int:1: "
                       "dict{builtins.str:'offset': builtins.int:210, builtins.str:'size': "
                       "builtins.int:40}, builtins.int:2: dict{builtins.str:'offset': "
                       "builtins.int:170, builtins.str:'size': builtins.int:40}, builtins.int:3: "
                       "dict{builtins.str:'offset': builtins.int:130, builtins.str:'size': "
                       "builtins.int:40}, builtins.int:4: dict{builtins.str:'offset': "
                       "builtins.int:90, builtins.str:'size': builtins.int:40}, builtins.int:5: "
                       "dict{builtins.str:'offset': builtins.int:50, builtins.str:'size': "
                       "builtins.int:40}, builtins.int:6: dict{builtins.str:'offset': "
                       "builtins.int:10, builtins.str:'size': builtins.int:40}}, "
                       'builtins.str:"Array(url=\'image\', shape=(7, 20), dtype=\'uint16\', '
                       'records_per_chunk=True)", tuple(builtins.bool:True, builtins.int:20), '
                       'builtins.int:2, tuple(builtins.int:7, builtins.int:20), '
                       'list(tuple(builtins.int:250, builtins.int:290), tuple(builtins.int:210, '
                       'builtins.int:250), tuple(builtins.int:170, builtins.int:210), '
                       'tuple(builtins.int:130, builtins.int:170), tuple(builtins.int:90, '
                       'builtins.int:130), tuple(builtins.int:50, builtins.int:90), '
                       'tuple(builtins.int:10, builtins.int:50)))',
 'reversed|bool:False': 'list(builtins.bool:False, dict{}, builtins.str:"Array(url=\'image\', '
                        'shape=(7, 20), dtype=\'uint16\', records_per_chunk=False)", '
                        'tuple(builtins.bool:False, builtins.int:20), builtins.int:2, '
                        'tuple(builtins.int:7, builtins.int:20), list(tuple(builtins.int:250, '
                        'builtins.int:290), tuple(builtins.int:210, builtins.int:250), '
                        'tuple(builtins.int:170, builtins.int:210), tuple(builtins.int:130, '
                        'builtins.int:170), tuple(builtins.int:90, builtins.int:130), '
                        'tuple(builtins.int:50, builtins.int:90), tuple(builtins.int:10, '
                        'builtins.int:50)))',
 'reversed|int64:np.int64(3)': 'list(numpy.int64(np.int64(3)), dict{builtins.int:0: '
                               "dict{builtins.str:'offset': builtins.int:170, builtins.str:'size': "
                               "builtins.int:120}, builtins.int:1: dict{builtins.str:'offset': "
                               "builtins.int:50, builtins.str:'size': builtins.int:120}, "
                               "builtins.int:2: dict{builtins.str:'offset': builtins.int:10, "
                               "builtins.str:'size': builtins.int:40}}, "
                               'builtins.str:"Array(url=\'image\', shape=(7, 20), '
                               'dtype=\'uint16\', records_per_chunk=np.int64(3))", '
                               'tuple(numpy.int64(np.int64(3)), builtins.int:20), builtins.int:2, '
                               'tuple(builtins.int:7, builtins.int:20), '
                               'list(tuple(builtins.int:250, builtins.int:290), '
                               'tuple(builtins.int:210, builtins.int:250), tuple(builtins.int:170, '
                               'builtins.int:210), tuple(builtins.int:130, builtins.int:170), '
                               'tuple(builtins.int:90, builtins.int:130), tuple(builtins.int:50, '
                               'builtins.int:90), tuple(builtins.int:10, builtins.int:50)))',
 'reversed|int64:np.int64(-1)': 'list(builtins.int:7, dict{builtins.int:0: '
                                "dict{builtins.str:'offset': builtins.int:10, builtins.str:'size': "
                                'builtins.int:280}}, builtins.str:"Array(url=\'image\', shape=(7, '
                                '20), dtype=\'uint16\', records_per_chunk=7)", '
                                'tuple(builtins.int:7, builtins.int:20), builtins.int:2, '
                                'tuple(builtins.int:7, builtins.int:20), '
                                'list(tuple(builtins.int:250, builtins.int:290), '
                                'tuple(builtins.int:210, builtins.int:250), '
                                'tuple(builtins.int:170, builtins.int:210), '
                                'tuple(builtins.int:130, builtins.int:170), tuple(builtins.int:90, '
                                'builtins.int:130), tuple(builtins.int:50, builtins.int:90), '
                                'tuple(builtins.int:10, builtins.int:50)))',
 'reversed|int64:np.int64(1000000)': 'list(builtins.int:7, dict{builtins.int:0: '
                                     "dict{builtins.str:'offset': builtins.int:10, "
                                     "builtins.str:'size': builtins.int:280}}, "
                                     'builtins.str:"Array(url=\'image\', shape=(7, 20), '
                                     'dtype=\'uint16\', records_per_chunk=7)", '
                                     'tuple(builtins.int:7, builtins.int:20), builtins.int:2, '
                                     'tuple(builtins.int:7, builtins.int:20), '
                                     'list(tuple(builtins.int:250, builtins.int:290), '
                                     'tuple(builtins.int:210, builtins.int:250), '
                                     'tuple(builtins.int:170, builtins.int:210), '
                                     'tuple(builtins.int:130, builtins.int:170), '
                                     'tuple(builtins.int:90, builtins.int:130), '
                                     'tuple(builtins.int:50, builtins.int:90), '
                                     'tuple(builtins.int:10, builtins.int:50)))',
 'reversed|float:2.0': "raise builtins.TypeError: can't multiply sequence by non-int of type "
                       "'float'",
 'reversed|float:2.5': "raise builtins.TypeError: can't multiply sequence by non-int of type "
                       "'float'",
 'reversed|float:-1.0': "list(builtins.int:7, dict{builtins.int:0: dict{builtins.str:'offset': "
                        "builtins.int:10, builtins.str:'size': builtins.int:280}}, "
                        'builtins.str:"Array(url=\'image\', shape=(7, 20), dtype=\'uint16\', '
                        'records_per_chunk=7)", tuple(builtins.int:7, builtins.int:20), '
                        'builtins.int:2, tuple(builtins.int:7, builtins.int:20), '
                        'list(tuple(builtins.int:250, builtins.int:290), tuple(builtins.int:210, '
                        'builtins.int:250), tuple(builtins.int:170, builtins.int:210), '
                        'tuple(builtins.int:130, builtins.int:170), tuple(builtins.int:90, '
                        'builtins.int:130), tuple(builtins.int:50, builtins.int:90), '
                        'tuple(builtins.int:10, builtins.int:50)))',
 'reversed|float:nan': "raise builtins.TypeError: can't multiply sequence by non-int of type "
                       "'float'",
 'reversed|float:inf': "list(builtins.int:7, dict{builtins.int:0: dict{builtins.str:'offset': "
                       "builtins.int:10, builtins.str:'size': builtins.int:280}}, "
                       'builtins.str:"Array(url=\'image\', shape=(7, 20), dtype=\'uint16\', '
                       'records_per_chunk=7)", tuple(builtins.int:7, builtins.int:20), '
                       'builtins.int:2, tuple(builtins.int:7, builtins.int:20), '
                       'list(tuple(builtins.int:250, builtins.int:290), tuple(builtins.int:210, '
                       'builtins.int:250), tuple(builtins.int:170, builtins.int:210), '
                       'tuple(builtins.int:130, builtins.int:170), tuple(builtins.int:90, '
                       'builtins.int:130), tuple(builtins.int:50, builtins.int:90), '
                       'tuple(builtins.int:10, builtins.int:50)))',
 "reversed|bytes:b'auto'": "raise builtins.TypeError: '>' not supported between instances of "
                           "'bytes' and 'int'",
 'reversed|list:[2]': "raise builtins.TypeError: '>' not supported between instances of 'list' and "
                      "'int'",
 'reversed|tuple:(2,)': "raise builtins.TypeError: '>' not supported between instances of 'tuple' "
                        "and 'int'",
 'reversed|dict:{}': "raise builtins.TypeError: '>' not supported between instances of 'dict' and "
                     "'int'",
 'reversed|complex:(1+0j)': "raise builtins.TypeError: '>' not supported between instances of "
                            "'complex' and 'int'",
 "negative-size|str:'<omitted>'": 'list(builtins.int:1024, dict{builtins.int:0: '
                                  "dict{builtins.str:'offset': builtins.int:5, "
                                  "builtins.str:'size': builtins.int:0}}, "
                                  'builtins.str:"Array(url=\'image\', shape=(2, 3), '
                                  'dtype=\'uint16\', records_per_chunk=1024)", '
                                  'tuple(builtins.int:1024, builtins.int:3), builtins.int:2, '
                                  'tuple(builtins.int:2, builtins.int:3), '
                                  'list(tuple(builtins.int:10, builtins.int:5), '
                                  'tuple(builtins.int:5, builtins.int:0)))',
 'negative-size|NoneType:None': 'list(builtins.int:1024, dict{builtins.int:0: '
                                "dict{builtins.str:'offset': builtins.int:5, builtins.str:'size': "
                                'builtins.int:0}}, builtins.str:"Array(url=\'image\', shape=(2, '
                                '3), dtype=\'uint16\', records_per_chunk=1024)", '
                                'tuple(builtins.int:1024, builtins.int:3), builtins.int:2, '
                                'tuple(builtins.int:2, builtins.int:3), '
                                'list(tuple(builtins.int:10, builtins.int:5), '
                                'tuple(builtins.int:5, builtins.int:0)))',
 "negative-size|str:'auto'": 'list(numpy.int64(np.int64(1)), dict{builtins.int:0: '
                             "dict{builtins.str:'offset': builtins.int:10, builtins.str:'size': "
                             "builtins.int:-5}, builtins.int:1: dict{builtins.str:'offset': "
                             "builtins.int:5, builtins.str:'size': builtins.int:-5}}, "
                             'builtins.str:"Array(url=\'image\', shape=(2, 3), dtype=\'uint16\', '
                             'records_per_chunk=np.int64(1))", tuple(numpy.int64(np.int64(1)), '
                             'builtins.int:3), builtins.int:2, tuple(builtins.int:2, '
                             'builtins.int:3), list(tuple(builtins.int:10, builtins.int:5), '
                             'tuple(builtins.int:5, builtins.int:0)))',
 "negative-size|str:'80B'": 'list(numpy.int64(np.int64(1)), dict{builtins.int:0: '
                            "dict{builtins.str:'offset': builtins.int:10, builtins.str:'size': "
                            "builtins.int:-5}, builtins.int:1: dict{builtins.str:'offset': "
                            "builtins.int:5, builtins.str:'size': builtins.int:-5}}, "
                            'builtins.str:"Array(url=\'image\', shape=(2, 3), dtype=\'uint16\', '
                            'records_per_chunk=np.int64(1))", tuple(numpy.int64(np.int64(1)), '
                            'builtins.int:3), builtins.int:2, tuple(builtins.int:2, '
                            'builtins.int:3), list(tuple(builtins.int:10, builtins.int:5), '
                            'tuple(builtins.int:5, builtins.int:0)))',
 "negative-size|str:'81B'": 'list(numpy.int64(np.int64(1)), dict{builtins.int:0: '
                            "dict{builtins.str:'offset': builtins.int:10, builtins.str:'size': "
                            "builtins.int:-5}, builtins.int:1: dict{builtins.str:'offset': "
                            "builtins.int:5, builtins.str:'size': builtins.int:-5}}, "
                            'builtins.str:"Array(url=\'image\', shape=(2, 3), dtype=\'uint16\', '
                            'records_per_chunk=np.int64(1))", tuple(numpy.int64(np.int64(1)), '
                            'builtins.int:3), builtins.int:2, tuple(builtins.int:2, '
                            'builtins.int:3), list(tuple(builtins.int:10, builtins.int:5), '
                            'tuple(builtins.int:5, builtins.int:0)))',
 "negative-size|str:'100B'": 'list(numpy.int64(np.int64(1)), dict{builtins.int:0: '
                             "dict{builtins.str:'offset': builtins.int:10, builtins.str:'size': "
                             "builtins.int:-5}, builtins.int:1: dict{builtins.str:'offset': "
                             "builtins.int:5, builtins.str:'size': builtins.int:-5}}, "
                             'builtins.str:"Array(url=\'image\', shape=(2, 3), dtype=\'uint16\', '
                             'records_per_chunk=np.int64(1))", tuple(numpy.int64(np.int64(1)), '
                             'builtins.int:3), builtins.int:2, tuple(builtins.int:2, '
                             'builtins.int:3), list(tuple(builtins.int:10, builtins.int:5), '
                             'tuple(builtins.int:5, builtins.int:0)))',
 "negative-size|str:'119B'": 'list(numpy.int64(np.int64(1)), dict{builtins.int:0: '
                             "dict{builtins.str:'offset': builtins.int:10, builtins.str:'size': "
                             "builtins.int:-5}, builtins.int:1: dict{builtins.str:'offset': "
                             "builtins.int:5, builtins.str:'size': builtins.int:-5}}, "
                             'builtins.str:"Array(url=\'image\', shape=(2, 3), dtype=\'uint16\', '
                             'records_per_chunk=np.int64(1))", tuple(numpy.int64(np.int64(1)), '
                             'builtins.int:3), builtins.int:2, tuple(builtins.int:2, '
                             'builtins.int:3), list(tuple(builtins.int:10, builtins.int:5), '
                             'tuple(builtins.int:5, builtins.int:0)))',
 "negative-size|str:'120B'": 'list(numpy.int64(np.int64(1)), dict{builtins.int:0: '
                             "dict{builtins.str:'offset': builtins.int:10, builtins.str:'size': "
                             "builtins.int:-5}, builtins.int:1: dict{builtins.str:'offset': "
                             "builtins.int:5, builtins.str:'size': builtins.int:-5}}, "
                             'builtins.str:"Array(url=\'image\', shape=(2, 3), dtype=\'uint16\', '
                             'records_per_chunk=np.int64(1))", tuple(numpy.int64(np.int64(1)), '
                             'builtins.int:3), builtins.int:2, tuple(builtins.int:2, '
                             'builtins.int:3), list(tuple(builtins.int:10, builtins.int:5), '
                             'tuple(builtins.int:5, builtins.int:0)))',
 "negative-size|str:'121B'": 'list(numpy.int64(np.int64(1)), dict{builtins.int:0: '
                             "dict{builtins.str:'offset': builtins.int:10, builtins.str:'size': "
                             "builtins.int:-5}, builtins.int:1: dict{builtins.str:'offset': "
                             "builtins.int:5, builtins.str:'size': builtins.int:-5}}, "
                             'builtins.str:"Array(url=\'image\', shape=(2, 3), dtype=\'uint16\', '
                             'records_per_chunk=np.int64(1))", tuple(numpy.int64(np.int64(1)), '
                             'builtins.int:3), builtins.int:2, tuple(builtins.int:2, '
                             'builtins.int:3), list(tuple(builtins.int:10, builtins.int:5), '
                             'tuple(builtins.int:5, builtins.int:0)))',
 "negative-size|str:'0B'": 'list(numpy.int64(np.int64(1)), dict{builtins.int:0: '
                           "dict{builtins.str:'offset': builtins.int:10, builtins.str:'size': "
                           "builtins.int:-5}, builtins.int:1: dict{builtins.str:'offset': "
                           "builtins.int:5, builtins.str:'size': builtins.int:-5}}, "
                           'builtins.str:"Array(url=\'image\', shape=(2, 3), dtype=\'uint16\', '
                           'records_per_chunk=np.int64(1))", tuple(numpy.int64(np.int64(1)), '
                           'builtins.int:3), builtins.int:2, tuple(builtins.int:2, '
                           'builtins.int:3), list(tuple(builtins.int:10, builtins.int:5), '
                           'tuple(builtins.int:5, builtins.int:0)))',
 "negative-size|str:'1kB'": 'list(numpy.int64(np.int64(1)), dict{builtins.int:0: '
                            "dict{builtins.str:'offset': builtins.int:10, builtins.str:'size': "
                            "builtins.int:-5}, builtins.int:1: dict{builtins.str:'offset': "
                            "builtins.int:5, builtins.str:'size': builtins.int:-5}}, "
                            'builtins.str:"Array(url=\'image\', shape=(2, 3), dtype=\'uint16\', '
                            'records_per_chunk=np.int64(1))", tuple(numpy.int64(np.int64(1)), '
                            'builtins.int:3), builtins.int:2, tuple(builtins.int:2, '
                            'builtins.int:3), list(tuple(builtins.int:10, builtins.int:5), '
                            'tuple(builtins.int:5, builtins.int:0)))',
 "negative-size|str:'1kiB'": 'list(numpy.int64(np.int64(1)), dict{builtins.int:0: '
                             "dict{builtins.str:'offset': builtins.int:10, builtins.str:'size': "
                             "builtins.int:-5}, builtins.int:1: dict{builtins.str:'offset': "
                             "builtins.int:5, builtins.str:'size': builtins.int:-5}}, "
                             'builtins.str:"Array(url=\'image\', shape=(2, 3), dtype=\'uint16\', '
                             'records_per_chunk=np.int64(1))", tuple(numpy.int64(np.int64(1)), '
                             'builtins.int:3), builtins.int:2, tuple(builtins.int:2, '
                             'builtins.int:3), list(tuple(builtins.int:10, builtins.int:5), '
                             'tuple(builtins.int:5, builtins.int:0)))',
 "negative-size|str:'1 MiB'": 'list(numpy.int64(np.int64(1)), dict{builtins.int:0: '
                              "dict{builtins.str:'offset': builtins.int:10, builtins.str:'size': "
                              "builtins.int:-5}, builtins.int:1: dict{builtins.str:'offset': "
                              "builtins.int:5, builtins.str:'size': builtins.int:-5}}, "
                              'builtins.str:"Array(url=\'image\', shape=(2, 3), dtype=\'uint16\', '
                              'records_per_chunk=np.int64(1))", tuple(numpy.int64(np.int64(1)), '
                              'builtins.int:3), builtins.int:2, tuple(builtins.int:2, '
                              'builtins.int:3), list(tuple(builtins.int:10, builtins.int:5), '
                              'tuple(builtins.int:5, builtins.int:0)))',
 "negative-size|str:'95MiB'": 'list(numpy.int64(np.int64(1)), dict{builtins.int:0: '
                              "dict{builtins.str:'offset': builtins.int:10, builtins.str:'size': "
                              "builtins.int:-5}, builtins.int:1: dict{builtins.str:'offset': "
                              "builtins.int:5, builtins.str:'size': builtins.int:-5}}, "
                              'builtins.str:"Array(url=\'image\', shape=(2, 3), dtype=\'uint16\', '
                              'records_per_chunk=np.int64(1))", tuple(numpy.int64(np.int64(1)), '
                              'builtins.int:3), builtins.int:2, tuple(builtins.int:2, '
                              'builtins.int:3), list(tuple(builtins.int:10, builtins.int:5), '
                              'tuple(builtins.int:5, builtins.int:0)))',
 "negative-size|str:'0.1 GB'": 'list(numpy.int64(np.int64(1)), dict{builtins.int:0: '
                               "dict{builtins.str:'offset': builtins.int:10, builtins.str:'size': "
                               "builtins.int:-5}, builtins.int:1: dict{builtins.str:'offset': "
                               "builtins.int:5, builtins.str:'size': builtins.int:-5}}, "
                               'builtins.str:"Array(url=\'image\', shape=(2, 3), dtype=\'uint16\', '
                               'records_per_chunk=np.int64(1))", tuple(numpy.int64(np.int64(1)), '
                               'builtins.int:3), builtins.int:2, tuple(builtins.int:2, '
                               'builtins.int:3), list(tuple(builtins.int:10, builtins.int:5), '
                               'tuple(builtins.int:5, builtins.int:0)))',
 "negative-size|str:'100'": 'list(numpy.int64(np.int64(1)), dict{builtins.int:0: '
                            "dict{builtins.str:'offset': builtins.int:10, builtins.str:'size': "
                            "builtins.int:-5}, builtins.int:1: dict{builtins.str:'offset': "
                            "builtins.int:5, builtins.str:'size': builtins.int:-5}}, "
                            'builtins.str:"Array(url=\'image\', shape=(2, 3), dtype=\'uint16\', '
                            'records_per_chunk=np.int64(1))", tuple(numpy.int64(np.int64(1)), '
                            'builtins.int:3), builtins.int:2, tuple(builtins.int:2, '
                            'builtins.int:3), list(tuple(builtins.int:10, builtins.int:5), '
                            'tuple(builtins.int:5, builtins.int:0)))',
 "negative-size|str:'1e2'": 'list(numpy.int64(np.int64(1)), dict{builtins.int:0: '
                            "dict{builtins.str:'offset': builtins.int:10, builtins.str:'size': "
                            "builtins.int:-5}, builtins.int:1: dict{builtins.str:'offset': "
                            "builtins.int:5, builtins.str:'size': builtins.int:-5}}, "
                            'builtins.str:"Array(url=\'image\', shape=(2, 3), dtype=\'uint16\', '
                            'records_per_chunk=np.int64(1))", tuple(numpy.int64(np.int64(1)), '
                            'builtins.int:3), builtins.int:2, tuple(builtins.int:2, '
                            'builtins.int:3), list(tuple(builtins.int:10, builtins.int:5), '
                            'tuple(builtins.int:5, builtins.int:0)))',
 "negative-size|str:'kB'": 'list(numpy.int64(np.int64(1)), dict{builtins.int:0: '
                           "dict{builtins.str:'offset': builtins.int:10, builtins.str:'size': "
                           "builtins.int:-5}, builtins.int:1: dict{builtins.str:'offset': "
                           "builtins.int:5, builtins.str:'size': builtins.int:-5}}, "
                           'builtins.str:"Array(url=\'image\', shape=(2, 3), dtype=\'uint16\', '
                           'records_per_chunk=np.int64(1))", tuple(numpy.int64(np.int64(1)), '
                           'builtins.int:3), builtins.int:2, tuple(builtins.int:2, '
                           'builtins.int:3), list(tuple(builtins.int:10, builtins.int:5), '
                           'tuple(builtins.int:5, builtins.int:0)))',
 "negative-size|str:''": 'list(numpy.int64(np.int64(1)), dict{builtins.int:0: '
                         "dict{builtins.str:'offset': builtins.int:10, builtins.str:'size': "
                         "builtins.int:-5}, builtins.int:1: dict{builtins.str:'offset': "
                         "builtins.int:5, builtins.str:'size': builtins.int:-5}}, "
                         'builtins.str:"Array(url=\'image\', shape=(2, 3), dtype=\'uint16\', '
                         'records_per_chunk=np.int64(1))", tuple(numpy.int64(np.int64(1)), '
                         'builtins.int:3), builtins.int:2, tuple(builtins.int:2, builtins.int:3), '
                         'list(tuple(builtins.int:10, builtins.int:5), tuple(builtins.int:5, '
                         'builtins.int:0)))',
 "negative-size|str:'5 foos'": "raise builtins.ValueError: Could not interpret 'foos' as a byte "
                               'unit',
 "negative-size|str:'abc'": "raise builtins.ValueError: Could not interpret 'abc' as a byte unit",
 "negative-size|str:'AUTO'": "raise builtins.ValueError: Could not interpret 'AUTO' as a byte unit",
 "negative-size|str:' auto'": "raise builtins.ValueError: Could not interpret 'auto' as a byte "
                              'unit',
 "negative-size|Text:'auto'": 'list(numpy.int64(np.int64(1)), dict{builtins.int:0: '
                              "dict{builtins.str:'offset': builtins.int:10, builtins.str:'size': "
                              "builtins.int:-5}, builtins.int:1: dict{builtins.str:'offset': "
                              "builtins.int:5, builtins.str:'size': builtins.int:-5}}, "
                              'builtins.str:"Array(url=\'image\', shape=(2, 3), dtype=\'uint16\', '
                              'records_per_chunk=np.int64(1))", tuple(numpy.int64(np.int64(1)), '
                              'builtins.int:3), builtins.int:2, tuple(builtins.int:2, '
                              'builtins.int:3), list(tuple(builtins.int:10, builtins.int:5), '
                              'tuple(builtins.int:5, builtins.int:0)))',
 "negative-size|Text:'160B'": 'list(numpy.int64(np.int64(1)), dict{builtins.int:0: '
                              "dict{builtins.str:'offset': builtins.int:10, builtins.str:'size': "
                              "builtins.int:-5}, builtins.int:1: dict{builtins.str:'offset': "
                              "builtins.int:5, builtins.str:'size': builtins.int:-5}}, "
                              'builtins.str:"Array(url=\'image\', shape=(2, 3), dtype=\'uint16\', '
                              'records_per_chunk=np.int64(1))", tuple(numpy.int64(np.int64(1)), '
                              'builtins.int:3), builtins.int:2, tuple(builtins.int:2, '
                              'builtins.int:3), list(tuple(builtins.int:10, builtins.int:5), '
                              'tuple(builtins.int:5, builtins.int:0)))',
 'negative-size|int:-1': "list(builtins.int:2, dict{builtins.int:0: dict{builtins.str:'offset': "
                         "builtins.int:5, builtins.str:'size': builtins.int:0}}, "
                         'builtins.str:"Array(url=\'image\', shape=(2, 3), dtype=\'uint16\', '
                         'records_per_chunk=2)", tuple(builtins.int:2, builtins.int:3), '
                         'builtins.int:2, tuple(builtins.int:2, builtins.int:3), '
                         'list(tuple(builtins.int:10, builtins.int:5), tuple(builtins.int:5, '
                         'builtins.int:0)))',
 'negative-size|int:0': 'list(builtins.int:0, dict{}, builtins.str:"Array(url=\'image\', shape=(2, '
                        '3), dtype=\'uint16\', records_per_chunk=0)", tuple(builtins.int:0, '
                        'builtins.int:3), builtins.int:2, tuple(builtins.int:2, builtins.int:3), '
                        'list(tuple(builtins.int:10, builtins.int:5), tuple(builtins.int:5, '
                        'builtins.int:0)))',
 'negative-size|int:1': "list(builtins.int:1, dict{builtins.int:0: dict{builtins.str:'offset': "
                        "builtins.int:10, builtins.str:'size': builtins.int:-5}, builtins.int:1: "
                        "dict{builtins.str:'offset': builtins.int:5, builtins.str:'size': "
                        'builtins.int:-5}}, builtins.str:"Array(url=\'image\', shape=(2, 3), '
                        'dtype=\'uint16\', records_per_chunk=1)", tuple(builtins.int:1, '
                        'builtins.int:3), builtins.int:2, tuple(builtins.int:2, builtins.int:3), '
                        'list(tuple(builtins.int:10, builtins.int:5), tuple(builtins.int:5, '
                        'builtins.int:0)))',
 'negative-size|int:2': "list(builtins.int:2, dict{builtins.int:0: dict{builtins.str:'offset': "
                        "builtins.int:5, builtins.str:'size': builtins.int:0}}, "
                        'builtins.str:"Array(url=\'image\', shape=(2, 3), dtype=\'uint16\', '
                        'records_per_chunk=2)", tuple(builtins.int:2, builtins.int:3), '
                        'builtins.int:2, tuple(builtins.int:2, builtins.int:3), '
                        'list(tuple(builtins.int:10, builtins.int:5), tuple(builtins.int:5, '
                        'builtins.int:0)))',
 'negative-size|int:3': "list(builtins.int:2, dict{builtins.int:0: dict{builtins.str:'offset': "
                        "builtins.int:5, builtins.str:'size': builtins.int:0}}, "
                        'builtins.str:"Array(url=\'image\', shape=(2, 3), dtype=\'uint16\', '
                        'records_per_chunk=2)", tuple(builtins.int:2, builtins.int:3), '
                        'builtins.int:2, tuple(builtins.int:2, builtins.int:3), '
                        'list(tuple(builtins.int:10, builtins.int:5), tuple(builtins.int:5, '
                        'builtins.int:0)))',
 'negative-size|int:4': "list(builtins.int:2, dict{builtins.int:0: dict{builtins.str:'offset': "
                        "builtins.int:5, builtins.str:'size': builtins.int:0}}, "
                        'builtins.str:"Array(url=\'image\', shape=(2, 3), dtype=\'uint16\', '
                        'records_per_chunk=2)", tuple(builtins.int:2, builtins.int:3), '
                        'builtins.int:2, tuple(builtins.int:2, builtins.int:3), '
                        'list(tuple(builtins.int:10, builtins.int:5), tuple(builtins.int:5, '
                        'builtins.int:0)))',
 'negative-size|int:5': "list(builtins.int:2, dict{builtins.int:0: dict{builtins.str:'offset': "
                        "builtins.int:5, builtins.str:'size': builtins.int:0}}, "
                        'builtins.str:"Array(url=\'image\', shape=(2, 3), dtype=\'uint16\', '
                        'records_per_chunk=2)", tuple(builtins.int:2, builtins.int:3), '
                        'builtins.int:2, tuple(builtins.int:2, builtins.int:3), '
                        'list(tuple(builtins.int:10, builtins.int:5), tuple(builtins.int:5, '
                        'builtins.int:0)))',
 'negative-size|int:6': "list(builtins.int:2, dict{builtins.int:0: dict{builtins.str:'offset': "
                        "builtins.int:5, builtins.str:'size': builtins.int:0}}, "
                        'builtins.str:"Array(url=\'image\', shape=(2, 3), dtype=\'uint16\', '
                        'records_per_chunk=2)", tuple(builtins.int:2, builtins.int:3), '
                        'builtins.int:2, tuple(builtins.int:2, builtins.int:3), '
                        'list(tuple(builtins.int:10, builtins.int:5), tuple(builtins.int:5, '
                        'builtins.int:0)))',
 'negative-size|int:7': "list(builtins.int:2, dict{builtins.int:0: dict{builtins.str:'offset': "
                        "builtins.int:5, builtins.str:'size': builtins.int:0}}, "
                        'builtins.str:"Array(url=\'image\', shape=(2, 3), dtype=\'uint16\', '
                        'records_per_chunk=2)", tuple(builtins.int:2, builtins.int:3), '
                        'builtins.int:2, tuple(builtins.int:2, builtins.int:3), '
                        'list(tuple(builtins.int:10, builtins.int:5), tuple(builtins.int:5, '
                        'builtins.int:0)))',
 'negative-size|int:8': "list(builtins.int:2, dict{builtins.int:0: dict{builtins.str:'offset': "
                        "builtins.int:5, builtins.str:'size': builtins.int:0}}, "
                        'builtins.str:"Array(url=\'image\', shape=(2, 3), dtype=\'uint16\', '
                        'records_per_chunk=2)", tuple(builtins.int:2, builtins.int:3), '
                        'builtins.int:2, tuple(builtins.int:2, builtins.int:3), '
                        'list(tuple(builtins.int:10, builtins.int:5), tuple(builtins.int:5, '
                        'builtins.int:0)))',
 'negative-size|int:1024': "list(builtins.int:2, dict{builtins.int:0: dict{builtins.str:'offset': "
                           "builtins.int:5, builtins.str:'size': builtins.int:0}}, "
                           'builtins.str:"Array(url=\'image\', shape=(2, 3), dtype=\'uint16\', '
                           'records_per_chunk=2)", tuple(builtins.int:2, builtins.int:3), '
                           'builtins.int:2, tuple(builtins.int:2, builtins.int:3), '
                           'list(tuple(builtins.int:10, builtins.int:5), tuple(builtins.int:5, '
                           'builtins.int:0)))',
 'negative-size|int:-2': 'list(builtins.int:-2, dict{}, builtins.str:"Array(url=\'image\', '
                         'shape=(2, 3), dtype=\'uint16\', records_per_chunk=-2)", '
                         'tuple(builtins.int:-2, builtins.int:3), builtins.int:2, '
                         'tuple(builtins.int:2, builtins.int:3), list(tuple(builtins.int:10, '
                         'builtins.int:5), tuple(builtins.int:5, builtins.int:0)))',
 'negative-size|bool:True': 'list(builtins.bool:True, dict{builtins.int:0: '
                            "dict{builtins.str:'offset': builtins.int:10, builtins.str:'size': "
                            "builtins.int:-5}, builtins.int:1: dict{builtins.str:'offset': "
                            "builtins.int:5, builtins.str:'size': builtins.int:-5}}, "
                            'builtins.str:"Array(url=\'image\', shape=(2, 3), dtype=\'uint16\', '
                            'records_per_chunk=True)", tuple(builtins.bool:True, builtins.int:3), '
                            'builtins.int:2, tuple(builtins.int:2, builtins.int:3), '
                            'list(tuple(builtins.int:10, builtins.int:5), tuple(builtins.int:5, '
                            'builtins.int:0)))',
 'negative-size|bool:False': 'list(builtins.bool:False, dict{}, builtins.str:"Array(url=\'image\', '
                             'shape=(2, 3), dtype=\'uint16\', records_per_chunk=False)", '
                             'tuple(builtins.bool:False, builtins.int:3), builtins.int:2, '
                             'tuple(builtins.int:2, builtins.int:3), list(tuple(builtins.int:10, '
                             'builtins.int:5), tuple(builtins.int:5, builtins.int:0)))',
 'negative-size|int64:np.int64(3)': 'list(builtins.int:2, dict{builtins.int:0: '
                                    "dict{builtins.str:'offset': builtins.int:5, "
                                    "builtins.str:'size': builtins.int:0}}, "
                                    'builtins.str:"Array(url=\'image\', shape=(2, 3), '
                                    'dtype=\'uint16\', records_per_chunk=2)", '
                                    'tuple(builtins.int:2, builtins.int:3), builtins.int:2, '
                                    'tuple(builtins.int:2, builtins.int:3), '
                                    'list(tuple(builtins.int:10, builtins.int:5), '
                                    'tuple(builtins.int:5, builtins.int:0)))',
 'negative-size|int64:np.int64(-1)': 'list(builtins.int:2, dict{builtins.int:0: '
                                     "dict{builtins.str:'offset': builtins.int:5, "
                                     "builtins.str:'size': builtins.int:0}}, "
                                     'builtins.str:"Array(url=\'image\', shape=(2, 3), '
                                     'dtype=\'uint16\', records_per_chunk=2)", '
                                     'tuple(builtins.int:2, builtins.int:3), builtins.int:2, '
                                     'tuple(builtins.int:2, builtins.int:3), '
                                     'list(tuple(builtins.int:10, builtins.int:5), '
                                     'tuple(builtins.int:5, builtins.int:0)))',
 'negative-size|int64:np.int64(1000000)': 'list(builtins.int:2, dict{builtins.int:0: '
                                          "dict{builtins.str:'offset': builtins.int:5, "
                                          "builtins.str:'size': builtins.int:0}}, "
                                          'builtins.str:"Array(url=\'image\', shape=(2, 3), '
                                          'dtype=\'uint16\', records_per_chunk=2)", '
                                          'tuple(builtins.int:2, builtins.int:3), builtins.int:2, '
                                          'tuple(builtins.int:2, builtins.int:3), '
                                          'list(tuple(builtins.int:10, builtins.int:5), '
                                          'tuple(builtins.int:5, builtins.int:0)))',
 'negative-size|float:2.0': "raise builtins.TypeError: can't multiply sequence by non-int of type "
                            "'float'",
 'negative-size|float:2.5': "list(builtins.int:2, dict{builtins.int:0: dict{builtins.str:'offset': "
                            "builtins.int:5, builtins.str:'size': builtins.int:0}}, "
                            'builtins.str:"Array(url=\'image\', shape=(2, 3), dtype=\'uint16\', '
                            'records_per_chunk=2)", tuple(builtins.int:2, builtins.int:3), '
                            'builtins.int:2, tuple(builtins.int:2, builtins.int:3), '
                            'list(tuple(builtins.int:10, builtins.int:5), tuple(builtins.int:5, '
                            'builtins.int:0)))',
 'negative-size|float:-1.0': 'list(builtins.int:2, dict{builtins.int:0: '
                             "dict{builtins.str:'offset': builtins.int:5, builtins.str:'size': "
                             'builtins.int:0}}, builtins.str:"Array(url=\'image\', shape=(2, 3), '
                             'dtype=\'uint16\', records_per_chunk=2)", tuple(builtins.int:2, '
                             'builtins.int:3), builtins.int:2, tuple(builtins.int:2, '
                             'builtins.int:3), list(tuple(builtins.int:10, builtins.int:5), '
                             'tuple(builtins.int:5, builtins.int:0)))',
 'negative-size|float:nan': "raise builtins.TypeError: can't multiply sequence by non-int of type "
                            "'float'",
 'negative-size|float:inf': "list(builtins.int:2, dict{builtins.int:0: dict{builtins.str:'offset': "
                            "builtins.int:5, builtins.str:'size': builtins.int:0}}, "
                            'builtins.str:"Array(url=\'image\', shape=(2, 3), dtype=\'uint16\', '
                            'records_per_chunk=2)", tuple(builtins.int:2, builtins.int:3), '
                            'builtins.int:2, tuple(builtins.int:2, builtins.int:3), '
                            'list(tuple(builtins.int:10, builtins.int:5), tuple(builtins.int:5, '
                            'builtins.int:0)))',
 "negative-size|bytes:b'auto'": "raise builtins.TypeError: '>' not supported between instances of "
                                "'bytes' and 'int'",
 'negative-size|list:[2]': "raise builtins.TypeError: '>' not supported between instances of "
                           "'list' and 'int'",
 'negative-size|tuple:(2,)': "raise builtins.TypeError: '>' not supported between instances of "
                             "'tuple' and 'int'",
 'negative-size|dict:{}': "raise builtins.TypeError: '>' not supported between instances of 'dict' "
                          "and 'int'",
 'negative-size|complex:(1+0j)': "raise builtins.TypeError: '>' not supported between instances of "
                                 "'complex' and 'int'",
 "float-ranges|str:'<omitted>'": 'list(builtins.int:1024, dict{builtins.int:0: '
                                 "dict{builtins.str:'offset': builtins.float:0.0, "
                                 "builtins.str:'size': builtins.float:7.5}}, "
                                 'builtins.str:"Array(url=\'image\', shape=(3, 1), '
                                 'dtype=\'uint16\', records_per_chunk=1024)", '
                                 'tuple(builtins.int:1024, builtins.int:1), builtins.int:2, '
                                 'tuple(builtins.int:3, builtins.int:1), '
                                 'list(tuple(builtins.float:0.0, builtins.float:2.5), '
                                 'tuple(builtins.float:2.5, builtins.float:5.0), '
                                 'tuple(builtins.float:5.0, builtins.float:7.5)))',
 'float-ranges|NoneType:None': 'list(builtins.int:1024, dict{builtins.int:0: '
                               "dict{builtins.str:'offset': builtins.float:0.0, "
                               "builtins.str:'size': builtins.float:7.5}}, "
                               'builtins.str:"Array(url=\'image\', shape=(3, 1), dtype=\'uint16\', '
                               'records_per_chunk=1024)", tuple(builtins.int:1024, '
                               'builtins.int:1), builtins.int:2, tuple(builtins.int:3, '
                               'builtins.int:1), list(tuple(builtins.float:0.0, '
                               'builtins.float:2.5), tuple(builtins.float:2.5, '
                               'builtins.float:5.0), tuple(builtins.float:5.0, '
                               'builtins.float:7.5)))',
 "float-ranges|str:'auto'": 'list(numpy.int64(np.int64(3)), dict{builtins.int:0: '
                            "dict{builtins.str:'offset': builtins.float:0.0, builtins.str:'size': "
                            'builtins.float:7.5}}, builtins.str:"Array(url=\'image\', shape=(3, '
                            '1), dtype=\'uint16\', records_per_chunk=np.int64(3))", '
                            'tuple(numpy.int64(np.int64(3)), builtins.int:1), builtins.int:2, '
                            'tuple(builtins.int:3, builtins.int:1), list(tuple(builtins.float:0.0, '
                            'builtins.float:2.5), tuple(builtins.float:2.5, builtins.float:5.0), '
                            'tuple(builtins.float:5.0, builtins.float:7.5)))',
 "float-ranges|str:'80B'": 'list(numpy.int64(np.int64(3)), dict{builtins.int:0: '
                           "dict{builtins.str:'offset': builtins.float:0.0, builtins.str:'size': "
                           'builtins.float:7.5}}, builtins.str:"Array(url=\'image\', shape=(3, 1), '
                           'dtype=\'uint16\', records_per_chunk=np.int64(3))", '
                           'tuple(numpy.int64(np.int64(3)), builtins.int:1), builtins.int:2, '
                           'tuple(builtins.int:3, builtins.int:1), list(tuple(builtins.float:0.0, '
                           'builtins.float:2.5), tuple(builtins.float:2.5, builtins.float:5.0), '
                           'tuple(builtins.float:5.0, builtins.float:7.5)))',
 "float-ranges|str:'81B'": 'list(numpy.int64(np.int64(3)), dict{builtins.int:0: '
                           "dict{builtins.str:'offset': builtins.float:0.0, builtins.str:'size': "
                           'builtins.float:7.5}}, builtins.str:"Array(url=\'image\', shape=(3, 1), '
                           'dtype=\'uint16\', records_per_chunk=np.int64(3))", '
                           'tuple(numpy.int64(np.int64(3)), builtins.int:1), builtins.int:2, '
                           'tuple(builtins.int:3, builtins.int:1), list(tuple(builtins.float:0.0, '
                           'builtins.float:2.5), tuple(builtins.float:2.5, builtins.float:5.0), '
                           'tuple(builtins.float:5.0, builtins.float:7.5)))',
 "float-ranges|str:'100B'": 'list(numpy.int64(np.int64(3)), dict{builtins.int:0: '
                            "dict{builtins.str:'offset': builtins.float:0.0, builtins.str:'size': "
                            'builtins.float:7.5}}, builtins.str:"Array(url=\'image\', shape=(3, '
                            '1), dtype=\'uint16\', records_per_chunk=np.int64(3))", '
                            'tuple(numpy.int64(np.int64(3)), builtins.int:1), builtins.int:2, '
                            'tuple(builtins.int:3, builtins.int:1), list(tuple(builtins.float:0.0, '
                            'builtins.float:2.5), tuple(builtins.float:2.5, builtins.float:5.0), '
                            'tuple(builtins.float:5.0, builtins.float:7.5)))',
 "float-ranges|str:'119B'": 'list(numpy.int64(np.int64(3)), dict{builtins.int:0: '
                            "dict{builtins.str:'offset': builtins.float:0.0, builtins.str:'size': "
                            'builtins.float:7.5}}, builtins.str:"Array(url=\'image\', shape=(3, '
                            '1), dtype=\'uint16\', records_per_chunk=np.int64(3))", '
                            'tuple(numpy.int64(np.int64(3)), builtins.int:1), builtins.int:2, '
                            'tuple(builtins.int:3, builtins.int:1), list(tuple(builtins.float:0.0, '
                            'builtins.float:2.5), tuple(builtins.float:2.5, builtins.float:5.0), '
                            'tuple(builtins.float:5.0, builtins.float:7.5)))',
 "float-ranges|str:'120B'": 'list(numpy.int64(np.int64(3)), dict{builtins.int:0: '
                            "dict{builtins.str:'offset': builtins.float:0.0, builtins.str:'size': "
                            'builtins.float:7.5}}, builtins.str:"Array(url=\'image\', shape=(3, '
                            '1), dtype=\'uint16\', records_per_chunk=np.int64(3))", '
                            'tuple(numpy.int64(np.int64(3)), builtins.int:1), builtins.int:2, '
                            'tuple(builtins.int:3, builtins.int:1), list(tuple(builtins.float:0.0, '
                            'builtins.float:2.5), tuple(builtins.float:2.5, builtins.float:5.0), '
                            'tuple(builtins.float:5.0, builtins.float:7.5)))',
 "float-ranges|str:'121B'": 'list(numpy.int64(np.int64(3)), dict{builtins.int:0: '
                            "dict{builtins.str:'offset': builtins.float:0.0, builtins.str:'size': "
                            'builtins.float:7.5}}, builtins.str:"Array(url=\'image\', shape=(3, '
                            '1), dtype=\'uint16\', records_per_chunk=np.int64(3))", '
                            'tuple(numpy.int64(np.int64(3)), builtins.int:1), builtins.int:2, '
                            'tuple(builtins.int:3, builtins.int:1), list(tuple(builtins.float:0.0, '
                            'builtins.float:2.5), tuple(builtins.float:2.5, builtins.float:5.0), '
                            'tuple(builtins.float:5.0, builtins.float:7.5)))',
 "float-ranges|str:'0B'": 'list(numpy.int64(np.int64(1)), dict{builtins.int:0: '
                          "dict{builtins.str:'offset': builtins.float:0.0, builtins.str:'size': "
                          "builtins.float:2.5}, builtins.int:1: dict{builtins.str:'offset': "
                          "builtins.float:2.5, builtins.str:'size': builtins.float:2.5}, "
                          "builtins.int:2: dict{builtins.str:'offset': builtins.float:5.0, "
                          "builtins.str:'size': builtins.float:2.5}}, "
                          'builtins.str:"Array(url=\'image\', shape=(3, 1), dtype=\'uint16\', '
                          'records_per_chunk=np.int64(1))", tuple(numpy.int64(np.int64(1)), '
                          'builtins.int:1), builtins.int:2, tuple(builtins.int:3, builtins.int:1), '
                          'list(tuple(builtins.float:0.0, builtins.float:2.5), '
                          'tuple(builtins.float:2.5, builtins.float:5.0), '
                          'tuple(builtins.float:5.0, builtins.float:7.5)))',
 "float-ranges|str:'1kB'": 'list(numpy.int64(np.int64(3)), dict{builtins.int:0: '
                           "dict{builtins.str:'offset': builtins.float:0.0, builtins.str:'size': "
                           'builtins.float:7.5}}, builtins.str:"Array(url=\'image\', shape=(3, 1), '
                           'dtype=\'uint16\', records_per_chunk=np.int64(3))", '
                           'tuple(numpy.int64(np.int64(3)), builtins.int:1), builtins.int:2, '
                           'tuple(builtins.int:3, builtins.int:1), list(tuple(builtins.float:0.0, '
                           'builtins.float:2.5), tuple(builtins.float:2.5, builtins.float:5.0), '
                           'tuple(builtins.float:5.0, builtins.float:7.5)))',
 "float-ranges|str:'1kiB'": 'list(numpy.int64(np.int64(3)), dict{builtins.int:0: '
                            "dict{builtins.str:'offset': builtins.float:0.0, builtins.str:'size': "
                            'builtins.float:7.5}}, builtins.str:"Array(url=\'image\', shape=(3, '
                            '1), dtype=\'uint16\', records_per_chunk=np.int64(3))", '
                            'tuple(numpy.int64(np.int64(3)), builtins.int:1), builtins.int:2, '
                            'tuple(builtins.int:3, builtins.int:1), list(tuple(builtins.float:0.0, '
                            'builtins.float:2.5), tuple(builtins.float:2.5, builtins.float:5.0), '
                            'tuple(builtins.float:5.0, builtins.float:7.5)))',
 "float-ranges|str:'1 MiB'": 'list(numpy.int64(np.int64(3)), dict{builtins.int:0: '
                             "dict{builtins.str:'offset': builtins.float:0.0, builtins.str:'size': "
                             'builtins.float:7.5}}, builtins.str:"Array(url=\'image\', shape=(3, '
                             '1), dtype=\'uint16\', records_per_chunk=np.int64(3))", '
                             'tuple(numpy.int64(np.int64(3)), builtins.int:1), builtins.int:2, '
                             'tuple(builtins.int:3, builtins.int:1), '
                             'list(tuple(builtins.float:0.0, builtins.float:2.5), '
                             'tuple(builtins.float:2.5, builtins.float:5.0), '
                             'tuple(builtins.float:5.0, builtins.float:7.5)))',
 "float-ranges|str:'95MiB'": 'list(numpy.int64(np.int64(3)), dict{builtins.int:0: '
                             "dict{builtins.str:'offset': builtins.float:0.0, builtins.str:'size': "
                             'builtins.float:7.5}}, builtins.str:"Array(url=\'image\', shape=(3, '
                             '1), dtype=\'uint16\', records_per_chunk=np.int64(3))", '
                             'tuple(numpy.int64(np.int64(3)), builtins.int:1), builtins.int:2, '
                             'tuple(builtins.int:3, builtins.int:1), '
                             'list(tuple(builtins.float:0.0, builtins.float:2.5), '
                             'tuple(builtins.float:2.5, builtins.float:5.0), '
                             'tuple(builtins.float:5.0, builtins.float:7.5)))',
 "float-ranges|str:'0.1 GB'": 'list(numpy.int64(np.int64(3)), dict{builtins.int:0: '
                              "dict{builtins.str:'offset': builtins.float:0.0, "
                              "builtins.str:'size': builtins.float:7.5}}, "
                              'builtins.str:"Array(url=\'image\', shape=(3, 1), dtype=\'uint16\', '
                              'records_per_chunk=np.int64(3))", tuple(numpy.int64(np.int64(3)), '
                              'builtins.int:1), builtins.int:2, tuple(builtins.int:3, '
                              'builtins.int:1), list(tuple(builtins.float:0.0, '
                              'builtins.float:2.5), tuple(builtins.float:2.5, builtins.float:5.0), '
                              'tuple(builtins.float:5.0, builtins.float:7.5)))',
 "float-ranges|str:'100'": 'list(numpy.int64(np.int64(3)), dict{builtins.int:0: '
                           "dict{builtins.str:'offset': builtins.float:0.0, builtins.str:'size': "
                           'builtins.float:7.5}}, builtins.str:"Array(url=\'image\', shape=(3, 1), '
                           'dtype=\'uint16\', records_per_chunk=np.int64(3))", '
                           'tuple(numpy.int64(np.int64(3)), builtins.int:1), builtins.int:2, '
                           'tuple(builtins.int:3, builtins.int:1), list(tuple(builtins.float:0.0, '
                           'builtins.float:2.5), tuple(builtins.float:2.5, builtins.float:5.0), '
                           'tuple(builtins.float:5.0, builtins.float:7.5)))',
 "float-ranges|str:'1e2'": 'list(numpy.int64(np.int64(3)), dict{builtins.int:0: '
                           "dict{builtins.str:'offset': builtins.float:0.0, builtins.str:'size': "
                           'builtins.float:7.5}}, builtins.str:"Array(url=\'image\', shape=(3, 1), '
                           'dtype=\'uint16\', records_per_chunk=np.int64(3))", '
                           'tuple(numpy.int64(np.int64(3)), builtins.int:1), builtins.int:2, '
                           'tuple(builtins.int:3, builtins.int:1), list(tuple(builtins.float:0.0, '
                           'builtins.float:2.5), tuple(builtins.float:2.5, builtins.float:5.0), '
                           'tuple(builtins.float:5.0, builtins.float:7.5)))',
 "float-ranges|str:'kB'": 'list(numpy.int64(np.int64(3)), dict{builtins.int:0: '
                          "dict{builtins.str:'offset': builtins.float:0.0, builtins.str:'size': "
                          'builtins.float:7.5}}, builtins.str:"Array(url=\'image\', shape=(3, 1), '
                          'dtype=\'uint16\', records_per_chunk=np.int64(3))", '
                          'tuple(numpy.int64(np.int64(3)), builtins.int:1), builtins.int:2, '
                          'tuple(builtins.int:3, builtins.int:1), list(tuple(builtins.float:0.0, '
                          'builtins.float:2.5), tuple(builtins.float:2.5, builtins.float:5.0), '
                          'tuple(builtins.float:5.0, builtins.float:7.5)))',
 "float-ranges|str:''": 'list(numpy.int64(np.int64(1)), dict{builtins.int:0: '
                        "dict{builtins.str:'offset': builtins.float:0.0, builtins.str:'size': "
                        "builtins.float:2.5}, builtins.int:1: dict{builtins.str:'offset': "
                        "builtins.float:2.5, builtins.str:'size': builtins.float:2.5}, "
                        "builtins.int:2: dict{builtins.str:'offset': builtins.float:5.0, "
                        "builtins.str:'size': builtins.float:2.5}}, "
                        'builtins.str:"Array(url=\'image\', shape=(3, 1), dtype=\'uint16\', '
                        'records_per_chunk=np.int64(1))", tuple(numpy.int64(np.int64(1)), '
                        'builtins.int:1), builtins.int:2, tuple(builtins.int:3, builtins.int:1), '
                        'list(tuple(builtins.float:0.0, builtins.float:2.5), '
                        'tuple(builtins.float:2.5, builtins.float:5.0), tuple(builtins.float:5.0, '
                        'builtins.float:7.5)))',
 "float-ranges|str:'5 foos'": "raise builtins.ValueError: Could not interpret 'foos' as a byte "
                              'unit',
 "float-ranges|str:'abc'": "raise builtins.ValueError: Could not interpret 'abc' as a byte unit",
 "float-ranges|str:'AUTO'": "raise builtins.ValueError: Could not interpret 'AUTO' as a byte unit",
 "float-ranges|str:' auto'": "raise builtins.ValueError: Could not interpret 'auto' as a byte unit",
 "float-ranges|Text:'auto'": 'list(numpy.int64(np.int64(3)), dict{builtins.int:0: '
                             "dict{builtins.str:'offset': builtins.float:0.0, builtins.str:'size': "
                             'builtins.float:7.5}}, builtins.str:"Array(url=\'image\', shape=(3, '
                             '1), dtype=\'uint16\', records_per_chunk=np.int64(3))", '
                             'tuple(numpy.int64(np.int64(3)), builtins.int:1), builtins.int:2, '
                             'tuple(builtins.int:3, builtins.int:1), '
                             'list(tuple(builtins.float:0.0, builtins.float:2.5), '
                             'tuple(builtins.float:2.5, builtins.float:5.0), '
                             'tuple(builtins.float:5.0, builtins.float:7.5)))',
 "float-ranges|Text:'160B'": 'list(numpy.int64(np.int64(3)), dict{builtins.int:0: '
                             "dict{builtins.str:'offset': builtins.float:0.0, builtins.str:'size': "
                             'builtins.float:7.5}}, builtins.str:"Array(url=\'image\', shape=(3, '
                             '1), dtype=\'uint16\', records_per_chunk=np.int64(3))", '
                             'tuple(numpy.int64(np.int64(3)), builtins.int:1), builtins.int:2, '
                             'tuple(builtins.int:3, builtins.int:1), '
                             'list(tuple(builtins.float:0.0, builtins.float:2.5), '
                             'tuple(builtins.float:2.5, builtins.float:5.0), '
                             'tuple(builtins.float:5.0, builtins.float:7.5)))',
 'float-ranges|int:-1': "list(builtins.int:3, dict{builtins.int:0: dict{builtins.str:'offset': "
                        "builtins.float:0.0, builtins.str:'size': builtins.float:7.5}}, "
                        'builtins.str:"Array(url=\'image\', shape=(3, 1), dtype=\'uint16\', '
                        'records_per_chunk=3)", tuple(builtins.int:3, builtins.int:1), '
                        'builtins.int:2, tuple(builtins.int:3, builtins.int:1), '
                        'list(tuple(builtins.float:0.0, builtins.float:2.5), '
                        'tuple(builtins.float:2.5, builtins.float:5.0), tuple(builtins.float:5.0, '
                        'builtins.float:7.5)))',
 'float-ranges|int:0': 'list(builtins.int:0, dict{}, builtins.str:"Array(url=\'image\', shape=(3, '
                       '1), dtype=\'uint16\', records_per_chunk=0)", tuple(builtins.int:0, '
                       'builtins.int:1), builtins.int:2, tuple(builtins.int:3, builtins.int:1), '
                       'list(tuple(builtins.float:0.0, builtins.float:2.5), '
                       'tuple(builtins.float:2.5, builtins.float:5.0), tuple(builtins.float:5.0, '
                       'builtins.float:7.5)))',
 'float-ranges|int:1': "list(builtins.int:1, dict{builtins.int:0: dict{builtins.str:'offset': "
                       "builtins.float:0.0, builtins.str:'size': builtins.float:2.5}, "
                       "builtins.int:1: dict{builtins.str:'offset': builtins.float:2.5, "
                       "builtins.str:'size': builtins.float:2.5}, builtins.int:2: "
                       "dict{builtins.str:'offset': builtins.float:5.0, builtins.str:'size': "
                       'builtins.float:2.5}}, builtins.str:"Array(url=\'image\', shape=(3, 1), '
                       'dtype=\'uint16\', records_per_chunk=1)", tuple(builtins.int:1, '
                       'builtins.int:1), builtins.int:2, tuple(builtins.int:3, builtins.int:1), '
                       'list(tuple(builtins.float:0.0, builtins.float:2.5), '
                       'tuple(builtins.float:2.5, builtins.float:5.0), tuple(builtins.float:5.0, '
                       'builtins.float:7.5)))',
 'float-ranges|int:2': "list(builtins.int:2, dict{builtins.int:0: dict{builtins.str:'offset': "
                       "builtins.float:0.0, builtins.str:'size': builtins.float:5.0}, "
                       "builtins.int:1: dict{builtins.str:'offset': builtins.float:5.0, "
                       "builtins.str:'size': builtins.float:2.5}}, "
                       'builtins.str:"Array(url=\'image\', shape=(3, 1), dtype=\'uint16\', '
                       'records_per_chunk=2)", tuple(builtins.int:2, builtins.int:1), '
                       'builtins.int:2, tuple(builtins.int:3, builtins.int:1), '
                       'list(tuple(builtins.float:0.0, builtins.float:2.5), '
                       'tuple(builtins.float:2.5, builtins.float:5.0), tuple(builtins.float:5.0, '
                       'builtins.float:7.5)))',
 'float-ranges|int:3': "list(builtins.int:3, dict{builtins.int:0: dict{builtins.str:'offset': "
                       "builtins.float:0.0, builtins.str:'size': builtins.float:7.5}}, "
                       'builtins.str:"Array(url=\'image\', shape=(3, 1), dtype=\'uint16\', '
                       'records_per_chunk=3)", tuple(builtins.int:3, builtins.int:1), '
                       'builtins.int:2, tuple(builtins.int:3, builtins.int:1), '
                       'list(tuple(builtins.float:0.0, builtins.float:2.5), '
                       'tuple(builtins.float:2.5, builtins.float:5.0), tuple(builtins.float:5.0, '
                       'builtins.float:7.5)))',
 'float-ranges|int:4': "list(builtins.int:3, dict{builtins.int:0: dict{builtins.str:'offset': "
                       "builtins.float:0.0, builtins.str:'size': builtins.float:7.5}}, "
                       'builtins.str:"Array(url=\'image\', shape=(3, 1), dtype=\'uint16\', '
                       'records_per_chunk=3)", tuple(builtins.int:3, builtins.int:1), '
                       'builtins.int:2, tuple(builtins.int:3, builtins.int:1), '
                       'list(tuple(builtins.float:0.0, builtins.float:2.5), '
                       'tuple(builtins.float:2.5, builtins.float:5.0), tuple(builtins.float:5.0, '
                       'builtins.float:7.5)))',
 'float-ranges|int:5': "list(builtins.int:3, dict{builtins.int:0: dict{builtins.str:'offset': "
                       "builtins.float:0.0, builtins.str:'size': builtins.float:7.5}}, "
                       'builtins.str:"Array(url=\'image\', shape=(3, 1), dtype=\'uint16\', '
                       'records_per_chunk=3)", tuple(builtins.int:3, builtins.int:1), '
                       'builtins.int:2, tuple(builtins.int:3, builtins.int:1), '
                       'list(tuple(builtins.float:0.0, builtins.float:2.5), '
                       'tuple(builtins.float:2.5, builtins.float:5.0), tuple(builtins.float:5.0, '
                       'builtins.float:7.5)))',
 'float-ranges|int:6': "list(builtins.int:3, dict{builtins.int:0: dict{builtins.str:'offset': "
                       "builtins.float:0.0, builtins.str:'size': builtins.float:7.5}}, "
                       'builtins.str:"Array(url=\'image\', shape=(3, 1), dtype=\'uint16\', '
                       'records_per_chunk=3)", tuple(builtins.int:3, builtins.int:1), '
                       'builtins.int:2, tuple(builtins.int:3, builtins.int:1), '
                       'list(tuple(builtins.float:0.0, builtins.float:2.5), '
                       'tuple(builtins.float:2.5, builtins.float:5.0), tuple(builtins.float:5.0, '
                       'builtins.float:7.5)))',
 'float-ranges|int:7': "list(builtins.int:3, dict{builtins.int:0: dict{builtins.str:'offset': "
                       "builtins.float:0.0, builtins.str:'size': builtins.float:7.5}}, "
                       'builtins.str:"Array(url=\'image\', shape=(3, 1), dtype=\'uint16\', '
                       'records_per_chunk=3)", tuple(builtins.int:3, builtins.int:1), '
                       'builtins.int:2, tuple(builtins.int:3, builtins.int:1), '
                       'list(tuple(builtins.float:0.0, builtins.float:2.5), '
                       'tuple(builtins.float:2.5, builtins.float:5.0), tuple(builtins.float:5.0, '
                       'builtins.float:7.5)))',
 'float-ranges|int:8': "list(builtins.int:3, dict{builtins.int:0: dict{builtins.str:'offset': "
                       "builtins.float:0.0, builtins.str:'size': builtins.float:7.5}}, "
                       'builtins.str:"Array(url=\'image\', shape=(3, 1), dtype=\'uint16\', '
                       'records_per_chunk=3)", tuple(builtins.int:3, builtins.int:1), '
                       'builtins.int:2, tuple(builtins.int:3, builtins.int:1), '
                       'list(tuple(builtins.float:0.0, builtins.float:2.5), '
                       'tuple(builtins.float:2.5, builtins.float:5.0), tuple(builtins.float:5.0, '
                       'builtins.float:7.5)))',
 'float-ranges|int:1024': "list(builtins.int:3, dict{builtins.int:0: dict{builtins.str:'offset': "
                          "builtins.float:0.0, builtins.str:'size': builtins.float:7.5}}, "
                          'builtins.str:"Array(url=\'image\', shape=(3, 1), dtype=\'uint16\', '
                          'records_per_chunk=3)", tuple(builtins.int:3, builtins.int:1), '
                          'builtins.int:2, tuple(builtins.int:3, builtins.int:1), '
                          'list(tuple(builtins.float:0.0, builtins.float:2.5), '
                          'tuple(builtins.float:2.5, builtins.float:5.0), '
                          'tuple(builtins.float:5.0, builtins.float:7.5)))',
 'float-ranges|int:-2': 'list(builtins.int:-2, dict{}, builtins.str:"Array(url=\'image\', '
                        'shape=(3, 1), dtype=\'uint16\', records_per_chunk=-2)", '
                        'tuple(builtins.int:-2, builtins.int:1), builtins.int:2, '
                        'tuple(builtins.int:3, builtins.int:1), list(tuple(builtins.float:0.0, '
                        'builtins.float:2.5), tuple(builtins.float:2.5, builtins.float:5.0), '
                        'tuple(builtins.float:5.0, builtins.float:7.5)))',
 'float-ranges|bool:True': 'list(builtins.bool:True, dict{builtins.int:0: '
                           "dict{builtins.str:'offset': builtins.float:0.0, builtins.str:'size': "
                           "builtins.float:2.5}, builtins.int:1: dict{builtins.str:'offset': "
                           "builtins.float:2.5, builtins.str:'size': builtins.float:2.5}, "
                           "builtins.int:2: dict{builtins.str:'offset': builtins.float:5.0, "
                           "builtins.str:'size': builtins.float:2.5}}, "
                           'builtins.str:"Array(url=\'image\', shape=(3, 1), dtype=\'uint16\', '
                           'records_per_chunk=True)", tuple(builtins.bool:True, builtins.int:1), '
                           'builtins.int:2, tuple(builtins.int:3, builtins.int:1), '
                           'list(tuple(builtins.float:0.0, builtins.float:2.5), '
                           'tuple(builtins.float:2.5, builtins.float:5.0), '
                           'tuple(builtins.float:5.0, builtins.float:7.5)))',
 'float-ranges|bool:False': 'list(builtins.bool:False, dict{}, builtins.str:"Array(url=\'image\', '
                            'shape=(3, 1), dtype=\'uint16\', records_per_chunk=False)", '
                            'tuple(builtins.bool:False, builtins.int:1), builtins.int:2, '
                            'tuple(builtins.int:3, builtins.int:1), list(tuple(builtins.float:0.0, '
                            'builtins.float:2.5), tuple(builtins.float:2.5, builtins.float:5.0), '
                            'tuple(builtins.float:5.0, builtins.float:7.5)))',
 'float-ranges|int64:np.int64(3)': 'list(numpy.int64(np.int64(3)), dict{builtins.int:0: '
                                   "dict{builtins.str:'offset': builtins.float:0.0, "
                                   "builtins.str:'size': builtins.float:7.5}}, "
                                   'builtins.str:"Array(url=\'image\', shape=(3, 1), '
                                   'dtype=\'uint16\', records_per_chunk=np.int64(3))", '
                                   'tuple(numpy.int64(np.int64(3)), builtins.int:1), '
                                   'builtins.int:2, tuple(builtins.int:3, builtins.int:1), '
                                   'list(tuple(builtins.float:0.0, builtins.float:2.5), '
                                   'tuple(builtins.float:2.5, builtins.float:5.0), '
                                   'tuple(builtins.float:5.0, builtins.float:7.5)))',
 'float-ranges|int64:np.int64(-1)': 'list(builtins.int:3, dict{builtins.int:0: '
                                    "dict{builtins.str:'offset': builtins.float:0.0, "
                                    "builtins.str:'size': builtins.float:7.5}}, "
                                    'builtins.str:"Array(url=\'image\', shape=(3, 1), '
                                    'dtype=\'uint16\', records_per_chunk=3)", '
                                    'tuple(builtins.int:3, builtins.int:1), builtins.int:2, '
                                    'tuple(builtins.int:3, builtins.int:1), '
                                    'list(tuple(builtins.float:0.0, builtins.float:2.5), '
                                    'tuple(builtins.float:2.5, builtins.float:5.0), '
                                    'tuple(builtins.float:5.0, builtins.float:7.5)))',
 'float-ranges|int64:np.int64(1000000)': 'list(builtins.int:3, dict{builtins.int:0: '
                                         "dict{builtins.str:'offset': builtins.float:0.0, "
                                         "builtins.str:'size': builtins.float:7.5}}, "
                                         'builtins.str:"Array(url=\'image\', shape=(3, 1), '
                                         'dtype=\'uint16\', records_per_chunk=3)", '
                                         'tuple(builtins.int:3, builtins.int:1), builtins.int:2, '
                                         'tuple(builtins.int:3, builtins.int:1), '
                                         'list(tuple(builtins.float:0.0, builtins.float:2.5), '
                                         'tuple(builtins.float:2.5, builtins.float:5.0), '
                                         'tuple(builtins.float:5.0, builtins.float:7.5)))',
 'float-ranges|float:2.0': "raise builtins.TypeError: can't multiply sequence by non-int of type "
                           "'float'",
 'float-ranges|float:2.5': "raise builtins.TypeError: can't multiply sequence by non-int of type "
                           "'float'",
 'float-ranges|float:-1.0': "list(builtins.int:3, dict{builtins.int:0: dict{builtins.str:'offset': "
                            "builtins.float:0.0, builtins.str:'size': builtins.float:7.5}}, "
                            'builtins.str:"Array(url=\'image\', shape=(3, 1), dtype=\'uint16\', '
                            'records_per_chunk=3)", tuple(builtins.int:3, builtins.int:1), '
                            'builtins.int:2, tuple(builtins.int:3, builtins.int:1), '
                            'list(tuple(builtins.float:0.0, builtins.float:2.5), '
                            'tuple(builtins.float:2.5, builtins.float:5.0), '
                            'tuple(builtins.float:5.0, builtins.float:7.5)))',
 'float-ranges|float:nan': "raise builtins.TypeError: can't multiply sequence by non-int of type "
                           "'float'",
 'float-ranges|float:inf': "list(builtins.int:3, dict{builtins.int:0: dict{builtins.str:'offset': "
                           "builtins.float:0.0, builtins.str:'size': builtins.float:7.5}}, "
                           'builtins.str:"Array(url=\'image\', shape=(3, 1), dtype=\'uint16\', '
                           'records_per_chunk=3)", tuple(builtins.int:3, builtins.int:1), '
                           'builtins.int:2, tuple(builtins.int:3, builtins.int:1), '
                           'list(tuple(builtins.float:0.0, builtins.float:2.5), '
                           'tuple(builtins.float:2.5, builtins.float:5.0), '
                           'tuple(builtins.float:5.0, builtins.float:7.5)))',
 "float-ranges|bytes:b'auto'": "raise builtins.TypeError: '>' not supported between instances of "
                               "'bytes' and 'int'",
 'float-ranges|list:[2]': "raise builtins.TypeError: '>' not supported between instances of 'list' "
                          "and 'int'",
 'float-ranges|tuple:(2,)': "raise builtins.TypeError: '>' not supported between instances of "
                            "'tuple' and 'int'",
 'float-ranges|dict:{}': "raise builtins.TypeError: '>' not supported between instances of 'dict' "
                         "and 'int'",
 'float-ranges|complex:(1+0j)': "raise builtins.TypeError: '>' not supported between instances of "
                                "'complex' and 'int'",
 "np-ranges|str:'<omitted>'": 'list(builtins.int:1024, dict{builtins.int:0: '
                              "dict{builtins.str:'offset': numpy.int64(np.int64(10)), "
                              "builtins.str:'size': numpy.int64(np.int64(280))}}, "
                              'builtins.str:"Array(url=\'image\', shape=(7, 20), dtype=\'uint16\', '
                              'records_per_chunk=1024)", tuple(builtins.int:1024, '
                              'builtins.int:20), builtins.int:2, tuple(builtins.int:7, '
                              'builtins.int:20), list(tuple(numpy.int64(np.int64(10)), '
                              'numpy.int64(np.int64(50))), tuple(numpy.int64(np.int64(50)), '
                              'numpy.int64(np.int64(90))), tuple(numpy.int64(np.int64(90)), '
                              'numpy.int64(np.int64(130))), tuple(numpy.int64(np.int64(130)), '
                              'numpy.int64(np.int64(170))), tuple(numpy.int64(np.int64(170)), '
                              'numpy.int64(np.int64(210))), tuple(numpy.int64(np.int64(210)), '
                              'numpy.int64(np.int64(250))), tuple(numpy.int64(np.int64(250)), '
                              'numpy.int64(np.int64(290)))))',
 'np-ranges|NoneType:None': 'list(builtins.int:1024, dict{builtins.int:0: '
                            "dict{builtins.str:'offset': numpy.int64(np.int64(10)), "
                            "builtins.str:'size': numpy.int64(np.int64(280))}}, "
                            'builtins.str:"Array(url=\'image\', shape=(7, 20), dtype=\'uint16\', '
                            'records_per_chunk=1024)", tuple(builtins.int:1024, builtins.int:20), '
                            'builtins.int:2, tuple(builtins.int:7, builtins.int:20), '
                            'list(tuple(numpy.int64(np.int64(10)), numpy.int64(np.int64(50))), '
                            'tuple(numpy.int64(np.int64(50)), numpy.int64(np.int64(90))), '
                            'tuple(numpy.int64(np.int64(90)), numpy.int64(np.int64(130))), '
                            'tuple(numpy.int64(np.int64(130)), numpy.int64(np.int64(170))), '
                            'tuple(numpy.int64(np.int64(170)), numpy.int64(np.int64(210))), '
                            'tuple(numpy.int64(np.int64(210)), numpy.int64(np.int64(250))), '
                            'tuple(numpy.int64(np.int64(250)), numpy.int64(np.int64(290)))))',
 "np-ranges|str:'auto'": 'list(numpy.int64(np.int64(7)), dict{builtins.int:0: '
                         "dict{builtins.str:'offset': numpy.int64(np.int64(10)), "
                         "builtins.str:'size': numpy.int64(np.int64(280))}}, "
                         'builtins.str:"Array(url=\'image\', shape=(7, 20), dtype=\'uint16\', '
                         'records_per_chunk=np.int64(7))", tuple(numpy.int64(np.int64(7)), '
                         'builtins.int:20), builtins.int:2, tuple(builtins.int:7, '
                         'builtins.int:20), list(tuple(numpy.int64(np.int64(10)), '
                         'numpy.int64(np.int64(50))), tuple(numpy.int64(np.int64(50)), '
                         'numpy.int64(np.int64(90))), tuple(numpy.int64(np.int64(90)), '
                         'numpy.int64(np.int64(130))), tuple(numpy.int64(np.int64(130)), '
                         'numpy.int64(np.int64(170))), tuple(numpy.int64(np.int64(170)), '
                         'numpy.int64(np.int64(210))), tuple(numpy.int64(np.int64(210)), '
                         'numpy.int64(np.int64(250))), tuple(numpy.int64(np.int64(250)), '
                         'numpy.int64(np.int64(290)))))',
 "np-ranges|str:'80B'": 'list(numpy.int64(np.int64(2)), dict{builtins.int:0: '
                        "dict{builtins.str:'offset': numpy.int64(np.int64(10)), "
                        "builtins.str:'size': numpy.int64(np.int64(80))}, builtins.int:1: "
                        "dict{builtins.str:'offset': numpy.int64(np.int64(90)), "
                        "builtins.str:'size': numpy.int64(np.int64(80))}, builtins.int:2: "
                        "dict{builtins.str:'offset': numpy.int64(np.int64(170)), "
                        "builtins.str:'size': numpy.int64(np.int64(80))}, builtins.int:3: "
                        "dict{builtins.str:'offset': numpy.int64(np.int64(250)), "
                        "builtins.str:'size': numpy.int64(np.int64(40))}}, "
                        'builtins.str:"Array(url=\'image\', shape=(7, 20), dtype=\'uint16\', '
                        'records_per_chunk=np.int64(2))", tuple(numpy.int64(np.int64(2)), '
                        'builtins.int:20), builtins.int:2, tuple(builtins.int:7, builtins.int:20), '
                        'list(tuple(numpy.int64(np.int64(10)), numpy.int64(np.int64(50))), '
                        'tuple(numpy.int64(np.int64(50)), numpy.int64(np.int64(90))), '
                        'tuple(numpy.int64(np.int64(90)), numpy.int64(np.int64(130))), '
                        'tuple(numpy.int64(np.int64(130)), numpy.int64(np.int64(170))), '
                        'tuple(numpy.int64(np.int64(170)), numpy.int64(np.int64(210))), '
                        'tuple(numpy.int64(np.int64(210)), numpy.int64(np.int64(250))), '
                        'tuple(numpy.int64(np.int64(250)), numpy.int64(np.int64(290)))))',
 "np-ranges|str:'81B'": 'list(numpy.int64(np.int64(2)), dict{builtins.int:0: '
                        "dict{builtins.str:'offset': numpy.int64(np.int64(10)), "
                        "builtins.str:'size': numpy.int64(np.int64(80))}, builtins.int:1: "
                        "dict{builtins.str:'offset': numpy.int64(np.int64(90)), "
                        "builtins.str:'size': numpy.int64(np.int64(80))}, builtins.int:2: "
                        "dict{builtins.str:'offset': numpy.int64(np.int64(170)), "
                        "builtins.str:'size': numpy.int64(np.int64(80))}, builtins.int:3: "
                        "dict{builtins.str:'offset': numpy.int64(np.int64(250)), "
                        "builtins.str:'size': numpy.int64(np.int64(40))}}, "
                        'builtins.str:"Array(url=\'image\', shape=(7, 20), dtype=\'uint16\', '
                        'records_per_chunk=np.int64(2))", tuple(numpy.int64(np.int64(2)), '
                        'builtins.int:20), builtins.int:2, tuple(builtins.int:7, builtins.int:20), '
                        'list(tuple(numpy.int64(np.int64(10)), numpy.int64(np.int64(50))), '
                        'tuple(numpy.int64(np.int64(50)), numpy.int64(np.int64(90))), '
                        'tuple(numpy.int64(np.int64(90)), numpy.int64(np.int64(130))), '
                        'tuple(numpy.int64(np.int64(130)), numpy.int64(np.int64(170))), '
                        'tuple(numpy.int64(np.int64(170)), numpy.int64(np.int64(210))), '
                        'tuple(numpy.int64(np.int64(210)), numpy.int64(np.int64(250))), '
                        'tuple(numpy.int64(np.int64(250)), numpy.int64(np.int64(290)))))',
 "np-ranges|str:'100B'": 'list(numpy.int64(np.int64(2)), dict{builtins.int:0: '
                         "dict{builtins.str:'offset': numpy.int64(np.int64(10)), "
                         "builtins.str:'size': numpy.int64(np.int64(80))}, builtins.int:1: "
                         "dict{builtins.str:'offset': numpy.int64(np.int64(90)), "
                         "builtins.str:'size': numpy.int64(np.int64(80))}, builtins.int:2: "
                         "dict{builtins.str:'offset': numpy.int64(np.int64(170)), "
                         "builtins.str:'size': numpy.int64(np.int64(80))}, builtins.int:3: "
                         "dict{builtins.str:'offset': numpy.int64(np.int64(250)), "
                         "builtins.str:'size': numpy.int64(np.int64(40))}}, "
                         'builtins.str:"Array(url=\'image\', shape=(7, 20), dtype=\'uint16\', '
                         'records_per_chunk=np.int64(2))", tuple(numpy.int64(np.int64(2)), '
                         'builtins.int:20), builtins.int:2, tuple(builtins.int:7, '
                         'builtins.int:20), list(tuple(numpy.int64(np.int64(10)), '
                         'numpy.int64(np.int64(50))), tuple(numpy.int64(np.int64(50)), '
                         'numpy.int64(np.int64(90))), tuple(numpy.int64(np.int64(90)), '
                         'numpy.int64(np.int64(130))), tuple(numpy.int64(np.int64(130)), '
                         'numpy.int64(np.int64(170))), tuple(numpy.int64(np.int64(170)), '
                         'numpy.int64(np.int64(210))), tuple(numpy.int64(np.int64(210)), '
                         'numpy.int64(np.int64(250))), tuple(numpy.int64(np.int64(250)), '
                         'numpy.int64(np.int64(290)))))',
 "np-ranges|str:'119B'": 'list(numpy.int64(np.int64(3)), dict{builtins.int:0: '
                         "dict{builtins.str:'offset': numpy.int64(np.int64(10)), "
                         "builtins.str:'size': numpy.int64(np.int64(120))}, builtins.int:1: "
                         "dict{builtins.str:'offset': numpy.int64(np.int64(130)), "
                         "builtins.str:'size': numpy.int64(np.int64(120))}, builtins.int:2: "
                         "dict{builtins.str:'offset': numpy.int64(np.int64(250)), "
                         "builtins.str:'size': numpy.int64(np.int64(40))}}, "
                         'builtins.str:"Array(url=\'image\', shape=(7, 20), dtype=\'uint16\', '
                         'records_per_chunk=np.int64(3))", tuple(numpy.int64(np.int64(3)), '
                         'builtins.int:20), builtins.int:2, tuple(builtins.int:7, '
                         'builtins.int:20), list(tuple(numpy.int64(np.int64(10)), '
                         'numpy.int64(np.int64(50))), tuple(numpy.int64(np.int64(50)), '
                         'numpy.int64(np.int64(90))), tuple(numpy.int64(np.int64(90)), '
                         'numpy.int64(np.int64(130))), tuple(numpy.int64(np.int64(130)), '
                         'numpy.int64(np.int64(170))), tuple(numpy.int64(np.int64(170)), '
                         'numpy.int64(np.int64(210))), tuple(numpy.int64(np.int64(210)), '
                         'numpy.int64(np.int64(250))), tuple(numpy.int64(np.int64(250)), '
                         'numpy.int64(np.int64(290)))))',
 "np-ranges|str:'120B'": 'list(numpy.int64(np.int64(3)), dict{builtins.int:0: '
                         "dict{builtins.str:'offset': numpy.int64(np.int64(10)), "
                         "builtins.str:'size': numpy.int64(np.int64(120))}, builtins.int:1: "
                         "dict{builtins.str:'offset': numpy.int64(np.int64(130)), "
                         "builtins.str:'size': numpy.int64(np.int64(120))}, builtins.int:2: "
                         "dict{builtins.str:'offset': numpy.int64(np.int64(250)), "
                         "builtins.str:'size': numpy.int64(np.int64(40))}}, "
                         'builtins.str:"Array(url=\'image\', shape=(7, 20), dtype=\'uint16\', '
                         'records_per_chunk=np.int64(3))", tuple(numpy.int64(np.int64(3)), '
                         'builtins.int:20), builtins.int:2, tuple(builtins.int:7, '
                         'builtins.int:20), list(tuple(numpy.int64(np.int64(10)), '
                         'numpy.int64(np.int64(50))), tuple(numpy.int64(np.int64(50)), '
                         'numpy.int64(np.int64(90))), tuple(numpy.int64(np.int64(90)), '
                         'numpy.int64(np.int64(130))), tuple(numpy.int64(np.int64(130)), '
                         'numpy.int64(np.int64(170))), tuple(numpy.int64(np.int64(170)), '
                         'numpy.int64(np.int64(210))), tuple(numpy.int64(np.int64(210)), '
                         'numpy.int64(np.int64(250))), tuple(numpy.int64(np.int64(250)), '
                         'numpy.int64(np.int64(290)))))',
 "np-ranges|str:'121B'": 'list(numpy.int64(np.int64(3)), dict{builtins.int:0: '
                         "dict{builtins.str:'offset': numpy.int64(np.int64(10)), "
                         "builtins.str:'size': numpy.int64(np.int64(120))}, builtins.int:1: "
                         "dict{builtins.str:'offset': numpy.int64(np.int64(130)), "
                         "builtins.str:'size': numpy.int64(np.int64(120))}, builtins.int:2: "
                         "dict{builtins.str:'offset': numpy.int64(np.int64(250)), "
                         "builtins.str:'size': numpy.int64(np.int64(40))}}, "
                         'builtins.str:"Array(url=\'image\', shape=(7, 20), dtype=\'uint16\', '
                         'records_per_chunk=np.int64(3))", tuple(numpy.int64(np.int64(3)), '
                         'builtins.int:20), builtins.int:2, tuple(builtins.int:7, '
                         'builtins.int:20), list(tuple(numpy.int64(np.int64(10)), '
                         'numpy.int64(np.int64(50))), tuple(numpy.int64(np.int64(50)), '
                         'numpy.int64(np.int64(90))), tuple(numpy.int64(np.int64(90)), '
                         'numpy.int64(np.int64(130))), tuple(numpy.int64(np.int64(130)), '
                         'numpy.int64(np.int64(170))), tuple(numpy.int64(np.int64(170)), '
                         'numpy.int64(np.int64(210))), tuple(numpy.int64(np.int64(210)), '
                         'numpy.int64(np.int64(250))), tuple(numpy.int64(np.int64(250)), '
                         'numpy.int64(np.int64(290)))))',
 "np-ranges|str:'0B'": 'list(numpy.int64(np.int64(1)), dict{builtins.int:0: '
                       "dict{builtins.str:'offset': numpy.int64(np.int64(10)), "
                       "builtins.str:'size': numpy.int64(np.int64(40))}, builtins.int:1: "
                       "dict{builtins.str:'offset': numpy.int64(np.int64(50)), "
                       "builtins.str:'size': numpy.int64(np.int64(40))}, builtins.int:2: "
                       "dict{builtins.str:'offset': numpy.int64(np.int64(90)), "
                       "builtins.str:'size': numpy.int64(np.int64(40))}, builtins.int:3: "
                       "dict{builtins.str:'offset': numpy.int64(np.int64(130)), "
                       "builtins.str:'size': numpy.int64(np.int64(40))}, builtins.int:4: "
                       "dict{builtins.str:'offset': numpy.int64(np.int64(170)), "
                       "builtins.str:'size': numpy.int64(np.int64(40))}, builtins.int:5: "
                       "dict{builtins.str:'offset': numpy.int64(np.int64(210)), "
                       "builtins.str:'size': numpy.int64(np.int64(40))}, builtins.int:6: "
                       "dict{builtins.str:'offset': numpy.int64(np.int64(250)), "
                       "builtins.str:'size': numpy.int64(np.int64(40))}}, "
                       'builtins.str:"Array(url=\'image\', shape=(7, 20), dtype=\'uint16\', '
                       'records_per_chunk=np.int64(1))", tuple(numpy.int64(np.int64(1)), '
                       'builtins.int:20), builtins.int:2, tuple(builtins.int:7, builtins.int:20), '
                       'list(tuple(numpy.int64(np.int64(10)), numpy.int64(np.int64(50))), '
                       'tuple(numpy.int64(np.int64(50)), numpy.int64(np.int64(90))), '
                       'tuple(numpy.int64(np.int64(90)), numpy.int64(np.int64(130))), '
                       'tuple(numpy.int64(np.int64(130)), numpy.int64(np.int64(170))), '
                       'tuple(numpy.int64(np.int64(170)), numpy.int64(np.int64(210))), '
                       'tuple(numpy.int64(np.int64(210)), numpy.int64(np.int64(250))), '
                       'tuple(numpy.int64(np.int64(250)), numpy.int64(np.int64(290)))))',
 "np-ranges|str:'1kB'": 'list(numpy.int64(np.int64(7)), dict{builtins.int:0: '
                        "dict{builtins.str:'offset': numpy.int64(np.int64(10)), "
                        "builtins.str:'size': numpy.int64(np.int64(280))}}, "
                        'builtins.str:"Array(url=\'image\', shape=(7, 20), dtype=\'uint16\', '
                        'records_per_chunk=np.int64(7))", tuple(numpy.int64(np.int64(7)), '
                        'builtins.int:20), builtins.int:2, tuple(builtins.int:7, builtins.int:20), '
                        'list(tuple(numpy.int64(np.int64(10)), numpy.int64(np.int64(50))), '
                        'tuple(numpy.int64(np.int64(50)), numpy.int64(np.int64(90))), '
                        'tuple(numpy.int64(np.int64(90)), numpy.int64(np.int64(130))), '
                        'tuple(numpy.int64(np.int64(130)), numpy.int64(np.int64(170))), '
                        'tuple(numpy.int64(np.int64(170)), numpy.int64(np.int64(210))), '
                        'tuple(numpy.int64(np.int64(210)), numpy.int64(np.int64(250))), '
                        'tuple(numpy.int64(np.int64(250)), numpy.int64(np.int64(290)))))',
 "np-ranges|str:'1kiB'": 'list(numpy.int64(np.int64(7)), dict{builtins.int:0: '
                         "dict{builtins.str:'offset': numpy.int64(np.int64(10)), "
                         "builtins.str:'size': numpy.int64(np.int64(280))}}, "
                         'builtins.str:"Array(url=\'image\', shape=(7, 20), dtype=\'uint16\', '
                         'records_per_chunk=np.int64(7))", tuple(numpy.int64(np.int64(7)), '
                         'builtins.int:20), builtins.int:2, tuple(builtins.int:7, '
                         'builtins.int:20), list(tuple(numpy.int64(np.int64(10)), '
                         'numpy.int64(np.int64(50))), tuple(numpy.int64(np.int64(50)), '
                         'numpy.int64(np.int64(90))), tuple(numpy.int64(np.int64(90)), '
                         'numpy.int64(np.int64(130))), tuple(numpy.int64(np.int64(130)), '
                         'numpy.int64(np.int64(170))), tuple(numpy.int64(np.int64(170)), '
                         'numpy.int64(np.int64(210))), tuple(numpy.int64(np.int64(210)), '
                         'numpy.int64(np.int64(250))), tuple(numpy.int64(np.int64(250)), '
                         'numpy.int64(np.int64(290)))))',
 "np-ranges|str:'1 MiB'": 'list(numpy.int64(np.int64(7)), dict{builtins.int:0: '
                          "dict{builtins.str:'offset': numpy.int64(np.int64(10)), "
                          "builtins.str:'size': numpy.int64(np.int64(280))}}, "
                          'builtins.str:"Array(url=\'image\', shape=(7, 20), dtype=\'uint16\', '
                          'records_per_chunk=np.int64(7))", tuple(numpy.int64(np.int64(7)), '
                          'builtins.int:20), builtins.int:2, tuple(builtins.int:7, '
                          'builtins.int:20), list(tuple(numpy.int64(np.int64(10)), '
                          'numpy.int64(np.int64(50))), tuple(numpy.int64(np.int64(50)), '
                          'numpy.int64(np.int64(90))), tuple(numpy.int64(np.int64(90)), '
                          'numpy.int64(np.int64(130))), tuple(numpy.int64(np.int64(130)), '
                          'numpy.int64(np.int64(170))), tuple(numpy.int64(np.int64(170)), '
                          'numpy.int64(np.int64(210))), tuple(numpy.int64(np.int64(210)), '
                          'numpy.int64(np.int64(250))), tuple(numpy.int64(np.int64(250)), '
                          'numpy.int64(np.int64(290)))))',
 "np-ranges|str:'95MiB'": 'list(numpy.int64(np.int64(7)), dict{builtins.int:0: '
                          "dict{builtins.str:'offset': numpy.int64(np.int64(10)), "
                          "builtins.str:'size': numpy.int64(np.int64(280))}}, "
                          'builtins.str:"Array(url=\'image\', shape=(7, 20), dtype=\'uint16\', '
                          'records_per_chunk=np.int64(7))", tuple(numpy.int64(np.int64(7)), '
                          'builtins.int:20), builtins.int:2, tuple(builtins.int:7, '
                          'builtins.int:20), list(tuple(numpy.int64(np.int64(10)), '
                          'numpy.int64(np.int64(50))), tuple(numpy.int64(np.int64(50)), '
                          'numpy.int64(np.int64(90))), tuple(numpy.int64(np.int64(90)), '
                          'numpy.int64(np.int64(130))), tuple(numpy.int64(np.int64(130)), '
                          'numpy.int64(np.int64(170))), tuple(numpy.int64(np.int64(170)), '
                          'numpy.int64(np.int64(210))), tuple(numpy.int64(np.int64(210)), '
                          'numpy.int64(np.int64(250))), tuple(numpy.int64(np.int64(250)), '
                          'numpy.int64(np.int64(290)))))',
 "np-ranges|str:'0.1 GB'": 'list(numpy.int64(np.int64(7)), dict{builtins.int:0: '
                           "dict{builtins.str:'offset': numpy.int64(np.int64(10)), "
                           "builtins.str:'size': numpy.int64(np.int64(280))}}, "
                           'builtins.str:"Array(url=\'image\', shape=(7, 20), dtype=\'uint16\', '
                           'records_per_chunk=np.int64(7))", tuple(numpy.int64(np.int64(7)), '
                           'builtins.int:20), builtins.int:2, tuple(builtins.int:7, '
                           'builtins.int:20), list(tuple(numpy.int64(np.int64(10)), '
                           'numpy.int64(np.int64(50))), tuple(numpy.int64(np.int64(50)), '
                           'numpy.int64(np.int64(90))), tuple(numpy.int64(np.int64(90)), '
                           'numpy.int64(np.int64(130))), tuple(numpy.int64(np.int64(130)), '
                           'numpy.int64(np.int64(170))), tuple(numpy.int64(np.int64(170)), '
                           'numpy.int64(np.int64(210))), tuple(numpy.int64(np.int64(210)), '
                           'numpy.int64(np.int64(250))), tuple(numpy.int64(np.int64(250)), '
                           'numpy.int64(np.int64(290)))))',
 "np-ranges|str:'100'": 'list(numpy.int64(np.int64(2)), dict{builtins.int:0: '
                        "dict{builtins.str:'offset': numpy.int64(np.int64(10)), "
                        "builtins.str:'size': numpy.int64(np.int64(80))}, builtins.int:1: "
                        "dict{builtins.str:'offset': numpy.int64(np.int64(90)), "
                        "builtins.str:'size': numpy.int64(np.int64(80))}, builtins.int:2: "
                        "dict{builtins.str:'offset': numpy.int64(np.int64(170)), "
                        "builtins.str:'size': numpy.int64(np.int64(80))}, builtins.int:3: "
                        "dict{builtins.str:'offset': numpy.int64(np.int64(250)), "
                        "builtins.str:'size': numpy.int64(np.int64(40))}}, "
                        'builtins.str:"Array(url=\'image\', shape=(7, 20), dtype=\'uint16\', '
                        'records_per_chunk=np.int64(2))", tuple(numpy.int64(np.int64(2)), '
                        'builtins.int:20), builtins.int:2, tuple(builtins.int:7, builtins.int:20), '
                        'list(tuple(numpy.int64(np.int64(10)), numpy.int64(np.int64(50))), '
                        'tuple(numpy.int64(np.int64(50)), numpy.int64(np.int64(90))), '
                        'tuple(numpy.int64(np.int64(90)), numpy.int64(np.int64(130))), '
                        'tuple(numpy.int64(np.int64(130)), numpy.int64(np.int64(170))), '
                        'tuple(numpy.int64(np.int64(170)), numpy.int64(np.int64(210))), '
                        'tuple(numpy.int64(np.int64(210)), numpy.int64(np.int64(250))), '
                        'tuple(numpy.int64(np.int64(250)), numpy.int64(np.int64(290)))))',
 "np-ranges|str:'1e2'": 'list(numpy.int64(np.int64(2)), dict{builtins.int:0: '
                        "dict{builtins.str:'offset': numpy.int64(np.int64(10)), "
                        "builtins.str:'size': numpy.int64(np.int64(80))}, builtins.int:1: "
                        "dict{builtins.str:'offset': numpy.int64(np.int64(90)), "
                        "builtins.str:'size': numpy.int64(np.int64(80))}, builtins.int:2: "
                        "dict{builtins.str:'offset': numpy.int64(np.int64(170)), "
                        "builtins.str:'size': numpy.int64(np.int64(80))}, builtins.int:3: "
                        "dict{builtins.str:'offset': numpy.int64(np.int64(250)), "
                        "builtins.str:'size': numpy.int64(np.int64(40))}}, "
                        'builtins.str:"Array(url=\'image\', shape=(7, 20), dtype=\'uint16\', '
                        'records_per_chunk=np.int64(2))", tuple(numpy.int64(np.int64(2)), '
                        'builtins.int:20), builtins.int:2, tuple(builtins.int:7, builtins.int:20), '
                        'list(tuple(numpy.int64(np.int64(10)), numpy.int64(np.int64(50))), '
                        'tuple(numpy.int64(np.int64(50)), numpy.int64(np.int64(90))), '
                        'tuple(numpy.int64(np.int64(90)), numpy.int64(np.int64(130))), '
                        'tuple(numpy.int64(np.int64(130)), numpy.int64(np.int64(170))), '
                        'tuple(numpy.int64(np.int64(170)), numpy.int64(np.int64(210))), '
                        'tuple(numpy.int64(np.int64(210)), numpy.int64(np.int64(250))), '
                        'tuple(numpy.int64(np.int64(250)), numpy.int64(np.int64(290)))))',
 "np-ranges|str:'kB'": 'list(numpy.int64(np.int64(7)), dict{builtins.int:0: '
                       "dict{builtins.str:'offset': numpy.int64(np.int64(10)), "
                       "builtins.str:'size': numpy.int64(np.int64(280))}}, "
                       'builtins.str:"Array(url=\'image\', shape=(7, 20), dtype=\'uint16\', '
                       'records_per_chunk=np.int64(7))", tuple(numpy.int64(np.int64(7)), '
                       'builtins.int:20), builtins.int:2, tuple(builtins.int:7, builtins.int:20), '
                       'list(tuple(numpy.int64(np.int64(10)), numpy.int64(np.int64(50))), '
                       'tuple(numpy.int64(np.int64(50)), numpy.int64(np.int64(90))), '
                       'tuple(numpy.int64(np.int64(90)), numpy.int64(np.int64(130))), '
                       'tuple(numpy.int64(np.int64(130)), numpy.int64(np.int64(170))), '
                       'tuple(numpy.int64(np.int64(170)), numpy.int64(np.int64(210))), '
                       'tuple(numpy.int64(np.int64(210)), numpy.int64(np.int64(250))), '
                       'tuple(numpy.int64(np.int64(250)), numpy.int64(np.int64(290)))))',
 "np-ranges|str:''": 'list(numpy.int64(np.int64(1)), dict{builtins.int:0: '
                     "dict{builtins.str:'offset': numpy.int64(np.int64(10)), builtins.str:'size': "
                     "numpy.int64(np.int64(40))}, builtins.int:1: dict{builtins.str:'offset': "
                     "numpy.int64(np.int64(50)), builtins.str:'size': numpy.int64(np.int64(40))}, "
                     "builtins.int:2: dict{builtins.str:'offset': numpy.int64(np.int64(90)), "
                     "builtins.str:'size': numpy.int64(np.int64(40))}, builtins.int:3: "
                     "dict{builtins.str:'offset': numpy.int64(np.int64(130)), builtins.str:'size': "
                     "numpy.int64(np.int64(40))}, builtins.int:4: dict{builtins.str:'offset': "
                     "numpy.int64(np.int64(170)), builtins.str:'size': numpy.int64(np.int64(40))}, "
                     "builtins.int:5: dict{builtins.str:'offset': numpy.int64(np.int64(210)), "
                     "builtins.str:'size': numpy.int64(np.int64(40))}, builtins.int:6: "
                     "dict{builtins.str:'offset': numpy.int64(np.int64(250)), builtins.str:'size': "
                     'numpy.int64(np.int64(40))}}, builtins.str:"Array(url=\'image\', shape=(7, '
                     '20), dtype=\'uint16\', records_per_chunk=np.int64(1))", '
                     'tuple(numpy.int64(np.int64(1)), builtins.int:20), builtins.int:2, '
                     'tuple(builtins.int:7, builtins.int:20), '
                     'list(tuple(numpy.int64(np.int64(10)), numpy.int64(np.int64(50))), '
                     'tuple(numpy.int64(np.int64(50)), numpy.int64(np.int64(90))), '
                     'tuple(numpy.int64(np.int64(90)), numpy.int64(np.int64(130))), '
                     'tuple(numpy.int64(np.int64(130)), numpy.int64(np.int64(170))), '
                     'tuple(numpy.int64(np.int64(170)), numpy.int64(np.int64(210))), '
                     'tuple(numpy.int64(np.int64(210)), numpy.int64(np.int64(250))), '
                     'tuple(numpy.int64(np.int64(250)), numpy.int64(np.int64(290)))))',
 "np-ranges|str:'5 foos'": "raise builtins.ValueError: Could not interpret 'foos' as a byte unit",
 "np-ranges|str:'abc'": "raise builtins.ValueError: Could not interpret 'abc' as a byte unit",
 "np-ranges|str:'AUTO'": "raise builtins.ValueError: Could not interpret 'AUTO' as a byte unit",
 "np-ranges|str:' auto'": "raise builtins.ValueError: Could not interpret 'auto' as a byte unit",
 "np-ranges|Text:'auto'": 'list(numpy.int64(np.int64(7)), dict{builtins.int:0: '
                          "dict{builtins.str:'offset': numpy.int64(np.int64(10)), "
                          "builtins.str:'size': numpy.int64(np.int64(280))}}, "
                          'builtins.str:"Array(url=\'image\', shape=(7, 20), dtype=\'uint16\', '
                          'records_per_chunk=np.int64(7))", tuple(numpy.int64(np.int64(7)), '
                          'builtins.int:20), builtins.int:2, tuple(builtins.int:7, '
                          'builtins.int:20), list(tuple(numpy.int64(np.int64(10)), '
                          'numpy.int64(np.int64(50))), tuple(numpy.int64(np.int64(50)), '
                          'numpy.int64(np.int64(90))), tuple(numpy.int64(np.int64(90)), '
                          'numpy.int64(np.int64(130))), tuple(numpy.int64(np.int64(130)), '
                          'numpy.int64(np.int64(170))), tuple(numpy.int64(np.int64(170)), '
                          'numpy.int64(np.int64(210))), tuple(numpy.int64(np.int64(210)), '
                          'numpy.int64(np.int64(250))), tuple(numpy.int64(np.int64(250)), '
                          'numpy.int64(np.int64(290)))))',
 "np-ranges|Text:'160B'": 'list(numpy.int64(np.int64(4)), dict{builtins.int:0: '
                          "dict{builtins.str:'offset': numpy.int64(np.int64(10)), "
                          "builtins.str:'size': numpy.int64(np.int64(160))}, builtins.int:1: "
                          "dict{builtins.str:'offset': numpy.int64(np.int64(170)), "
                          "builtins.str:'size': numpy.int64(np.int64(120))}}, "
                          'builtins.str:"Array(url=\'image\', shape=(7, 20), dtype=\'uint16\', '
                          'records_per_chunk=np.int64(4))", tuple(numpy.int64(np.int64(4)), '
                          'builtins.int:20), builtins.int:2, tuple(builtins.int:7, '
                          'builtins.int:20), list(tuple(numpy.int64(np.int64(10)), '
                          'numpy.int64(np.int64(50))), tuple(numpy.int64(np.int64(50)), '
                          'numpy.int64(np.int64(90))), tuple(numpy.int64(np.int64(90)), '
                          'numpy.int64(np.int64(130))), tuple(numpy.int64(np.int64(130)), '
                          'numpy.int64(np.int64(170))), tuple(numpy.int64(np.int64(170)), '
                          'numpy.int64(np.int64(210))), tuple(numpy.int64(np.int64(210)), '
                          'numpy.int64(np.int64(250))), tuple(numpy.int64(np.int64(250)), '
                          'numpy.int64(np.int64(290)))))',
 'np-ranges|int:-1': "list(builtins.int:7, dict{builtins.int:0: dict{builtins.str:'offset': "
                     "numpy.int64(np.int64(10)), builtins.str:'size': "
                     'numpy.int64(np.int64(280))}}, builtins.str:"Array(url=\'image\', shape=(7, '
                     '20), dtype=\'uint16\', records_per_chunk=7)", tuple(builtins.int:7, '
                     'builtins.int:20), builtins.int:2, tuple(builtins.int:7, builtins.int:20), '
                     'list(tuple(numpy.int64(np.int64(10)), numpy.int64(np.int64(50))), '
                     'tuple(numpy.int64(np.int64(50)), numpy.int64(np.int64(90))), '
                     'tuple(numpy.int64(np.int64(90)), numpy.int64(np.int64(130))), '
                     'tuple(numpy.int64(np.int64(130)), numpy.int64(np.int64(170))), '
                     'tuple(numpy.int64(np.int64(170)), numpy.int64(np.int64(210))), '
                     'tuple(numpy.int64(np.int64(210)), numpy.int64(np.int64(250))), '
                     'tuple(numpy.int64(np.int64(250)), numpy.int64(np.int64(290)))))',
 'np-ranges|int:0': 'list(builtins.int:0, dict{}, builtins.str:"Array(url=\'image\', shape=(7, '
                    '20), dtype=\'uint16\', records_per_chunk=0)", tuple(builtins.int:0, '
                    'builtins.int:20), builtins.int:2, tuple(builtins.int:7, builtins.int:20), '
                    'list(tuple(numpy.int64(np.int64(10)), numpy.int64(np.int64(50))), '
                    'tuple(numpy.int64(np.int64(50)), numpy.int64(np.int64(90))), '
                    'tuple(numpy.int64(np.int64(90)), numpy.int64(np.int64(130))), '
                    'tuple(numpy.int64(np.int64(130)), numpy.int64(np.int64(170))), '
                    'tuple(numpy.int64(np.int64(170)), numpy.int64(np.int64(210))), '
                    'tuple(numpy.int64(np.int64(210)), numpy.int64(np.int64(250))), '
                    'tuple(numpy.int64(np.int64(250)), numpy.int64(np.int64(290)))))',
 'np-ranges|int:1': "list(builtins.int:1, dict{builtins.int:0: dict{builtins.str:'offset': "
                    "numpy.int64(np.int64(10)), builtins.str:'size': numpy.int64(np.int64(40))}, "
                    "builtins.int:1: dict{builtins.str:'offset': numpy.int64(np.int64(50)), "
                    "builtins.str:'size': numpy.int64(np.int64(40))}, builtins.int:2: "
                    "dict{builtins.str:'offset': numpy.int64(np.int64(90)), builtins.str:'size': "
                    "numpy.int64(np.int64(40))}, builtins.int:3: dict{builtins.str:'offset': "
                    "numpy.int64(np.int64(130)), builtins.str:'size': numpy.int64(np.int64(40))}, "
                    "builtins.int:4: dict{builtins.str:'offset': numpy.int64(np.int64(170)), "
                    "builtins.str:'size': numpy.int64(np.int64(40))}, builtins.int:5: "
                    "dict{builtins.str:'offset': numpy.int64(np.int64(210)), builtins.str:'size': "
                    "numpy.int64(np.int64(40))}, builtins.int:6: dict{builtins.str:'offset': "
                    "numpy.int64(np.int64(250)), builtins.str:'size': numpy.int64(np.int64(40))}}, "
                    'builtins.str:"Array(url=\'image\', shape=(7, 20), dtype=\'uint16\', '
                    'records_per_chunk=1)", tuple(builtins.int:1, builtins.int:20), '
                    'builtins.int:2, tuple(builtins.int:7, builtins.int:20), '
                    'list(tuple(numpy.int64(np.int64(10)), numpy.int64(np.int64(50))), '
                    'tuple(numpy.int64(np.int64(50)), numpy.int64(np.int64(90))), '
                    'tuple(numpy.int64(np.int64(90)), numpy.int64(np.int64(130))), '
                    'tuple(numpy.int64(np.int64(130)), numpy.int64(np.int64(170))), '
                    'tuple(numpy.int64(np.int64(170)), numpy.int64(np.int64(210))), '
                    'tuple(numpy.int64(np.int64(210)), numpy.int64(np.int64(250))), '
                    'tuple(numpy.int64(np.int64(250)), numpy.int64(np.int64(290)))))',
 'np-ranges|int:2': "list(builtins.int:2, dict{builtins.int:0: dict{builtins.str:'offset': "
                    "numpy.int64(np.int64(10)), builtins.str:'size': numpy.int64(np.int64(80))}, "
                    "builtins.int:1: dict{builtins.str:'offset': numpy.int64(np.int64(90)), "
                    "builtins.str:'size': numpy.int64(np.int64(80))}, builtins.int:2: "
                    "dict{builtins.str:'offset': numpy.int64(np.int64(170)), builtins.str:'size': "
                    "numpy.int64(np.int64(80))}, builtins.int:3: dict{builtins.str:'offset': "
                    "numpy.int64(np.int64(250)), builtins.str:'size': numpy.int64(np.int64(40))}}, "
                    'builtins.str:"Array(url=\'image\', shape=(7, 20), dtype=\'uint16\', '
                    'records_per_chunk=2)", tuple(builtins.int:2, builtins.int:20), '
                    'builtins.int:2, tuple(builtins.int:7, builtins.int:20), '
                    'list(tuple(numpy.int64(np.int64(10)), numpy.int64(np.int64(50))), '
                    'tuple(numpy.int64(np.int64(50)), numpy.int64(np.int64(90))), '
                    'tuple(numpy.int64(np.int64(90)), numpy.int64(np.int64(130))), '
                    'tuple(numpy.int64(np.int64(130)), numpy.int64(np.int64(170))), '
                    'tuple(numpy.int64(np.int64(170)), numpy.int64(np.int64(210))), '
                    'tuple(numpy.int64(np.int64(210)), numpy.int64(np.int64(250))), '
                    'tuple(numpy.int64(np.int64(250)), numpy.int64(np.int64(290)))))',
 'np-ranges|int:3': "list(builtins.int:3, dict{builtins.int:0: dict{builtins.str:'offset': "
                    "numpy.int64(np.int64(10)), builtins.str:'size': numpy.int64(np.int64(120))}, "
                    "builtins.int:1: dict{builtins.str:'offset': numpy.int64(np.int64(130)), "
                    "builtins.str:'size': numpy.int64(np.int64(120))}, builtins.int:2: "
                    "dict{builtins.str:'offset': numpy.int64(np.int64(250)), builtins.str:'size': "
                    'numpy.int64(np.int64(40))}}, builtins.str:"Array(url=\'image\', shape=(7, '
                    '20), dtype=\'uint16\', records_per_chunk=3)", tuple(builtins.int:3, '
                    'builtins.int:20), builtins.int:2, tuple(builtins.int:7, builtins.int:20), '
                    'list(tuple(numpy.int64(np.int64(10)), numpy.int64(np.int64(50))), '
                    'tuple(numpy.int64(np.int64(50)), numpy.int64(np.int64(90))), '
                    'tuple(numpy.int64(np.int64(90)), numpy.int64(np.int64(130))), '
                    'tuple(numpy.int64(np.int64(130)), numpy.int64(np.int64(170))), '
                    'tuple(numpy.int64(np.int64(170)), numpy.int64(np.int64(210))), '
                    'tuple(numpy.int64(np.int64(210)), numpy.int64(np.int64(250))), '
                    'tuple(numpy.int64(np.int64(250)), numpy.int64(np.int64(290)))))',
 'np-ranges|int:4': "list(builtins.int:4, dict{builtins.int:0: dict{builtins.str:'offset': "
                    "numpy.int64(np.int64(10)), builtins.str:'size': numpy.int64(np.int64(160))}, "
                    "builtins.int:1: dict{builtins.str:'offset': numpy.int64(np.int64(170)), "
                    "builtins.str:'size': numpy.int64(np.int64(120))}}, "
                    'builtins.str:"Array(url=\'image\', shape=(7, 20), dtype=\'uint16\', '
                    'records_per_chunk=4)", tuple(builtins.int:4, builtins.int:20), '
                    'builtins.int:2, tuple(builtins.int:7, builtins.int:20), '
                    'list(tuple(numpy.int64(np.int64(10)), numpy.int64(np.int64(50))), '
                    'tuple(numpy.int64(np.int64(50)), numpy.int64(np.int64(90))), '
                    'tuple(numpy.int64(np.int64(90)), numpy.int64(np.int64(130))), '
                    'tuple(numpy.int64(np.int64(130)), numpy.int64(np.int64(170))), '
                    'tuple(numpy.int64(np.int64(170)), numpy.int64(np.int64(210))), '
                    'tuple(numpy.int64(np.int64(210)), numpy.int64(np.int64(250))), '
                    'tuple(numpy.int64(np.int64(250)), numpy.int64(np.int64(290)))))',
 'np-ranges|int:5': "list(builtins.int:5, dict{builtins.int:0: dict{builtins.str:'offset': "
                    "numpy.int64(np.int64(10)), builtins.str:'size': numpy.int64(np.int64(200))}, "
                    "builtins.int:1: dict{builtins.str:'offset': numpy.int64(np.int64(210)), "
                    "builtins.str:'size': numpy.int64(np.int64(80))}}, "
                    'builtins.str:"Array(url=\'image\', shape=(7, 20), dtype=\'uint16\', '
                    'records_per_chunk=5)", tuple(builtins.int:5, builtins.int:20), '
                    'builtins.int:2, tuple(builtins.int:7, builtins.int:20), '
                    'list(tuple(numpy.int64(np.int64(10)), numpy.int64(np.int64(50))), '
                    'tuple(numpy.int64(np.int64(50)), numpy.int64(np.int64(90))), '
                    'tuple(numpy.int64(np.int64(90)), numpy.int64(np.int64(130))), '
                    'tuple(numpy.int64(np.int64(130)), numpy.int64(np.int64(170))), '
                    'tuple(numpy.int64(np.int64(170)), numpy.int64(np.int64(210))), '
                    'tuple(numpy.int64(np.int64(210)), numpy.int64(np.int64(250))), '
                    'tuple(numpy.int64(np.int64(250)), numpy.int64(np.int64(290)))))',
 'np-ranges|int:6': "list(builtins.int:6, dict{builtins.int:0: dict{builtins.str:'offset': "
                    "numpy.int64(np.int64(10)), builtins.str:'size': numpy.int64(np.int64(240))}, "
                    "builtins.int:1: dict{builtins.str:'offset': numpy.int64(np.int64(250)), "
                    "builtins.str:'size': numpy.int64(np.int64(40))}}, "
                    'builtins.str:"Array(url=\'image\', shape=(7, 20), dtype=\'uint16\', '
                    'records_per_chunk=6)", tuple(builtins.int:6, builtins.int:20), '
                    'builtins.int:2, tuple(builtins.int:7, builtins.int:20), '
                    'list(tuple(numpy.int64(np.int64(10)), numpy.int64(np.int64(50))), '
                    'tuple(numpy.int64(np.int64(50)), numpy.int64(np.int64(90))), '
                    'tuple(numpy.int64(np.int64(90)), numpy.int64(np.int64(130))), '
                    'tuple(numpy.int64(np.int64(130)), numpy.int64(np.int64(170))), '
                    'tuple(numpy.int64(np.int64(170)), numpy.int64(np.int64(210))), '
                    'tuple(numpy.int64(np.int64(210)), numpy.int64(np.int64(250))), '
                    'tuple(numpy.int64(np.int64(250)), numpy.int64(np.int64(290)))))',
 'np-ranges|int:7': "list(builtins.int:7, dict{builtins.int:0: dict{builtins.str:'offset': "
                    "numpy.int64(np.int64(10)), builtins.str:'size': numpy.int64(np.int64(280))}}, "
                    'builtins.str:"Array(url=\'image\', shape=(7, 20), dtype=\'uint16\', '
                    'records_per_chunk=7)", tuple(builtins.int:7, builtins.int:20), '
                    'builtins.int:2, tuple(builtins.int:7, builtins.int:20), '
                    'list(tuple(numpy.int64(np.int64(10)), numpy.int64(np.int64(50))), '
                    'tuple(numpy.int64(np.int64(50)), numpy.int64(np.int64(90))), '
                    'tuple(numpy.int64(np.int64(90)), numpy.int64(np.int64(130))), '
                    'tuple(numpy.int64(np.int64(130)), numpy.int64(np.int64(170))), '
                    'tuple(numpy.int64(np.int64(170)), numpy.int64(np.int64(210))), '
                    'tuple(numpy.int64(np.int64(210)), numpy.int64(np.int64(250))), '
                    'tuple(numpy.int64(np.int64(250)), numpy.int64(np.int64(290)))))',
 'np-ranges|int:8': "list(builtins.int:7, dict{builtins.int:0: dict{builtins.str:'offset': "
                    "numpy.int64(np.int64(10)), builtins.str:'size': numpy.int64(np.int64(280))}}, "
                    'builtins.str:"Array(url=\'image\', shape=(7, 20), dtype=\'uint16\', '
                    'records_per_chunk=7)", tuple(builtins.int:7, builtins.int:20), '
                    'builtins.int:2, tuple(builtins.int:7, builtins.int:20), '
                    'list(tuple(numpy.int64(np.int64(10)), numpy.int64(np.int64(50))), '
                    'tuple(numpy.int64(np.int64(50)), numpy.int64(np.int64(90))), '
                    'tuple(numpy.int64(np.int64(90)), numpy.int64(np.int64(130))), '
                    'tuple(numpy.int64(np.int64(130)), numpy.int64(np.int64(170))), '
                    'tuple(numpy.int64(np.int64(170)), numpy.int64(np.int64(210))), '
                    'tuple(numpy.int64(np.int64(210)), numpy.int64(np.int64(250))), '
                    'tuple(numpy.int64(np.int64(250)), numpy.int64(np.int64(290)))))',
 'np-ranges|int:1024': "list(builtins.int:7, dict{builtins.int:0: dict{builtins.str:'offset': "
                       "numpy.int64(np.int64(10)), builtins.str:'size': "
                       'numpy.int64(np.int64(280))}}, builtins.str:"Array(url=\'image\', shape=(7, '
                       '20), dtype=\'uint16\', records_per_chunk=7)", tuple(builtins.int:7, '
                       'builtins.int:20), builtins.int:2, tuple(builtins.int:7, builtins.int:20), '
                       'list(tuple(numpy.int64(np.int64(10)), numpy.int64(np.int64(50))), '
                       'tuple(numpy.int64(np.int64(50)), numpy.int64(np.int64(90))), '
                       'tuple(numpy.int64(np.int64(90)), numpy.int64(np.int64(130))), '
                       'tuple(numpy.int64(np.int64(130)), numpy.int64(np.int64(170))), '
                       'tuple(numpy.int64(np.int64(170)), numpy.int64(np.int64(210))), '
                       'tuple(numpy.int64(np.int64(210)), numpy.int64(np.int64(250))), '
                       'tuple(numpy.int64(np.int64(250)), numpy.int64(np.int64(290)))))',
 'np-ranges|int:-2': 'list(builtins.int:-2, dict{}, builtins.str:"Array(url=\'image\', shape=(7, '
                     '20), dtype=\'uint16\', records_per_chunk=-2)", tuple(builtins.int:-2, '
                     'builtins.int:20), builtins.int:2, tuple(builtins.int:7, builtins.int:20), '
                     'list(tuple(numpy.int64(np.int64(10)), numpy.int64(np.int64(50))), '
                     'tuple(numpy.int64(np.int64(50)), numpy.int64(np.int64(90))), '
                     'tuple(numpy.int64(np.int64(90)), numpy.int64(np.int64(130))), '
                     'tuple(numpy.int64(np.int64(130)), numpy.int64(np.int64(170))), '
                     'tuple(numpy.int64(np.int64(170)), numpy.int64(np.int64(210))), '
                     'tuple(numpy.int64(np.int64(210)), numpy.int64(np.int64(250))), '
                     'tuple(numpy.int64(np.int64(250)), numpy.int64(np.int64(290)))))',
 'np-ranges|bool:True': "list(builtins.bool:True, dict{builtins.int:0: dict{builtins.str:'offset': "
                        "numpy.int64(np.int64(10)), builtins.str:'size': "
                        "numpy.int64(np.int64(40))}, builtins.int:1: dict{builtins.str:'offset': "
                        "numpy.int64(np.int64(50)), builtins.str:'size': "
                        "numpy.int64(np.int64(40))}, builtins.int:2: dict{builtins.str:'offset': "
                        "numpy.int64(np.int64(90)), builtins.str:'size': "
                        "numpy.int64(np.int64(40))}, builtins.int:3: dict{builtins.str:'offset': "
                        "numpy.int64(np.int64(130)), builtins.str:'size': "
                        "numpy.int64(np.int64(40))}, builtins.int:4: dict{builtins.str:'offset': "
                        "numpy.int64(np.int64(170)), builtins.str:'size': "
                        "numpy.int64(np.int64(40))}, builtins.int:5: dict{builtins.str:'offset': "
                        "numpy.int64(np.int64(210)), builtins.str:'size': "
                        "numpy.int64(np.int64(40))}, builtins.int:6: dict{builtins.str:'offset': "
                        "numpy.int64(np.int64(250)), builtins.str:'size': "
                        'numpy.int64(np.int64(40))}}, builtins.str:"Array(url=\'image\', shape=(7, '
                        '20), dtype=\'uint16\', records_per_chunk=True)", '
                        'tuple(builtins.bool:True, builtins.int:20), builtins.int:2, '
                        'tuple(builtins.int:7, builtins.int:20), '
                        'list(tuple(numpy.int64(np.int64(10)), numpy.int64(np.int64(50))), '
                        'tuple(numpy.int64(np.int64(50)), numpy.int64(np.int64(90))), '
                        'tuple(numpy.int64(np.int64(90)), numpy.int64(np.int64(130))), '
                        'tuple(numpy.int64(np.int64(130)), numpy.int64(np.int64(170))), '
                        'tuple(numpy.int64(np.int64(170)), numpy.int64(np.int64(210))), '
                        'tuple(numpy.int64(np.int64(210)), numpy.int64(np.int64(250))), '
                        'tuple(numpy.int64(np.int64(250)), numpy.int64(np.int64(290)))))',
 'np-ranges|bool:False': 'list(builtins.bool:False, dict{}, builtins.str:"Array(url=\'image\', '
                         'shape=(7, 20), dtype=\'uint16\', records_per_chunk=False)", '
                         'tuple(builtins.bool:False, builtins.int:20), builtins.int:2, '
                         'tuple(builtins.int:7, builtins.int:20), '
                         'list(tuple(numpy.int64(np.int64(10)), numpy.int64(np.int64(50))), '
                         'tuple(numpy.int64(np.int64(50)), numpy.int64(np.int64(90))), '
                         'tuple(numpy.int64(np.int64(90)), numpy.int64(np.int64(130))), '
                         'tuple(numpy.int64(np.int64(130)), numpy.int64(np.int64(170))), '
                         'tuple(numpy.int64(np.int64(170)), numpy.int64(np.int64(210))), '
                         'tuple(numpy.int64(np.int64(210)), numpy.int64(np.int64(250))), '
                         'tuple(numpy.int64(np.int64(250)), numpy.int64(np.int64(290)))))',
 'np-ranges|int64:np.int64(3)': 'list(numpy.int64(np.int64(3)), dict{builtins.int:0: '
                                "dict{builtins.str:'offset': numpy.int64(np.int64(10)), "
                                "builtins.str:'size': numpy.int64(np.int64(120))}, builtins.int:1: "
                                "dict{builtins.str:'offset': numpy.int64(np.int64(130)), "
                                "builtins.str:'size': numpy.int64(np.int64(120))}, builtins.int:2: "
                                "dict{builtins.str:'offset': numpy.int64(np.int64(250)), "
                                "builtins.str:'size': numpy.int64(np.int64(40))}}, "
                                'builtins.str:"Array(url=\'image\', shape=(7, 20), '
                                'dtype=\'uint16\', records_per_chunk=np.int64(3))", '
                                'tuple(numpy.int64(np.int64(3)), builtins.int:20), builtins.int:2, '
                                'tuple(builtins.int:7, builtins.int:20), '
                                'list(tuple(numpy.int64(np.int64(10)), numpy.int64(np.int64(50))), '
                                'tuple(numpy.int64(np.int64(50)), numpy.int64(np.int64(90))), '
                                'tuple(numpy.int64(np.int64(90)), numpy.int64(np.int64(130))), '
                                'tuple(numpy.int64(np.int64(130)), numpy.int64(np.int64(170))), '
                                'tuple(numpy.int64(np.int64(170)), numpy.int64(np.int64(210))), '
                                'tuple(numpy.int64(np.int64(210)), numpy.int64(np.int64(250))), '
                                'tuple(numpy.int64(np.int64(250)), numpy.int64(np.int64(290)))))',
 'np-ranges|int64:np.int64(-1)': 'list(builtins.int:7, dict{builtins.int:0: '
                                 "dict{builtins.str:'offset': numpy.int64(np.int64(10)), "
                                 "builtins.str:'size': numpy.int64(np.int64(280))}}, "
                                 'builtins.str:"Array(url=\'image\', shape=(7, 20), '
                                 'dtype=\'uint16\', records_per_chunk=7)", tuple(builtins.int:7, '
                                 'builtins.int:20), builtins.int:2, tuple(builtins.int:7, '
                                 'builtins.int:20), list(tuple(numpy.int64(np.int64(10)), '
                                 'numpy.int64(np.int64(50))), tuple(numpy.int64(np.int64(50)), '
                                 'numpy.int64(np.int64(90))), tuple(numpy.int64(np.int64(90)), '
                                 'numpy.int64(np.int64(130))), tuple(numpy.int64(np.int64(130)), '
                                 'numpy.int64(np.int64(170))), tuple(numpy.int64(np.int64(170)), '
                                 'numpy.int64(np.int64(210))), tuple(numpy.int64(np.int64(210)), '
                                 'numpy.int64(np.int64(250))), tuple(numpy.int64(np.int64(250)), '
                                 'numpy.int64(np.int64(290)))))',
 'np-ranges|int64:np.int64(1000000)': 'list(builtins.int:7, dict{builtins.int:0: '
                                      "dict{builtins.str:'offset': numpy.int64(np.int64(10)), "
                                      "builtins.str:'size': numpy.int64(np.int64(280))}}, "
                                      'builtins.str:"Array(url=\'image\', shape=(7, 20), '
                                      'dtype=\'uint16\', records_per_chunk=7)", '
                                      'tuple(builtins.int:7, builtins.int:20), builtins.int:2, '
                                      'tuple(builtins.int:7, builtins.int:20), '
                                      'list(tuple(numpy.int64(np.int64(10)), '
                                      'numpy.int64(np.int64(50))), '
                                      'tuple(numpy.int64(np.int64(50)), '
                                      'numpy.int64(np.int64(90))), '
                                      'tuple(numpy.int64(np.int64(90)), '
                                      'numpy.int64(np.int64(130))), '
                                      'tuple(numpy.int64(np.int64(130)), '
                                      'numpy.int64(np.int64(170))), '
                                      'tuple(numpy.int64(np.int64(170)), '
                                      'numpy.int64(np.int64(210))), '
                                      'tuple(numpy.int64(np.int64(210)), '
                                      'numpy.int64(np.int64(250))), '
                                      'tuple(numpy.int64(np.int64(250)), '
                                      'numpy.int64(np.int64(290)))))',
 'np-ranges|float:2.0': "raise builtins.TypeError: can't multiply sequence by non-int of type "
                        "'float'",
 'np-ranges|float:2.5': "raise builtins.TypeError: can't multiply sequence by non-int of type "
                        "'float'",
 'np-ranges|float:-1.0': "list(builtins.int:7, dict{builtins.int:0: dict{builtins.str:'offset': "
                         "numpy.int64(np.int64(10)), builtins.str:'size': "
                         'numpy.int64(np.int64(280))}}, builtins.str:"Array(url=\'image\', '
                         'shape=(7, 20), dtype=\'uint16\', records_per_chunk=7)", '
                         'tuple(builtins.int:7, builtins.int:20), builtins.int:2, '
                         'tuple(builtins.int:7, builtins.int:20), '
                         'list(tuple(numpy.int64(np.int64(10)), numpy.int64(np.int64(50))), '
                         'tuple(numpy.int64(np.int64(50)), numpy.int64(np.int64(90))), '
                         'tuple(numpy.int64(np.int64(90)), numpy.int64(np.int64(130))), '
                         'tuple(numpy.int64(np.int64(130)), numpy.int64(np.int64(170))), '
                         'tuple(numpy.int64(np.int64(170)), numpy.int64(np.int64(210))), '
                         'tuple(numpy.int64(np.int64(210)), numpy.int64(np.int64(250))), '
                         'tuple(numpy.int64(np.int64(250)), numpy.int64(np.int64(290)))))',
 'np-ranges|float:nan': "raise builtins.TypeError: can't multiply sequence by non-int of type "
                        "'float'",
 'np-ranges|float:inf': "list(builtins.int:7, dict{builtins.int:0: dict{builtins.str:'offset': "
                        "numpy.int64(np.int64(10)), builtins.str:'size': "
                        'numpy.int64(np.int64(280))}}, builtins.str:"Array(url=\'image\', '
                        'shape=(7, 20), dtype=\'uint16\', records_per_chunk=7)", '
                        'tuple(builtins.int:7, builtins.int:20), builtins.int:2, '
                        'tuple(builtins.int:7, builtins.int:20), '
                        'list(tuple(numpy.int64(np.int64(10)), numpy.int64(np.int64(50))), '
                        'tuple(numpy.int64(np.int64(50)), numpy.int64(np.int64(90))), '
                        'tuple(numpy.int64(np.int64(90)), numpy.int64(np.int64(130))), '
                        'tuple(numpy.int64(np.int64(130)), numpy.int64(np.int64(170))), '
                        'tuple(numpy.int64(np.int64(170)), numpy.int64(np.int64(210))), '
                        'tuple(numpy.int64(np.int64(210)), numpy.int64(np.int64(250))), '
                        'tuple(numpy.int64(np.int64(250)), numpy.int64(np.int64(290)))))',
 "np-ranges|bytes:b'auto'": "raise builtins.TypeError: '>' not supported between instances of "
                            "'bytes' and 'int'",
 'np-ranges|list:[2]': "raise builtins.TypeError: '>' not supported between instances of 'list' "
                       "and 'int'",
 'np-ranges|tuple:(2,)': "raise builtins.TypeError: '>' not supported between instances of 'tuple' "
                         "and 'int'",
 'np-ranges|dict:{}': "raise builtins.TypeError: '>' not supported between instances of 'dict' and "
                      "'int'",
 'np-ranges|complex:(1+0j)': "raise builtins.TypeError: '>' not supported between instances of "
                             "'complex' and 'int'",
 "array-ranges|str:'<omitted>'": 'list(builtins.int:1024, dict{builtins.int:0: '
                                 "dict{builtins.str:'offset': numpy.int64(np.int64(10)), "
                                 "builtins.str:'size': numpy.int64(np.int64(280))}}, "
                                 'builtins.str:"Array(url=\'image\', shape=(7, 20), '
                                 'dtype=\'uint16\', records_per_chunk=1024)", '
                                 'tuple(builtins.int:1024, builtins.int:20), builtins.int:2, '
                                 'tuple(builtins.int:7, builtins.int:20), ndarray[<i8|(7, '
                                 '2)|0a00000000000000320000000000000032000000000000005a000000000000005a0000000000000082000000000000008200000000000000aa00000000000000aa00000000000000d200000000000000d200000000000000fa00000000000000fa000000000000002201000000000000])',
 'array-ranges|NoneType:None': 'list(builtins.int:1024, dict{builtins.int:0: '
                               "dict{builtins.str:'offset': numpy.int64(np.int64(10)), "
                               "builtins.str:'size': numpy.int64(np.int64(280))}}, "
                               'builtins.str:"Array(url=\'image\', shape=(7, 20), '
                               'dtype=\'uint16\', records_per_chunk=1024)", '
                               'tuple(builtins.int:1024, builtins.int:20), builtins.int:2, '
                               'tuple(builtins.int:7, builtins.int:20), ndarray[<i8|(7, '
                               '2)|0a00000000000000320000000000000032000000000000005a000000000000005a0000000000000082000000000000008200000000000000aa00000000000000aa00000000000000d200000000000000d200000000000000fa00000000000000fa000000000000002201000000000000])',
 "array-ranges|str:'auto'": 'list(numpy.int64(np.int64(7)), dict{builtins.int:0: '
                            "dict{builtins.str:'offset': numpy.int64(np.int64(10)), "
                            "builtins.str:'size': numpy.int64(np.int64(280))}}, "
                            'builtins.str:"Array(url=\'image\', shape=(7, 20), dtype=\'uint16\', '
                            'records_per_chunk=np.int64(7))", tuple(numpy.int64(np.int64(7)), '
                            'builtins.int:20), builtins.int:2, tuple(builtins.int:7, '
                            'builtins.int:20), ndarray[<i8|(7, '
                            '2)|0a00000000000000320000000000000032000000000000005a000000000000005a0000000000000082000000000000008200000000000000aa00000000000000aa00000000000000d200000000000000d200000000000000fa00000000000000fa000000000000002201000000000000])',
 "array-ranges|str:'80B'": 'list(numpy.int64(np.int64(2)), dict{builtins.int:0: '
                           "dict{builtins.str:'offset': numpy.int64(np.int64(10)), "
                           "builtins.str:'size': numpy.int64(np.int64(80))}, builtins.int:1: "
                           "dict{builtins.str:'offset': numpy.int64(np.int64(90)), "
                           "builtins.str:'size': numpy.int64(np.int64(80))}, builtins.int:2: "
                           "dict{builtins.str:'offset': numpy.int64(np.int64(170)), "
                           "builtins.str:'size': numpy.int64(np.int64(80))}, builtins.int:3: "
                           "dict{builtins.str:'offset': numpy.int64(np.int64(250)), "
                           "builtins.str:'size': numpy.int64(np.int64(40))}}, "
                           'builtins.str:"Array(url=\'image\', shape=(7, 20), dtype=\'uint16\', '
                           'records_per_chunk=np.int64(2))", tuple(numpy.int64(np.int64(2)), '
                           'builtins.int:20), builtins.int:2, tuple(builtins.int:7, '
                           'builtins.int:20), ndarray[<i8|(7, '
                           '2)|0a00000000000000320000000000000032000000000000005a000000000000005a0000000000000082000000000000008200000000000000aa00000000000000aa00000000000000d200000000000000d200000000000000fa00000000000000fa000000000000002201000000000000])',
 "array-ranges|str:'81B'": 'list(numpy.int64(np.int64(2)), dict{builtins.int:0: '
                           "dict{builtins.str:'offset': numpy.int64(np.int64(10)), "
                           "builtins.str:'size': numpy.int64(np.int64(80))}, builtins.int:1: "
                           "dict{builtins.str:'offset': numpy.int64(np.int64(90)), "
                           "builtins.str:'size': numpy.int64(np.int64(80))}, builtins.int:2: "
                           "dict{builtins.str:'offset': numpy.int64(np.int64(170)), "
                           "builtins.str:'size': numpy.int64(np.int64(80))}, builtins.int:3: "
                           "dict{builtins.str:'offset': numpy.int64(np.int64(250)), "
                           "builtins.str:'size': numpy.int64(np.int64(40))}}, "
                           'builtins.str:"Array(url=\'image\', shape=(7, 20), dtype=\'uint16\', '
                           'records_per_chunk=np.int64(2))", tuple(numpy.int64(np.int64(2)), '
                           'builtins.int:20), builtins.int:2, tuple(builtins.int:7, '
                           'builtins.int:20), ndarray[<i8|(7, '
                           '2)|0a00000000000000320000000000000032000000000000005a000000000000005a0000000000000082000000000000008200000000000000aa00000000000000aa00000000000000d200000000000000d200000000000000fa00000000000000fa000000000000002201000000000000])',
 "array-ranges|str:'100B'": 'list(numpy.int64(np.int64(2)), dict{builtins.int:0: '
                            "dict{builtins.str:'offset': numpy.int64(np.int64(10)), "
                            "builtins.str:'size': numpy.int64(np.int64(80))}, builtins.int:1: "
                            "dict{builtins.str:'offset': numpy.int64(np.int64(90)), "
                            "builtins.str:'size': numpy.int64(np.int64(80))}, builtins.int:2: "
                            "dict{builtins.str:'offset': numpy.int64(np.int64(170)), "
                            "builtins.str:'size': numpy.int64(np.int64(80))}, builtins.int:3: "
                            "dict{builtins.str:'offset': numpy.int64(np.int64(250)), "
                            "builtins.str:'size': numpy.int64(np.int64(40))}}, "
                            'builtins.str:"Array(url=\'image\', shape=(7, 20), dtype=\'uint16\', '
                            'records_per_chunk=np.int64(2))", tuple(numpy.int64(np.int64(2)), '
                            'builtins.int:20), builtins.int:2, tuple(builtins.int:7, '
                            'builtins.int:20), ndarray[<i8|(7, '
                            '2)|0a00000000000000320000000000000032000000000000005a000000000000005a0000000000000082000000000000008200000000000000aa00000000000000aa00000000000000d200000000000000d200000000000000fa00000000000000fa000000000000002201000000000000])',
 "array-ranges|str:'119B'": 'list(numpy.int64(np.int64(3)), dict{builtins.int:0: '
                            "dict{builtins.str:'offset': numpy.int64(np.int64(10)), "
                            "builtins.str:'size': numpy.int64(np.int64(120))}, builtins.int:1: "
                            "dict{builtins.str:'offset': numpy.int64(np.int64(130)), "
                            "builtins.str:'size': numpy.int64(np.int64(120))}, builtins.int:2: "
                            "dict{builtins.str:'offset': numpy.int64(np.int64(250)), "
                            "builtins.str:'size': numpy.int64(np.int64(40))}}, "
                            'builtins.str:"Array(url=\'image\', shape=(7, 20), dtype=\'uint16\', '
                            'records_per_chunk=np.int64(3))", tuple(numpy.int64(np.int64(3)), '
                            'builtins.int:20), builtins.int:2, tuple(builtins.int:7, '
                            'builtins.int:20), ndarray[<i8|(7, '
                            '2)|0a00000000000000320000000000000032000000000000005a000000000000005a0000000000000082000000000000008200000000000000aa00000000000000aa00000000000000d200000000000000d200000000000000fa00000000000000fa000000000000002201000000000000])',
 "array-ranges|str:'120B'": 'list(numpy.int64(np.int64(3)), dict{builtins.int:0: '
                            "dict{builtins.str:'offset': numpy.int64(np.int64(10)), "
                            "builtins.str:'size': numpy.int64(np.int64(120))}, builtins.int:1: "
                            "dict{builtins.str:'offset': numpy.int64(np.int64(130)), "
                            "builtins.str:'size': numpy.int64(np.int64(120))}, builtins.int:2: "
                            "dict{builtins.str:'offset': numpy.int64(np.int64(250)), "
                            "builtins.str:'size': numpy.int64(np.int64(40))}}, "
                            'builtins.str:"Array(url=\'image\', shape=(7, 20), dtype=\'uint16\', '
                            'records_per_chunk=np.int64(3))", tuple(numpy.int64(np.int64(3)), '
                            'builtins.int:20), builtins.int:2, tuple(builtins.int:7, '
                            'builtins.int:20), ndarray[<i8|(7, '
                            '2)|0a00000000000000320000000000000032000000000000005a000000000000005a0000000000000082000000000000008200000000000000aa00000000000000aa00000000000000d200000000000000d200000000000000fa00000000000000fa000000000000002201000000000000])',
 "array-ranges|str:'121B'": 'list(numpy.int64(np.int64(3)), dict{builtins.int:0: '
                            "dict{builtins.str:'offset': numpy.int64(np.int64(10)), "
                            "builtins.str:'size': numpy.int64(np.int64(120))}, builtins.int:1: "
                            "dict{builtins.str:'offset': numpy.int64(np.int64(130)), "
                            "builtins.str:'size': numpy.int64(np.int64(120))}, builtins.int:2: "
                            "dict{builtins.str:'offset': numpy.int64(np.int64(250)), "
                            "builtins.str:'size': numpy.int64(np.int64(40))}}, "
                            'builtins.str:"Array(url=\'image\', shape=(7, 20), dtype=\'uint16\', '
                            'records_per_chunk=np.int64(3))", tuple(numpy.int64(np.int64(3)), '
                            'builtins.int:20), builtins.int:2, tuple(builtins.int:7, '
                            'builtins.int:20), ndarray[<i8|(7, '
                            '2)|0a00000000000000320000000000000032000000000000005a000000000000005a0000000000000082000000000000008200000000000000aa00000000000000aa00000000000000d200000000000000d200000000000000fa00000000000000fa000000000000002201000000000000])',
 "array-ranges|str:'0B'": 'list(numpy.int64(np.int64(1)), dict{builtins.int:0: '
                          "dict{builtins.str:'offset': numpy.int64(np.int64(10)), "
                          "builtins.str:'size': numpy.int64(np.int64(40))}, builtins.int:1: "
                          "dict{builtins.str:'offset': numpy.int64(np.int64(50)), "
                          "builtins.str:'size': numpy.int64(np.int64(40))}, builtins.int:2: "
                          "dict{builtins.str:'offset': numpy.int64(np.int64(90)), "
                          "builtins.str:'size': numpy.int64(np.int64(40))}, builtins.int:3: "
                          "dict{builtins.str:'offset': numpy.int64(np.int64(130)), "
                          "builtins.str:'size': numpy.int64(np.int64(40))}, builtins.int:4: "
                          "dict{builtins.str:'offset': numpy.int64(np.int64(170)), "
                          "builtins.str:'size': numpy.int64(np.int64(40))}, builtins.int:5: "
                          "dict{builtins.str:'offset': numpy.int64(np.int64(210)), "
                          "builtins.str:'size': numpy.int64(np.int64(40))}, builtins.int:6: "
                          "dict{builtins.str:'offset': numpy.int64(np.int64(250)), "
                          "builtins.str:'size': numpy.int64(np.int64(40))}}, "
                          'builtins.str:"Array(url=\'image\', shape=(7, 20), dtype=\'uint16\', '
                          'records_per_chunk=np.int64(1))", tuple(numpy.int64(np.int64(1)), '
                          'builtins.int:20), builtins.int:2, tuple(builtins.int:7, '
                          'builtins.int:20), ndarray[<i8|(7, '
                          '2)|0a00000000000000320000000000000032000000000000005a000000000000005a0000000000000082000000000000008200000000000000aa00000000000000aa00000000000000d200000000000000d200000000000000fa00000000000000fa000000000000002201000000000000])',
 "array-ranges|str:'1kB'": 'list(numpy.int64(np.int64(7)), dict{builtins.int:0: '
                           "dict{builtins.str:'offset': numpy.int64(np.int64(10)), "
                           "builtins.str:'size': numpy.int64(np.int64(280))}}, "
                           'builtins.str:"Array(url=\'image\', shape=(7, 20), dtype=\'uint16\', '
                           'records_per_chunk=np.int64(7))", tuple(numpy.int64(np.int64(7)), '
                           'builtins.int:20), builtins.int:2, tuple(builtins.int:7, '
                           'builtins.int:20), ndarray[<i8|(7, '
                           '2)|0a00000000000000320000000000000032000000000000005a000000000000005a0000000000000082000000000000008200000000000000aa00000000000000aa00000000000000d200000000000000d200000000000000fa00000000000000fa000000000000002201000000000000])',
 "array-ranges|str:'1kiB'": 'list(numpy.int64(np.int64(7)), dict{builtins.int:0: '
                            "dict{builtins.str:'offset': numpy.int64(np.int64(10)), "
                            "builtins.str:'size': numpy.int64(np.int64(280))}}, "
                            'builtins.str:"Array(url=\'image\', shape=(7, 20), dtype=\'uint16\', '
                            'records_per_chunk=np.int64(7))", tuple(numpy.int64(np.int64(7)), '
                            'builtins.int:20), builtins.int:2, tuple(builtins.int:7, '
                            'builtins.int:20), ndarray[<i8|(7, '
                            '2)|0a00000000000000320000000000000032000000000000005a000000000000005a0000000000000082000000000000008200000000000000aa00000000000000aa00000000000000d200000000000000d200000000000000fa00000000000000fa000000000000002201000000000000])',
 "array-ranges|str:'1 MiB'": 'list(numpy.int64(np.int64(7)), dict{builtins.int:0: '
                             "dict{builtins.str:'offset': numpy.int64(np.int64(10)), "
                             "builtins.str:'size': numpy.int64(np.int64(280))}}, "
                             'builtins.str:"Array(url=\'image\', shape=(7, 20), dtype=\'uint16\', '
                             'records_per_chunk=np.int64(7))", tuple(numpy.int64(np.int64(7)), '
                             'builtins.int:20), builtins.int:2, tuple(builtins.int:7, '
                             'builtins.int:20), ndarray[<i8|(7, '
                             '2)|0a00000000000000320000000000000032000000000000005a000000000000005a0000000000000082000000000000008200000000000000aa00000000000000aa00000000000000d200000000000000d200000000000000fa00000000000000fa000000000000002201000000000000])',
 "array-ranges|str:'95MiB'": 'list(numpy.int64(np.int64(7)), dict{builtins.int:0: '
                             "dict{builtins.str:'offset': numpy.int64(np.int64(10)), "
                             "builtins.str:'size': numpy.int64(np.int64(280))}}, "
                             'builtins.str:"Array(url=\'image\', shape=(7, 20), dtype=\'uint16\', '
                             'records_per_chunk=np.int64(7))", tuple(numpy.int64(np.int64(7)), '
                             'builtins.int:20), builtins.int:2, tuple(builtins.int:7, '
                             'builtins.int:20), ndarray[<i8|(7, '
                             '2)|0a00000000000000320000000000000032000000000000005a000000000000005a0000000000000082000000000000008200000000000000aa00000000000000aa00000000000000d200000000000000d200000000000000fa00000000000000fa000000000000002201000000000000])',
 "array-ranges|str:'0.1 GB'": 'list(numpy.int64(np.int64(7)), dict{builtins.int:0: '
                              "dict{builtins.str:'offset': numpy.int64(np.int64(10)), "
                              "builtins.str:'size': numpy.int64(np.int64(280))}}, "
                              'builtins.str:"Array(url=\'image\', shape=(7, 20), dtype=\'uint16\', '
                              'records_per_chunk=np.int64(7))", tuple(numpy.int64(np.int64(7)), '
                              'builtins.int:20), builtins.int:2, tuple(builtins.int:7, '
                              'builtins.int:20), ndarray[<i8|(7, '
                              '2)|0a00000000000000320000000000000032000000000000005a000000000000005a0000000000000082000000000000008200000000000000aa00000000000000aa00000000000000d200000000000000d200000000000000fa00000000000000fa000000000000002201000000000000])',
 "array-ranges|str:'100'": 'list(numpy.int64(np.int64(2)), dict{builtins.int:0: '
                           "dict{builtins.str:'offset': numpy.int64(np.int64(10)), "
                           "builtins.str:'size': numpy.int64(np.int64(80))}, builtins.int:1: "
                           "dict{builtins.str:'offset': numpy.int64(np.int64(90)), "
                           "builtins.str:'size': numpy.int64(np.int64(80))}, builtins.int:2: "
                           "dict{builtins.str:'offset': numpy.int64(np.int64(170)), "
                           "builtins.str:'size': numpy.int64(np.int64(80))}, builtins.int:3: "
                           "dict{builtins.str:'offset': numpy.int64(np.int64(250)), "
                           "builtins.str:'size': numpy.int64(np.int64(40))}}, "
                           'builtins.str:"Array(url=\'image\', shape=(7, 20), dtype=\'uint16\', '
                           'records_per_chunk=np.int64(2))", tuple(numpy.int64(np.int64(2)), '
                           'builtins.int:20), builtins.int:2, tuple(builtins.int:7, '
                           'builtins.int:20), ndarray[<i8|(7, '
                           '2)|0a00000000000000320000000000000032000000000000005a000000000000005a0000000000000082000000000000008200000000000000aa00000000000000aa00000000000000d200000000000000d200000000000000fa00000000000000fa000000000000002201000000000000])',
 "array-ranges|str:'1e2'": 'list(numpy.int64(np.int64(2)), dict{builtins.int:0: '
                           "dict{builtins.str:'offset': numpy.int64(np.int64(10)), "
                           "builtins.str:'size': numpy.int64(np.int64(80))}, builtins.int:1: "
                           "dict{builtins.str:'offset': numpy.int64(np.int64(90)), "
                           "builtins.str:'size': numpy.int64(np.int64(80))}, builtins.int:2: "
                           "dict{builtins.str:'offset': numpy.int64(np.int64(170)), "
                           "builtins.str:'size': numpy.int64(np.int64(80))}, builtins.int:3: "
                           "dict{builtins.str:'offset': numpy.int64(np.int64(250)), "
                           "builtins.str:'size': numpy.int64(np.int64(40))}}, "
                           'builtins.str:"Array(url=\'image\', shape=(7, 20), dtype=\'uint16\', '
                           'records_per_chunk=np.int64(2))", tuple(numpy.int64(np.int64(2)), '
                           'builtins.int:20), builtins.int:2, tuple(builtins.int:7, '
                           'builtins.int:20), ndarray[<i8|(7, '
                           '2)|0a00000000000000320000000000000032000000000000005a000000000000005a0000000000000082000000000000008200000000000000aa00000000000000aa00000000000000d200000000000000d200000000000000fa00000000000000fa000000000000002201000000000000])',
 "array-ranges|str:'kB'": 'list(numpy.int64(np.int64(7)), dict{builtins.int:0: '
                          "dict{builtins.str:'offset': numpy.int64(np.int64(10)), "
                          "builtins.str:'size': numpy.int64(np.int64(280))}}, "
                          'builtins.str:"Array(url=\'image\', shape=(7, 20), dtype=\'uint16\', '
                          'records_per_chunk=np.int64(7))", tuple(numpy.int64(np.int64(7)), '
                          'builtins.int:20), builtins.int:2, tuple(builtins.int:7, '
                          'builtins.int:20), ndarray[<i8|(7, '
                          '2)|0a00000000000000320000000000000032000000000000005a000000000000005a0000000000000082000000000000008200000000000000aa00000000000000aa00000000000000d200000000000000d200000000000000fa00000000000000fa000000000000002201000000000000])',
 "array-ranges|str:''": 'list(numpy.int64(np.int64(1)), dict{builtins.int:0: '
                        "dict{builtins.str:'offset': numpy.int64(np.int64(10)), "
                        "builtins.str:'size': numpy.int64(np.int64(40))}, builtins.int:1: "
                        "dict{builtins.str:'offset': numpy.int64(np.int64(50)), "
                        "builtins.str:'size': numpy.int64(np.int64(40))}, builtins.int:2: "
                        "dict{builtins.str:'offset': numpy.int64(np.int64(90)), "
                        "builtins.str:'size': numpy.int64(np.int64(40))}, builtins.int:3: "
                        "dict{builtins.str:'offset': numpy.int64(np.int64(130)), "
                        "builtins.str:'size': numpy.int64(np.int64(40))}, builtins.int:4: "
                        "dict{builtins.str:'offset': numpy.int64(np.int64(170)), "
                        "builtins.str:'size': numpy.int64(np.int64(40))}, builtins.int:5: "
                        "dict{builtins.str:'offset': numpy.int64(np.int64(210)), "
                        "builtins.str:'size': numpy.int64(np.int64(40))}, builtins.int:6: "
                        "dict{builtins.str:'offset': numpy.int64(np.int64(250)), "
                        "builtins.str:'size': numpy.int64(np.int64(40))}}, "
                        'builtins.str:"Array(url=\'image\', shape=(7, 20), dtype=\'uint16\', '
                        'records_per_chunk=np.int64(1))", tuple(numpy.int64(np.int64(1)), '
                        'builtins.int:20), builtins.int:2, tuple(builtins.int:7, builtins.int:20), '
                        'ndarray[<i8|(7, '
                        '2)|0a00000000000000320000000000000032000000000000005a000000000000005a0000000000000082000000000000008200000000000000aa00000000000000aa00000000000000d200000000000000d200000000000000fa00000000000000fa000000000000002201000000000000])',
 "array-ranges|str:'5 foos'": "raise builtins.ValueError: Could not interpret 'foos' as a byte "
                              'unit',
 "array-ranges|str:'abc'": "raise builtins.ValueError: Could not interpret 'abc' as a byte unit",
 "array-ranges|str:'AUTO'": "raise builtins.ValueError: Could not interpret 'AUTO' as a byte unit",
 "array-ranges|str:' auto'": "raise builtins.ValueError: Could not interpret 'auto' as a byte unit",
 "array-ranges|Text:'auto'": 'list(numpy.int64(np.int64(7)), dict{builtins.int:0: '
                             "dict{builtins.str:'offset': numpy.int64(np.int64(10)), "
                             "builtins.str:'size': numpy.int64(np.int64(280))}}, "
                             'builtins.str:"Array(url=\'image\', shape=(7, 20), dtype=\'uint16\', '
                             'records_per_chunk=np.int64(7))", tuple(numpy.int64(np.int64(7)), '
                             'builtins.int:20), builtins.int:2, tuple(builtins.int:7, '
                             'builtins.int:20), ndarray[<i8|(7, '
                             '2)|0a00000000000000320000000000000032000000000000005a000000000000005a0000000000000082000000000000008200000000000000aa00000000000000aa00000000000000d200000000000000d200000000000000fa00000000000000fa000000000000002201000000000000])',
 "array-ranges|Text:'160B'": 'list(numpy.int64(np.int64(4)), dict{builtins.int:0: '
                             "dict{builtins.str:'offset': numpy.int64(np.int64(10)), "
                             "builtins.str:'size': numpy.int64(np.int64(160))}, builtins.int:1: "
                             "dict{builtins.str:'offset': numpy.int64(np.int64(170)), "
                             "builtins.str:'size': numpy.int64(np.int64(120))}}, "
                             'builtins.str:"Array(url=\'image\', shape=(7, 20), dtype=\'uint16\', '
                             'records_per_chunk=np.int64(4))", tuple(numpy.int64(np.int64(4)), '
                             'builtins.int:20), builtins.int:2, tuple(builtins.int:7, '
                             'builtins.int:20), ndarray[<i8|(7, '
                             '2)|0a00000000000000320000000000000032000000000000005a000000000000005a0000000000000082000000000000008200000000000000aa00000000000000aa00000000000000d200000000000000d200000000000000fa00000000000000fa000000000000002201000000000000])',
 'array-ranges|int:-1': "list(builtins.int:7, dict{builtins.int:0: dict{builtins.str:'offset': "
                        "numpy.int64(np.int64(10)), builtins.str:'size': "
                        'numpy.int64(np.int64(280))}}, builtins.str:"Array(url=\'image\', '
                        'shape=(7, 20), dtype=\'uint16\', records_per_chunk=7)", '
                        'tuple(builtins.int:7, builtins.int:20), builtins.int:2, '
                        'tuple(builtins.int:7, builtins.int:20), ndarray[<i8|(7, '
                        '2)|0a00000000000000320000000000000032000000000000005a000000000000005a0000000000000082000000000000008200000000000000aa00000000000000aa00000000000000d200000000000000d200000000000000fa00000000000000fa000000000000002201000000000000])',
 'array-ranges|int:0': 'list(builtins.int:0, dict{}, builtins.str:"Array(url=\'image\', shape=(7, '
                       '20), dtype=\'uint16\', records_per_chunk=0)", tuple(builtins.int:0, '
                       'builtins.int:20), builtins.int:2, tuple(builtins.int:7, builtins.int:20), '
                       'ndarray[<i8|(7, '
                       '2)|0a00000000000000320000000000000032000000000000005a000000000000005a0000000000000082000000000000008200000000000000aa00000000000000aa00000000000000d200000000000000d200000000000000fa00000000000000fa000000000000002201000000000000])',
 'array-ranges|int:1': "list(builtins.int:1, dict{builtins.int:0: dict{builtins.str:'offset': "
                       "numpy.int64(np.int64(10)), builtins.str:'size': "
                       "numpy.int64(np.int64(40))}, builtins.int:1: dict{builtins.str:'offset': "
                       "numpy.int64(np.int64(50)), builtins.str:'size': "
                       "numpy.int64(np.int64(40))}, builtins.int:2: dict{builtins.str:'offset': "
                       "numpy.int64(np.int64(90)), builtins.str:'size': "
                       "numpy.int64(np.int64(40))}, builtins.int:3: dict{builtins.str:'offset': "
                       "numpy.int64(np.int64(130)), builtins.str:'size': "
                       "numpy.int64(np.int64(40))}, builtins.int:4: dict{builtins.str:'offset': "
                       "numpy.int64(np.int64(170)), builtins.str:'size': "
                       "numpy.int64(np.int64(40))}, builtins.int:5: dict{builtins.str:'offset': "
                       "numpy.int64(np.int64(210)), builtins.str:'size': "
                       "numpy.int64(np.int64(40))}, builtins.int:6: dict{builtins.str:'offset': "
                       "numpy.int64(np.int64(250)), builtins.str:'size': "
                       'numpy.int64(np.int64(40))}}, builtins.str:"Array(url=\'image\', shape=(7, '
                       '20), dtype=\'uint16\', records_per_chunk=1)", tuple(builtins.int:1, '
                       'builtins.int:20), builtins.int:2, tuple(builtins.int:7, builtins.int:20), '
                       'ndarray[<i8|(7, '
                       '2)|0a00000000000000320000000000000032000000000000005a000000000000005a0000000000000082000000000000008200000000000000aa00000000000000aa00000000000000d200000000000000d200000000000000fa00000000000000fa000000000000002201000000000000])',
 'array-ranges|int:2': "list(builtins.int:2, dict{builtins.int:0: dict{builtins.str:'offset': "
                       "numpy.int64(np.int64(10)), builtins.str:'size': "
                       "numpy.int64(np.int64(80))}, builtins.int:1: dict{builtins.str:'offset': "
                       "numpy.int64(np.int64(90)), builtins.str:'size': "
                       "numpy.int64(np.int64(80))}, builtins.int:2: dict{builtins.str:'offset': "
                       "numpy.int64(np.int64(170)), builtins.str:'size': "
                       "numpy.int64(np.int64(80))}, builtins.int:3: dict{builtins.str:'offset': "
                       "numpy.int64(np.int64(250)), builtins.str:'size': "
                       'numpy.int64(np.int64(40))}}, builtins.str:"Array(url=\'image\', shape=(7, '
                       '20), dtype=\'uint16\', records_per_chunk=2)", tuple(builtins.int:2, '
                       'builtins.int:20), builtins.int:2, tuple(builtins.int:7, builtins.int:20), '
                       'ndarray[<i8|(7, '
                       '2)|0a00000000000000320000000000000032000000000000005a000000000000005a0000000000000082000000000000008200000000000000aa00000000000000aa00000000000000d200000000000000d200000000000000fa00000000000000fa000000000000002201000000000000])',
 'array-ranges|int:3': "list(builtins.int:3, dict{builtins.int:0: dict{builtins.str:'offset': "
                       "numpy.int64(np.int64(10)), builtins.str:'size': "
                       "numpy.int64(np.int64(120))}, builtins.int:1: dict{builtins.str:'offset': "
                       "numpy.int64(np.int64(130)), builtins.str:'size': "
                       "numpy.int64(np.int64(120))}, builtins.int:2: dict{builtins.str:'offset': "
                       "numpy.int64(np.int64(250)), builtins.str:'size': "
                       'numpy.int64(np.int64(40))}}, builtins.str:"Array(url=\'image\', shape=(7, '
                       '20), dtype=\'uint16\', records_per_chunk=3)", tuple(builtins.int:3, '
                       'builtins.int:20), builtins.int:2, tuple(builtins.int:7, builtins.int:20), '
                       'ndarray[<i8|(7, '
                       '2)|0a00000000000000320000000000000032000000000000005a000000000000005a0000000000000082000000000000008200000000000000aa00000000000000aa00000000000000d200000000000000d200000000000000fa00000000000000fa000000000000002201000000000000])',
 'array-ranges|int:4': "list(builtins.int:4, dict{builtins.int:0: dict{builtins.str:'offset': "
                       "numpy.int64(np.int64(10)), builtins.str:'size': "
                       "numpy.int64(np.int64(160))}, builtins.int:1: dict{builtins.str:'offset': "
                       "numpy.int64(np.int64(170)), builtins.str:'size': "
                       'numpy.int64(np.int64(120))}}, builtins.str:"Array(url=\'image\', shape=(7, '
                       '20), dtype=\'uint16\', records_per_chunk=4)", tuple(builtins.int:4, '
                       'builtins.int:20), builtins.int:2, tuple(builtins.int:7, builtins.int:20), '
                       'ndarray[<i8|(7, '
                       '2)|0a00000000000000320000000000000032000000000000005a000000000000005a0000000000000082000000000000008200000000000000aa00000000000000aa00000000000000d200000000000000d200000000000000fa00000000000000fa000000000000002201000000000000])',
 'array-ranges|int:5': "list(builtins.int:5, dict{builtins.int:0: dict{builtins.str:'offset': "
                       "numpy.int64(np.int64(10)), builtins.str:'size': "
                       "numpy.int64(np.int64(200))}, builtins.int:1: dict{builtins.str:'offset': "
                       "numpy.int64(np.int64(210)), builtins.str:'size': "
                       'numpy.int64(np.int64(80))}}, builtins.str:"Array(url=\'image\', shape=(7, '
                       '20), dtype=\'uint16\', records_per_chunk=5)", tuple(builtins.int:5, '
                       'builtins.int:20), builtins.int:2, tuple(builtins.int:7, builtins.int:20), '
                       'ndarray[<i8|(7, '
                       '2)|0a00000000000000320000000000000032000000000000005a000000000000005a0000000000000082000000000000008200000000000000aa00000000000000aa00000000000000d200000000000000d200000000000000fa00000000000000fa000000000000002201000000000000])',
 'array-ranges|int:6': "list(builtins.int:6, dict{builtins.int:0: dict{builtins.str:'offset': "
                       "numpy.int64(np.int64(10)), builtins.str:'size': "
                       "numpy.int64(np.int64(240))}, builtins.int:1: dict{builtins.str:'offset': "
                       "numpy.int64(np.int64(250)), builtins.str:'size': "
                       'numpy.int64(np.int64(40))}}, builtins.str:"Array(url=\'image\', shape=(7, '
                       '20), dtype=\'uint16\', records_per_chunk=6)", tuple(builtins.int:6, '
                       'builtins.int:20), builtins.int:2, tuple(builtins.int:7, builtins.int:20), '
                       'ndarray[<i8|(7, '
                       '2)|0a00000000000000320000000000000032000000000000005a000000000000005a0000000000000082000000000000008200000000000000aa00000000000000aa00000000000000d200000000000000d200000000000000fa00000000000000fa000000000000002201000000000000])',
 'array-ranges|int:7': "list(builtins.int:7, dict{builtins.int:0: dict{builtins.str:'offset': "
                       "numpy.int64(np.int64(10)), builtins.str:'size': "
                       'numpy.int64(np.int64(280))}}, builtins.str:"Array(url=\'image\', shape=(7, '
                       '20), dtype=\'uint16\', records_per_chunk=7)", tuple(builtins.int:7, '
                       'builtins.int:20), builtins.int:2, tuple(builtins.int:7, builtins.int:20), '
                       'ndarray[<i8|(7, '
                       '2)|0a00000000000000320000000000000032000000000000005a000000000000005a0000000000000082000000000000008200000000000000aa00000000000000aa00000000000000d200000000000000d200000000000000fa00000000000000fa000000000000002201000000000000])',
 'array-ranges|int:8': "list(builtins.int:7, dict{builtins.int:0: dict{builtins.str:'offset': "
                       "numpy.int64(np.int64(10)), builtins.str:'size': "
                       'numpy.int64(np.int64(280))}}, builtins.str:"Array(url=\'image\', shape=(7, '
                       '20), dtype=\'uint16\', records_per_chunk=7)", tuple(builtins.int:7, '
                       'builtins.int:20), builtins.int:2, tuple(builtins.int:7, builtins.int:20), '
                       'ndarray[<i8|(7, '
                       '2)|0a00000000000000320000000000000032000000000000005a000000000000005a0000000000000082000000000000008200000000000000aa00000000000000aa00000000000000d200000000000000d200000000000000fa00000000000000fa000000000000002201000000000000])',
 'array-ranges|int:1024': "list(builtins.int:7, dict{builtins.int:0: dict{builtins.str:'offset': "
                          "numpy.int64(np.int64(10)), builtins.str:'size': "
                          'numpy.int64(np.int64(280))}}, builtins.str:"Array(url=\'image\', '
                          'shape=(7, 20), dtype=\'uint16\', records_per_chunk=7)", '
                          'tuple(builtins.int:7, builtins.int:20), builtins.int:2, '
                          'tuple(builtins.int:7, builtins.int:20), ndarray[<i8|(7, '
                          '2)|0a00000000000000320000000000000032000000000000005a000000000000005a0000000000000082000000000000008200000000000000aa00000000000000aa00000000000000d200000000000000d200000000000000fa00000000000000fa000000000000002201000000000000])',
 'array-ranges|int:-2': 'list(builtins.int:-2, dict{}, builtins.str:"Array(url=\'image\', '
                        'shape=(7, 20), dtype=\'uint16\', records_per_chunk=-2)", '
                        'tuple(builtins.int:-2, builtins.int:20), builtins.int:2, '
                        'tuple(builtins.int:7, builtins.int:20), ndarray[<i8|(7, '
                        '2)|0a00000000000000320000000000000032000000000000005a000000000000005a0000000000000082000000000000008200000000000000aa00000000000000aa00000000000000d200000000000000d200000000000000fa00000000000000fa000000000000002201000000000000])',
 'array-ranges|bool:True': 'list(builtins.bool:True, dict{builtins.int:0: '
                           "dict{builtins.str:'offset': numpy.int64(np.int64(10)), "
                           "builtins.str:'size': numpy.int64(np.int64(40))}, builtins.int:1: "
                           "dict{builtins.str:'offset': numpy.int64(np.int64(50)), "
                           "builtins.str:'size': numpy.int64(np.int64(40))}, builtins.int:2: "
                           "dict{builtins.str:'offset': numpy.int64(np.int64(90)), "
                           "builtins.str:'size': numpy.int64(np.int64(40))}, builtins.int:3: "
                           "dict{builtins.str:'offset': numpy.int64(np.int64(130)), "
                           "builtins.str:'size': numpy.int64(np.int64(40))}, builtins.int:4: "
                           "dict{builtins.str:'offset': numpy.int64(np.int64(170)), "
                           "builtins.str:'size': numpy.int64(np.int64(40))}, builtins.int:5: "
                           "dict{builtins.str:'offset': numpy.int64(np.int64(210)), "
                           "builtins.str:'size': numpy.int64(np.int64(40))}, builtins.int:6: "
                           "dict{builtins.str:'offset': numpy.int64(np.int64(250)), "
                           "builtins.str:'size': numpy.int64(np.int64(40))}}, "
                           'builtins.str:"Array(url=\'image\', shape=(7, 20), dtype=\'uint16\', '
                           'records_per_chunk=True)", tuple(builtins.bool:True, builtins.int:20), '
                           'builtins.int:2, tuple(builtins.int:7, builtins.int:20), '
                           'ndarray[<i8|(7, '
                           '2)|0a00000000000000320000000000000032000000000000005a000000000000005a0000000000000082000000000000008200000000000000aa00000000000000aa00000000000000d200000000000000d200000000000000fa00000000000000fa000000000000002201000000000000])',
 'array-ranges|bool:False': 'list(builtins.bool:False, dict{}, builtins.str:"Array(url=\'image\', '
                            'shape=(7, 20), dtype=\'uint16\', records_per_chunk=False)", '
                            'tuple(builtins.bool:False, builtins.int:20), builtins.int:2, '
                            'tuple(builtins.int:7, builtins.int:20), ndarray[<i8|(7, '
                            '2)|0a00000000000000320000000000000032000000000000005a000000000000005a0000000000000082000000000000008200000000000000aa00000000000000aa00000000000000d200000000000000d200000000000000fa00000000000000fa000000000000002201000000000000])',
 'array-ranges|int64:np.int64(3)': 'list(numpy.int64(np.int64(3)), dict{builtins.int:0: '
                                   "dict{builtins.str:'offset': numpy.int64(np.int64(10)), "
                                   "builtins.str:'size': numpy.int64(np.int64(120))}, "
                                   "builtins.int:1: dict{builtins.str:'offset': "
                                   "numpy.int64(np.int64(130)), builtins.str:'size': "
                                   'numpy.int64(np.int64(120))}, builtins.int:2: '
                                   "dict{builtins.str:'offset': numpy.int64(np.int64(250)), "
                                   "builtins.str:'size': numpy.int64(np.int64(40))}}, "
                                   'builtins.str:"Array(url=\'image\', shape=(7, 20), '
                                   'dtype=\'uint16\', records_per_chunk=np.int64(3))", '
                                   'tuple(numpy.int64(np.int64(3)), builtins.int:20), '
                                   'builtins.int:2, tuple(builtins.int:7, builtins.int:20), '
                                   'ndarray[<i8|(7, '
                                   '2)|0a00000000000000320000000000000032000000000000005a000000000000005a0000000000000082000000000000008200000000000000aa00000000000000aa00000000000000d200000000000000d200000000000000fa00000000000000fa000000000000002201000000000000])',
 'array-ranges|int64:np.int64(-1)': 'list(builtins.int:7, dict{builtins.int:0: '
                                    "dict{builtins.str:'offset': numpy.int64(np.int64(10)), "
                                    "builtins.str:'size': numpy.int64(np.int64(280))}}, "
                                    'builtins.str:"Array(url=\'image\', shape=(7, 20), '
                                    'dtype=\'uint16\', records_per_chunk=7)", '
                                    'tuple(builtins.int:7, builtins.int:20), builtins.int:2, '
                                    'tuple(builtins.int:7, builtins.int:20), ndarray[<i8|(7, '
                                    '2)|0a00000000000000320000000000000032000000000000005a000000000000005a0000000000000082000000000000008200000000000000aa00000000000000aa00000000000000d200000000000000d200000000000000fa00000000000000fa000000000000002201000000000000])',
 'array-ranges|int64:np.int64(1000000)': 'list(builtins.int:7, dict{builtins.int:0: '
                                         "dict{builtins.str:'offset': numpy.int64(np.int64(10)), "
                                         "builtins.str:'size': numpy.int64(np.int64(280))}}, "
                                         'builtins.str:"Array(url=\'image\', shape=(7, 20), '
                                         'dtype=\'uint16\', records_per_chunk=7)", '
                                         'tuple(builtins.int:7, builtins.int:20), builtins.int:2, '
                                         'tuple(builtins.int:7, builtins.int:20), ndarray[<i8|(7, '
                                         '2)|0a00000000000000320000000000000032000000000000005a000000000000005a0000000000000082000000000000008200000000000000aa00000000000000aa00000000000000d200000000000000d200000000000000fa00000000000000fa000000000000002201000000000000])',
 'array-ranges|float:2.0': "raise builtins.TypeError: can't multiply sequence by non-int of type "
                           "'float'",
 'array-ranges|float:2.5': "raise builtins.TypeError: can't multiply sequence by non-int of type "
                           "'float'",
 'array-ranges|float:-1.0': "list(builtins.int:7, dict{builtins.int:0: dict{builtins.str:'offset': "
                            "numpy.int64(np.int64(10)), builtins.str:'size': "
                            'numpy.int64(np.int64(280))}}, builtins.str:"Array(url=\'image\', '
                            'shape=(7, 20), dtype=\'uint16\', records_per_chunk=7)", '
                            'tuple(builtins.int:7, builtins.int:20), builtins.int:2, '
                            'tuple(builtins.int:7, builtins.int:20), ndarray[<i8|(7, '
                            '2)|0a00000000000000320000000000000032000000000000005a000000000000005a0000000000000082000000000000008200000000000000aa00000000000000aa00000000000000d200000000000000d200000000000000fa00000000000000fa000000000000002201000000000000])',
 'array-ranges|float:nan': "raise builtins.TypeError: can't multiply sequence by non-int of type "
                           "'float'",
 'array-ranges|float:inf': "list(builtins.int:7, dict{builtins.int:0: dict{builtins.str:'offset': "
                           "numpy.int64(np.int64(10)), builtins.str:'size': "
                           'numpy.int64(np.int64(280))}}, builtins.str:"Array(url=\'image\', '
                           'shape=(7, 20), dtype=\'uint16\', records_per_chunk=7)", '
                           'tuple(builtins.int:7, builtins.int:20), builtins.int:2, '
                           'tuple(builtins.int:7, builtins.int:20), ndarray[<i8|(7, '
                           '2)|0a00000000000000320000000000000032000000000000005a000000000000005a0000000000000082000000000000008200000000000000aa00000000000000aa00000000000000d200000000000000d200000000000000fa00000000000000fa000000000000002201000000000000])',
 "array-ranges|bytes:b'auto'": "raise builtins.TypeError: '>' not supported between instances of "
                               "'bytes' and 'int'",
 'array-ranges|list:[2]': "raise builtins.TypeError: '>' not supported between instances of 'list' "
                          "and 'int'",
 'array-ranges|tuple:(2,)': "raise builtins.TypeError: '>' not supported between instances of "
                            "'tuple' and 'int'",
 'array-ranges|dict:{}': "raise builtins.TypeError: '>' not supported between instances of 'dict' "
                         "and 'int'",
 'array-ranges|complex:(1+0j)': "raise builtins.TypeError: '>' not supported between instances of "
                                "'complex' and 'int'",
 'ranges-none|NoneType:None': "raise builtins.TypeError: 'NoneType' object is not iterable",
 "ranges-none|str:'auto'": "raise builtins.TypeError: 'NoneType' object is not iterable",
 "ranges-none|str:'80B'": "raise builtins.TypeError: 'NoneType' object is not iterable",
 "ranges-none|str:'5 foos'": "raise builtins.TypeError: 'NoneType' object is not iterable",
 'ranges-none|int:-1': "raise builtins.TypeError: 'NoneType' object is not iterable",
 'ranges-none|int:0': "raise builtins.TypeError: 'NoneType' object is not iterable",
 'ranges-none|int:2': "raise builtins.TypeError: 'NoneType' object is not iterable",
 'ranges-none|int:100': "raise builtins.TypeError: 'NoneType' object is not iterable",
 'ranges-none|list:[2]': "raise builtins.TypeError: 'NoneType' object is not iterable",
 'ranges-none|float:2.5': "raise builtins.TypeError: 'NoneType' object is not iterable",
 'ranges-int|NoneType:None': "raise builtins.TypeError: 'int' object is not iterable",
 "ranges-int|str:'auto'": "raise builtins.TypeError: 'int' object is not iterable",
 "ranges-int|str:'80B'": "raise builtins.TypeError: 'int' object is not iterable",
 "ranges-int|str:'5 foos'": "raise builtins.TypeError: 'int' object is not iterable",
 'ranges-int|int:-1': "raise builtins.TypeError: 'int' object is not iterable",
 'ranges-int|int:0': "raise builtins.TypeError: 'int' object is not iterable",
 'ranges-int|int:2': "raise builtins.TypeError: 'int' object is not iterable",
 'ranges-int|int:100': "raise builtins.TypeError: 'int' object is not iterable",
 'ranges-int|list:[2]': "raise builtins.TypeError: 'int' object is not iterable",
 'ranges-int|float:2.5': "raise builtins.TypeError: 'int' object is not iterable",
 'ranges-3-tuples|NoneType:None': 'raise builtins.ValueError: too many values to unpack (expected '
                                  '2)',
 "ranges-3-tuples|str:'auto'": 'raise builtins.ValueError: too many values to unpack (expected 2)',
 "ranges-3-tuples|str:'80B'": 'raise builtins.ValueError: too many values to unpack (expected 2)',
 "ranges-3-tuples|str:'5 foos'": 'raise builtins.ValueError: too many values to unpack (expected '
                                 '2)',
 'ranges-3-tuples|int:-1': 'raise builtins.ValueError: too many values to unpack (expected 2)',
 'ranges-3-tuples|int:0': 'raise builtins.ValueError: too many values to unpack (expected 2)',
 'ranges-3-tuples|int:2': 'raise builtins.ValueError: too many values to unpack (expected 2)',
 'ranges-3-tuples|int:100': 'raise builtins.ValueError: too many values to unpack (expected 2)',
 'ranges-3-tuples|list:[2]': 'raise builtins.ValueError: too many values to unpack (expected 2)',
 'ranges-3-tuples|float:2.5': 'raise builtins.ValueError: too many values to unpack (expected 2)',
 'ranges-1-tuples|NoneType:None': 'raise builtins.ValueError: not enough values to unpack '
                                  '(expected 2, got 1)',
 "ranges-1-tuples|str:'auto'": 'raise builtins.ValueError: not enough values to unpack (expected '
                               '2, got 1)',
 "ranges-1-tuples|str:'80B'": 'raise builtins.ValueError: not enough values to unpack (expected 2, '
                              'got 1)',
 "ranges-1-tuples|str:'5 foos'": 'raise builtins.ValueError: not enough values to unpack (expected '
                                 '2, got 1)',
 'ranges-1-tuples|int:-1': 'raise builtins.ValueError: not enough values to unpack (expected 2, '
                           'got 1)',
 'ranges-1-tuples|int:0': 'raise builtins.ValueError: not enough values to unpack (expected 2, got '
                          '1)',
 'ranges-1-tuples|int:2': 'raise builtins.ValueError: not enough values to unpack (expected 2, got '
                          '1)',
 'ranges-1-tuples|int:100': 'raise builtins.ValueError: not enough values to unpack (expected 2, '
                            'got 1)',
 'ranges-1-tuples|list:[2]': 'raise builtins.ValueError: not enough values to unpack (expected 2, '
                             'got 1)',
 'ranges-1-tuples|float:2.5': 'raise builtins.ValueError: not enough values to unpack (expected 2, '
                              'got 1)',
 'ranges-mixed|NoneType:None': 'raise builtins.ValueError: not enough values to unpack (expected '
                               '2, got 1)',
 "ranges-mixed|str:'auto'": 'raise builtins.ValueError: not enough values to unpack (expected 2, '
                            'got 1)',
 "ranges-mixed|str:'80B'": 'raise builtins.ValueError: not enough values to unpack (expected 2, '
                           'got 1)',
 "ranges-mixed|str:'5 foos'": 'raise builtins.ValueError: not enough values to unpack (expected 2, '
                              'got 1)',
 'ranges-mixed|int:-1': 'raise builtins.ValueError: not enough values to unpack (expected 2, got '
                        '1)',
 'ranges-mixed|int:0': 'raise builtins.ValueError: not enough values to unpack (expected 2, got 1)',
 'ranges-mixed|int:2': 'raise builtins.ValueError: not enough values to unpack (expected 2, got 1)',
 'ranges-mixed|int:100': 'raise builtins.ValueError: not enough values to unpack (expected 2, got '
                         '1)',
 'ranges-mixed|list:[2]': 'raise builtins.ValueError: not enough values to unpack (expected 2, got '
                          '1)',
 'ranges-mixed|float:2.5': 'raise builtins.ValueError: not enough values to unpack (expected 2, '
                           'got 1)',
 'ranges-ints|NoneType:None': 'raise builtins.TypeError: cannot unpack non-iterable int object',
 "ranges-ints|str:'auto'": 'raise builtins.TypeError: cannot unpack non-iterable int object',
 "ranges-ints|str:'80B'": 'raise builtins.TypeError: cannot unpack non-iterable int object',
 "ranges-ints|str:'5 foos'": 'raise builtins.TypeError: cannot unpack non-iterable int object',
 'ranges-ints|int:-1': 'raise builtins.TypeError: cannot unpack non-iterable int object',
 'ranges-ints|int:0': 'raise builtins.TypeError: cannot unpack non-iterable int object',
 'ranges-ints|int:2': 'raise builtins.TypeError: cannot unpack non-iterable int object',
 'ranges-ints|int:100': 'raise builtins.TypeError: cannot unpack non-iterable int object',
 'ranges-ints|list:[2]': 'raise builtins.TypeError: cannot unpack non-iterable int object',
 'ranges-ints|float:2.5': 'raise builtins.TypeError: cannot unpack non-iterable int object',
 'ranges-str|NoneType:None': "raise builtins.TypeError: unsupported operand type(s) for -: 'str' "
                             "and 'str'",
 "ranges-str|str:'auto'": "raise builtins.TypeError: unsupported operand type(s) for -: 'str' and "
                          "'str'",
 "ranges-str|str:'80B'": "raise builtins.TypeError: unsupported operand type(s) for -: 'str' and "
                         "'str'",
 "ranges-str|str:'5 foos'": "raise builtins.TypeError: unsupported operand type(s) for -: 'str' "
                            "and 'str'",
 'ranges-str|int:-1': "raise builtins.TypeError: unsupported operand type(s) for -: 'str' and "
                      "'str'",
 'ranges-str|int:0': "raise builtins.TypeError: unsupported operand type(s) for -: 'str' and 'str'",
 'ranges-str|int:2': "raise builtins.TypeError: unsupported operand type(s) for -: 'str' and 'str'",
 'ranges-str|int:100': "raise builtins.TypeError: unsupported operand type(s) for -: 'str' and "
                       "'str'",
 'ranges-str|list:[2]': "raise builtins.TypeError: unsupported operand type(s) for -: 'str' and "
                        "'str'",
 'ranges-str|float:2.5': "raise builtins.TypeError: unsupported operand type(s) for -: 'str' and "
                         "'str'",
 'ranges-none-items|NoneType:None': 'raise builtins.TypeError: unsupported operand type(s) for -: '
                                    "'int' and 'NoneType'",
 "ranges-none-items|str:'auto'": 'raise builtins.TypeError: unsupported operand type(s) for -: '
                                 "'int' and 'NoneType'",
 "ranges-none-items|str:'80B'": 'raise builtins.TypeError: unsupported operand type(s) for -: '
                                "'int' and 'NoneType'",
 "ranges-none-items|str:'5 foos'": 'raise builtins.TypeError: unsupported operand type(s) for -: '
                                   "'int' and 'NoneType'",
 'ranges-none-items|int:-1': "raise builtins.TypeError: unsupported operand type(s) for -: 'int' "
                             "and 'NoneType'",
 'ranges-none-items|int:0': "raise builtins.TypeError: unsupported operand type(s) for -: 'int' "
                            "and 'NoneType'",
 'ranges-none-items|int:2': "raise builtins.TypeError: unsupported operand type(s) for -: 'int' "
                            "and 'NoneType'",
 'ranges-none-items|int:100': "raise builtins.TypeError: unsupported operand type(s) for -: 'int' "
                              "and 'NoneType'",
 'ranges-none-items|list:[2]': "raise builtins.TypeError: unsupported operand type(s) for -: 'int' "
                               "and 'NoneType'",
 'ranges-none-items|float:2.5': 'raise builtins.TypeError: unsupported operand type(s) for -: '
                                "'int' and 'NoneType'",
 'shape-empty|NoneType:None': 'list(builtins.int:1024, dict{builtins.int:0: '
                              "dict{builtins.str:'offset': builtins.int:10, builtins.str:'size': "
                              'builtins.int:280}}, builtins.str:"Array(url=\'image\', shape=(), '
                              'dtype=\'uint16\', records_per_chunk=1024)", '
                              'tuple(builtins.int:1024), builtins.int:0, tuple(), '
                              'list(tuple(builtins.int:10, builtins.int:50), '
                              'tuple(builtins.int:50, builtins.int:90), tuple(builtins.int:90, '
                              'builtins.int:130), tuple(builtins.int:130, builtins.int:170), '
                              'tuple(builtins.int:170, builtins.int:210), tuple(builtins.int:210, '
                              'builtins.int:250), tuple(builtins.int:250, builtins.int:290)))',
 "shape-empty|str:'auto'": 'list(numpy.int64(np.int64(7)), dict{builtins.int:0: '
                           "dict{builtins.str:'offset': builtins.int:10, builtins.str:'size': "
                           'builtins.int:280}}, builtins.str:"Array(url=\'image\', shape=(), '
                           'dtype=\'uint16\', records_per_chunk=np.int64(7))", '
                           'tuple(numpy.int64(np.int64(7))), builtins.int:0, tuple(), '
                           'list(tuple(builtins.int:10, builtins.int:50), tuple(builtins.int:50, '
                           'builtins.int:90), tuple(builtins.int:90, builtins.int:130), '
                           'tuple(builtins.int:130, builtins.int:170), tuple(builtins.int:170, '
                           'builtins.int:210), tuple(builtins.int:210, builtins.int:250), '
                           'tuple(builtins.int:250, builtins.int:290)))',
 "shape-empty|str:'80B'": 'list(numpy.int64(np.int64(2)), dict{builtins.int:0: '
                          "dict{builtins.str:'offset': builtins.int:10, builtins.str:'size': "
                          "builtins.int:80}, builtins.int:1: dict{builtins.str:'offset': "
                          "builtins.int:90, builtins.str:'size': builtins.int:80}, builtins.int:2: "
                          "dict{builtins.str:'offset': builtins.int:170, builtins.str:'size': "
                          "builtins.int:80}, builtins.int:3: dict{builtins.str:'offset': "
                          "builtins.int:250, builtins.str:'size': builtins.int:40}}, "
                          'builtins.str:"Array(url=\'image\', shape=(), dtype=\'uint16\', '
                          'records_per_chunk=np.int64(2))", tuple(numpy.int64(np.int64(2))), '
                          'builtins.int:0, tuple(), list(tuple(builtins.int:10, builtins.int:50), '
                          'tuple(builtins.int:50, builtins.int:90), tuple(builtins.int:90, '
                          'builtins.int:130), tuple(builtins.int:130, builtins.int:170), '
                          'tuple(builtins.int:170, builtins.int:210), tuple(builtins.int:210, '
                          'builtins.int:250), tuple(builtins.int:250, builtins.int:290)))',
 "shape-empty|str:'5 foos'": "raise builtins.ValueError: Could not interpret 'foos' as a byte unit",
 'shape-empty|int:-1': 'raise builtins.IndexError: tuple index out of range',
 'shape-empty|int:0': 'raise builtins.IndexError: tuple index out of range',
 'shape-empty|int:2': 'raise builtins.IndexError: tuple index out of range',
 'shape-empty|int:100': 'raise builtins.IndexError: tuple index out of range',
 'shape-empty|list:[2]': 'raise builtins.IndexError: tuple index out of range',
 'shape-empty|float:2.5': 'raise builtins.IndexError: tuple index out of range',
 'shape-none|NoneType:None': "raise builtins.TypeError: 'NoneType' object is not subscriptable",
 "shape-none|str:'auto'": "raise builtins.TypeError: 'NoneType' object is not subscriptable",
 "shape-none|str:'80B'": "raise builtins.TypeError: 'NoneType' object is not subscriptable",
 "shape-none|str:'5 foos'": "raise builtins.ValueError: Could not interpret 'foos' as a byte unit",
 'shape-none|int:-1': "raise builtins.TypeError: 'NoneType' object is not subscriptable",
 'shape-none|int:0': "raise builtins.TypeError: 'NoneType' object is not subscriptable",
 'shape-none|int:2': "raise builtins.TypeError: 'NoneType' object is not subscriptable",
 'shape-none|int:100': "raise builtins.TypeError: 'NoneType' object is not subscriptable",
 'shape-none|list:[2]': "raise builtins.TypeError: 'NoneType' object is not subscriptable",
 'shape-none|float:2.5': "raise builtins.TypeError: 'NoneType' object is not subscriptable",
 'shape-int|NoneType:None': "raise builtins.TypeError: 'int' object is not subscriptable",
 "shape-int|str:'auto'": "raise builtins.TypeError: 'int' object is not subscriptable",
 "shape-int|str:'80B'": "raise builtins.TypeError: 'int' object is not subscriptable",
 "shape-int|str:'5 foos'": "raise builtins.ValueError: Could not interpret 'foos' as a byte unit",
 'shape-int|int:-1': "raise builtins.TypeError: 'int' object is not subscriptable",
 'shape-int|int:0': "raise builtins.TypeError: 'int' object is not subscriptable",
 'shape-int|int:2': "raise builtins.TypeError: 'int' object is not subscriptable",
 'shape-int|int:100': "raise builtins.TypeError: 'int' object is not subscriptable",
 'shape-int|list:[2]': "raise builtins.TypeError: 'int' object is not subscriptable",
 'shape-int|float:2.5': "raise builtins.TypeError: 'int' object is not subscriptable",
 'shape-str|NoneType:None': 'list(builtins.int:1024, dict{builtins.int:0: '
                            "dict{builtins.str:'offset': builtins.int:10, builtins.str:'size': "
                            'builtins.int:280}}, builtins.str:"Array(url=\'image\', shape=\'ab\', '
                            'dtype=\'uint16\', records_per_chunk=1024)", tuple(builtins.int:1024, '
                            "builtins.str:'b'), builtins.int:2, builtins.str:'ab', "
                            'list(tuple(builtins.int:10, builtins.int:50), tuple(builtins.int:50, '
                            'builtins.int:90), tuple(builtins.int:90, builtins.int:130), '
                            'tuple(builtins.int:130, builtins.int:170), tuple(builtins.int:170, '
                            'builtins.int:210), tuple(builtins.int:210, builtins.int:250), '
                            'tuple(builtins.int:250, builtins.int:290)))',
 "shape-str|str:'auto'": 'list(numpy.int64(np.int64(7)), dict{builtins.int:0: '
                         "dict{builtins.str:'offset': builtins.int:10, builtins.str:'size': "
                         'builtins.int:280}}, builtins.str:"Array(url=\'image\', shape=\'ab\', '
                         'dtype=\'uint16\', records_per_chunk=np.int64(7))", '
                         "tuple(numpy.int64(np.int64(7)), builtins.str:'b'), builtins.int:2, "
                         "builtins.str:'ab', list(tuple(builtins.int:10, builtins.int:50), "
                         'tuple(builtins.int:50, builtins.int:90), tuple(builtins.int:90, '
                         'builtins.int:130), tuple(builtins.int:130, builtins.int:170), '
                         'tuple(builtins.int:170, builtins.int:210), tuple(builtins.int:210, '
                         'builtins.int:250), tuple(builtins.int:250, builtins.int:290)))',
 "shape-str|str:'80B'": 'list(numpy.int64(np.int64(2)), dict{builtins.int:0: '
                        "dict{builtins.str:'offset': builtins.int:10, builtins.str:'size': "
                        "builtins.int:80}, builtins.int:1: dict{builtins.str:'offset': "
                        "builtins.int:90, builtins.str:'size': builtins.int:80}, builtins.int:2: "
                        "dict{builtins.str:'offset': builtins.int:170, builtins.str:'size': "
                        "builtins.int:80}, builtins.int:3: dict{builtins.str:'offset': "
                        "builtins.int:250, builtins.str:'size': builtins.int:40}}, "
                        'builtins.str:"Array(url=\'image\', shape=\'ab\', dtype=\'uint16\', '
                        'records_per_chunk=np.int64(2))", tuple(numpy.int64(np.int64(2)), '
                        "builtins.str:'b'), builtins.int:2, builtins.str:'ab', "
                        'list(tuple(builtins.int:10, builtins.int:50), tuple(builtins.int:50, '
                        'builtins.int:90), tuple(builtins.int:90, builtins.int:130), '
                        'tuple(builtins.int:130, builtins.int:170), tuple(builtins.int:170, '
                        'builtins.int:210), tuple(builtins.int:210, builtins.int:250), '
                        'tuple(builtins.int:250, builtins.int:290)))',
 "shape-str|str:'5 foos'": "raise builtins.ValueError: Could not interpret 'foos' as a byte unit",
 'shape-str|int:-1': "raise builtins.TypeError: can't multiply sequence by non-int of type 'str'",
 'shape-str|int:0': "raise builtins.TypeError: '>' not supported between instances of 'int' and "
                    "'str'",
 'shape-str|int:2': "raise builtins.TypeError: '>' not supported between instances of 'int' and "
                    "'str'",
 'shape-str|int:100': "raise builtins.TypeError: '>' not supported between instances of 'int' and "
                      "'str'",
 'shape-str|list:[2]': "raise builtins.TypeError: '>' not supported between instances of 'list' "
                       "and 'str'",
 'shape-str|float:2.5': "raise builtins.TypeError: '>' not supported between instances of 'float' "
                        "and 'str'",
 'shape-none-entry|NoneType:None': 'list(builtins.int:1024, dict{builtins.int:0: '
                                   "dict{builtins.str:'offset': builtins.int:10, "
                                   "builtins.str:'size': builtins.int:280}}, "
                                   'builtins.str:"Array(url=\'image\', shape=(None, 20), '
                                   'dtype=\'uint16\', records_per_chunk=1024)", '
                                   'tuple(builtins.int:1024, builtins.int:20), builtins.int:2, '
                                   'tuple(builtins.NoneType:None, builtins.int:20), '
                                   'list(tuple(builtins.int:10, builtins.int:50), '
                                   'tuple(builtins.int:50, builtins.int:90), '
                                   'tuple(builtins.int:90, builtins.int:130), '
                                   'tuple(builtins.int:130, builtins.int:170), '
                                   'tuple(builtins.int:170, builtins.int:210), '
                                   'tuple(builtins.int:210, builtins.int:250), '
                                   'tuple(builtins.int:250, builtins.int:290)))',
 "shape-none-entry|str:'auto'": 'list(numpy.int64(np.int64(7)), dict{builtins.int:0: '
                                "dict{builtins.str:'offset': builtins.int:10, builtins.str:'size': "
                                'builtins.int:280}}, builtins.str:"Array(url=\'image\', '
                                "shape=(None, 20), dtype='uint16', "
                                'records_per_chunk=np.int64(7))", tuple(numpy.int64(np.int64(7)), '
                                'builtins.int:20), builtins.int:2, tuple(builtins.NoneType:None, '
                                'builtins.int:20), list(tuple(builtins.int:10, builtins.int:50), '
                                'tuple(builtins.int:50, builtins.int:90), tuple(builtins.int:90, '
                                'builtins.int:130), tuple(builtins.int:130, builtins.int:170), '
                                'tuple(builtins.int:170, builtins.int:210), '
                                'tuple(builtins.int:210, builtins.int:250), '
                                'tuple(builtins.int:250, builtins.int:290)))',
 "shape-none-entry|str:'80B'": 'list(numpy.int64(np.int64(2)), dict{builtins.int:0: '
                               "dict{builtins.str:'offset': builtins.int:10, builtins.str:'size': "
                               "builtins.int:80}, builtins.int:1: dict{builtins.str:'offset': "
                               "builtins.int:90, builtins.str:'size': builtins.int:80}, "
                               "builtins.int:2: dict{builtins.str:'offset': builtins.int:170, "
                               "builtins.str:'size': builtins.int:80}, builtins.int:3: "
                               "dict{builtins.str:'offset': builtins.int:250, builtins.str:'size': "
                               'builtins.int:40}}, builtins.str:"Array(url=\'image\', shape=(None, '
                               '20), dtype=\'uint16\', records_per_chunk=np.int64(2))", '
                               'tuple(numpy.int64(np.int64(2)), builtins.int:20), builtins.int:2, '
                               'tuple(builtins.NoneType:None, builtins.int:20), '
                               'list(tuple(builtins.int:10, builtins.int:50), '
                               'tuple(builtins.int:50, builtins.int:90), tuple(builtins.int:90, '
                               'builtins.int:130), tuple(builtins.int:130, builtins.int:170), '
                               'tuple(builtins.int:170, builtins.int:210), tuple(builtins.int:210, '
                               'builtins.int:250), tuple(builtins.int:250, builtins.int:290)))',
 "shape-none-entry|str:'5 foos'": "raise builtins.ValueError: Could not interpret 'foos' as a byte "
                                  'unit',
 'shape-none-entry|int:-1': "raise builtins.TypeError: can't multiply sequence by non-int of type "
                            "'NoneType'",
 'shape-none-entry|int:0': "raise builtins.TypeError: '>' not supported between instances of 'int' "
                           "and 'NoneType'",
 'shape-none-entry|int:2': "raise builtins.TypeError: '>' not supported between instances of 'int' "
                           "and 'NoneType'",
 'shape-none-entry|int:100': "raise builtins.TypeError: '>' not supported between instances of "
                             "'int' and 'NoneType'",
 'shape-none-entry|list:[2]': "raise builtins.TypeError: '>' not supported between instances of "
                              "'list' and 'NoneType'",
 'shape-none-entry|float:2.5': "raise builtins.TypeError: '>' not supported between instances of "
                               "'float' and 'NoneType'",
 'shape-dict|NoneType:None': 'raise builtins.KeyError: slice(1, None, None)',
 "shape-dict|str:'auto'": 'raise builtins.KeyError: slice(1, None, None)',
 "shape-dict|str:'80B'": 'raise builtins.KeyError: slice(1, None, None)',
 "shape-dict|str:'5 foos'": "raise builtins.ValueError: Could not interpret 'foos' as a byte unit",
 'shape-dict|int:-1': 'raise builtins.KeyError: slice(1, None, None)',
 'shape-dict|int:0': 'raise builtins.KeyError: slice(1, None, None)',
 'shape-dict|int:2': 'raise builtins.KeyError: slice(1, None, None)',
 'shape-dict|int:100': 'raise builtins.KeyError: slice(1, None, None)',
 'shape-dict|list:[2]': "raise builtins.TypeError: '>' not supported between instances of 'list' "
                        "and 'int'",
 'shape-dict|float:2.5': "raise builtins.TypeError: can't multiply sequence by non-int of type "
                         "'float'",
 'shape-float|NoneType:None': 'list(builtins.int:1024, dict{builtins.int:0: '
                              "dict{builtins.str:'offset': builtins.int:10, builtins.str:'size': "
                              'builtins.int:280}}, builtins.str:"Array(url=\'image\', shape=(2.5, '
                              '20), dtype=\'uint16\', records_per_chunk=1024)", '
                              'tuple(builtins.int:1024, builtins.int:20), builtins.int:2, '
                              'tuple(builtins.float:2.5, builtins.int:20), '
                              'list(tuple(builtins.int:10, builtins.int:50), '
                              'tuple(builtins.int:50, builtins.int:90), tuple(builtins.int:90, '
                              'builtins.int:130), tuple(builtins.int:130, builtins.int:170), '
                              'tuple(builtins.int:170, builtins.int:210), tuple(builtins.int:210, '
                              'builtins.int:250), tuple(builtins.int:250, builtins.int:290)))',
 "shape-float|str:'auto'": 'list(numpy.int64(np.int64(7)), dict{builtins.int:0: '
                           "dict{builtins.str:'offset': builtins.int:10, builtins.str:'size': "
                           'builtins.int:280}}, builtins.str:"Array(url=\'image\', shape=(2.5, '
                           '20), dtype=\'uint16\', records_per_chunk=np.int64(7))", '
                           'tuple(numpy.int64(np.int64(7)), builtins.int:20), builtins.int:2, '
                           'tuple(builtins.float:2.5, builtins.int:20), '
                           'list(tuple(builtins.int:10, builtins.int:50), tuple(builtins.int:50, '
                           'builtins.int:90), tuple(builtins.int:90, builtins.int:130), '
                           'tuple(builtins.int:130, builtins.int:170), tuple(builtins.int:170, '
                           'builtins.int:210), tuple(builtins.int:210, builtins.int:250), '
                           'tuple(builtins.int:250, builtins.int:290)))',
 "shape-float|str:'80B'": 'list(numpy.int64(np.int64(2)), dict{builtins.int:0: '
                          "dict{builtins.str:'offset': builtins.int:10, builtins.str:'size': "
                          "builtins.int:80}, builtins.int:1: dict{builtins.str:'offset': "
                          "builtins.int:90, builtins.str:'size': builtins.int:80}, builtins.int:2: "
                          "dict{builtins.str:'offset': builtins.int:170, builtins.str:'size': "
                          "builtins.int:80}, builtins.int:3: dict{builtins.str:'offset': "
                          "builtins.int:250, builtins.str:'size': builtins.int:40}}, "
                          'builtins.str:"Array(url=\'image\', shape=(2.5, 20), dtype=\'uint16\', '
                          'records_per_chunk=np.int64(2))", tuple(numpy.int64(np.int64(2)), '
                          'builtins.int:20), builtins.int:2, tuple(builtins.float:2.5, '
                          'builtins.int:20), list(tuple(builtins.int:10, builtins.int:50), '
                          'tuple(builtins.int:50, builtins.int:90), tuple(builtins.int:90, '
                          'builtins.int:130), tuple(builtins.int:130, builtins.int:170), '
                          'tuple(builtins.int:170, builtins.int:210), tuple(builtins.int:210, '
                          'builtins.int:250), tuple(builtins.int:250, builtins.int:290)))',
 "shape-float|str:'5 foos'": "raise builtins.ValueError: Could not interpret 'foos' as a byte unit",
 'shape-float|int:-1': "raise builtins.TypeError: can't multiply sequence by non-int of type "
                       "'float'",
 'shape-float|int:0': 'list(builtins.int:0, dict{}, builtins.str:"Array(url=\'image\', shape=(2.5, '
                      '20), dtype=\'uint16\', records_per_chunk=0)", tuple(builtins.int:0, '
                      'builtins.int:20), builtins.int:2, tuple(builtins.float:2.5, '
                      'builtins.int:20), list(tuple(builtins.int:10, builtins.int:50), '
                      'tuple(builtins.int:50, builtins.int:90), tuple(builtins.int:90, '
                      'builtins.int:130), tuple(builtins.int:130, builtins.int:170), '
                      'tuple(builtins.int:170, builtins.int:210), tuple(builtins.int:210, '
                      'builtins.int:250), tuple(builtins.int:250, builtins.int:290)))',
 'shape-float|int:2': "list(builtins.int:2, dict{builtins.int:0: dict{builtins.str:'offset': "
                      "builtins.int:10, builtins.str:'size': builtins.int:80}, builtins.int:1: "
                      "dict{builtins.str:'offset': builtins.int:90, builtins.str:'size': "
                      "builtins.int:80}, builtins.int:2: dict{builtins.str:'offset': "
                      "builtins.int:170, builtins.str:'size': builtins.int:80}, builtins.int:3: "
                      "dict{builtins.str:'offset': builtins.int:250, builtins.str:'size': "
                      'builtins.int:40}}, builtins.str:"Array(url=\'image\', shape=(2.5, 20), '
                      'dtype=\'uint16\', records_per_chunk=2)", tuple(builtins.int:2, '
                      'builtins.int:20), builtins.int:2, tuple(builtins.float:2.5, '
                      'builtins.int:20), list(tuple(builtins.int:10, builtins.int:50), '
                      'tuple(builtins.int:50, builtins.int:90), tuple(builtins.int:90, '
                      'builtins.int:130), tuple(builtins.int:130, builtins.int:170), '
                      'tuple(builtins.int:170, builtins.int:210), tuple(builtins.int:210, '
                      'builtins.int:250), tuple(builtins.int:250, builtins.int:290)))',
 'shape-float|int:100': "raise builtins.TypeError: can't multiply sequence by non-int of type "
                        "'float'",
 'shape-float|list:[2]': "raise builtins.TypeError: '>' not supported between instances of 'list' "
                         "and 'float'",
 'shape-float|float:2.5': "raise builtins.TypeError: can't multiply sequence by non-int of type "
                          "'float'",
 'ranges-gen|None': 'list(builtins.int:1024, dict{}, builtins.str:"Array(url=\'image\', shape=(7, '
                    '20), dtype=\'uint16\', records_per_chunk=1024)", tuple(builtins.int:1024, '
                    'builtins.int:20), builtins.int:2, tuple(builtins.int:7, builtins.int:20), '
                    "builtins.str:'generator')",
 "ranges-gen|'auto'": 'list(numpy.int64(np.int64(7)), dict{}, builtins.str:"Array(url=\'image\', '
                      'shape=(7, 20), dtype=\'uint16\', records_per_chunk=np.int64(7))", '
                      'tuple(numpy.int64(np.int64(7)), builtins.int:20), builtins.int:2, '
                      "tuple(builtins.int:7, builtins.int:20), builtins.str:'generator')",
 "ranges-gen|'80B'": 'list(numpy.int64(np.int64(2)), dict{}, builtins.str:"Array(url=\'image\', '
                     'shape=(7, 20), dtype=\'uint16\', records_per_chunk=np.int64(2))", '
                     'tuple(numpy.int64(np.int64(2)), builtins.int:20), builtins.int:2, '
                     "tuple(builtins.int:7, builtins.int:20), builtins.str:'generator')",
 'ranges-gen|-1': 'list(builtins.int:7, dict{}, builtins.str:"Array(url=\'image\', shape=(7, 20), '
                  'dtype=\'uint16\', records_per_chunk=7)", tuple(builtins.int:7, '
                  'builtins.int:20), builtins.int:2, tuple(builtins.int:7, builtins.int:20), '
                  "builtins.str:'generator')",
 'ranges-gen|2': 'list(builtins.int:2, dict{}, builtins.str:"Array(url=\'image\', shape=(7, 20), '
                 'dtype=\'uint16\', records_per_chunk=2)", tuple(builtins.int:2, builtins.int:20), '
                 'builtins.int:2, tuple(builtins.int:7, builtins.int:20), '
                 "builtins.str:'generator')",
 'other-fields': "list(builtins.int:2, dict{builtins.int:0: dict{builtins.str:'offset': "
                 "builtins.int:5, builtins.str:'size': builtins.int:45}, builtins.int:1: "
                 "dict{builtins.str:'offset': builtins.int:61, builtins.str:'size': "
                 "builtins.int:59}, builtins.int:2: dict{builtins.str:'offset': builtins.int:120, "
                 "builtins.str:'size': builtins.int:20}}, "
                 'builtins.str:"Array(url=\'some/where/IMG-HH\', shape=(5, 10), '
                 'dtype=dtype(\'complex64\'), records_per_chunk=2)", tuple(builtins.int:2, '
                 'builtins.int:10), builtins.int:2, tuple(builtins.int:5, builtins.int:10), '
                 'list(tuple(builtins.int:5, builtins.int:25), tuple(builtins.int:30, '
                 'builtins.int:50), tuple(builtins.int:61, builtins.int:81), '
                 'tuple(builtins.int:100, builtins.int:120), tuple(builtins.int:120, '
                 'builtins.int:140)))',
 'positional': 'builtins.str:"Array(url=\'u\', shape=(5, 10), dtype=\'uint16\', '
               'records_per_chunk=3)"',
 'positional-default': 'builtins.str:"Array(url=\'u\', shape=(5, 10), dtype=\'uint16\', '
                       'records_per_chunk=1024)"',
 'again-2-None': "list(list(builtins.int:2, dict{builtins.int:0: dict{builtins.str:'offset': "
                 "builtins.int:10, builtins.str:'size': builtins.int:80}, builtins.int:1: "
                 "dict{builtins.str:'offset': builtins.int:90, builtins.str:'size': "
                 "builtins.int:80}, builtins.int:2: dict{builtins.str:'offset': builtins.int:170, "
                 "builtins.str:'size': builtins.int:80}, builtins.int:3: "
                 "dict{builtins.str:'offset': builtins.int:250, builtins.str:'size': "
                 'builtins.int:40}}), builtins.int:1024, dict{builtins.int:0: '
                 "dict{builtins.str:'offset': builtins.int:10, builtins.str:'size': "
                 'builtins.int:280}})',
 "again-None-'auto'": 'list(list(builtins.int:1024, dict{builtins.int:0: '
                      "dict{builtins.str:'offset': builtins.int:10, builtins.str:'size': "
                      'builtins.int:280}}), numpy.int64(np.int64(7)), dict{builtins.int:0: '
                      "dict{builtins.str:'offset': builtins.int:10, builtins.str:'size': "
                      'builtins.int:280}})',
 "again-3-'100B'": "list(list(builtins.int:3, dict{builtins.int:0: dict{builtins.str:'offset': "
                   "builtins.int:10, builtins.str:'size': builtins.int:120}, builtins.int:1: "
                   "dict{builtins.str:'offset': builtins.int:130, builtins.str:'size': "
                   "builtins.int:120}, builtins.int:2: dict{builtins.str:'offset': "
                   "builtins.int:250, builtins.str:'size': builtins.int:40}}), "
                   "numpy.int64(np.int64(2)), dict{builtins.int:0: dict{builtins.str:'offset': "
                   "builtins.int:10, builtins.str:'size': builtins.int:80}, builtins.int:1: "
                   "dict{builtins.str:'offset': builtins.int:90, builtins.str:'size': "
                   "builtins.int:80}, builtins.int:2: dict{builtins.str:'offset': "
                   "builtins.int:170, builtins.str:'size': builtins.int:80}, builtins.int:3: "
                   "dict{builtins.str:'offset': builtins.int:250, builtins.str:'size': "
                   'builtins.int:40}})',
 "again-3-'bogus'": "list(list(builtins.int:3, dict{builtins.int:0: dict{builtins.str:'offset': "
                    "builtins.int:10, builtins.str:'size': builtins.int:120}, builtins.int:1: "
                    "dict{builtins.str:'offset': builtins.int:130, builtins.str:'size': "
                    "builtins.int:120}, builtins.int:2: dict{builtins.str:'offset': "
                    "builtins.int:250, builtins.str:'size': builtins.int:40}}), "
                    'builtins.str:"ValueError: Could not interpret \'bogus\' as a byte unit", '
                    "builtins.str:'bogus', dict{builtins.int:0: dict{builtins.str:'offset': "
                    "builtins.int:10, builtins.str:'size': builtins.int:120}, builtins.int:1: "
                    "dict{builtins.str:'offset': builtins.int:130, builtins.str:'size': "
                    "builtins.int:120}, builtins.int:2: dict{builtins.str:'offset': "
                    "builtins.int:250, builtins.str:'size': builtins.int:40}})",
 "again-'auto'-0": 'list(list(numpy.int64(np.int64(7)), dict{builtins.int:0: '
                   "dict{builtins.str:'offset': builtins.int:10, builtins.str:'size': "
                   'builtins.int:280}}), builtins.int:0, dict{})',
 'again-2-[1]': "list(list(builtins.int:2, dict{builtins.int:0: dict{builtins.str:'offset': "
                "builtins.int:10, builtins.str:'size': builtins.int:80}, builtins.int:1: "
                "dict{builtins.str:'offset': builtins.int:90, builtins.str:'size': "
                "builtins.int:80}, builtins.int:2: dict{builtins.str:'offset': builtins.int:170, "
                "builtins.str:'size': builtins.int:80}, builtins.int:3: "
                "dict{builtins.str:'offset': builtins.int:250, builtins.str:'size': "
                'builtins.int:40}}), builtins.str:"TypeError: \'>\' not supported between '
                'instances of \'list\' and \'int\'", list(builtins.int:1), dict{builtins.int:0: '
                "dict{builtins.str:'offset': builtins.int:10, builtins.str:'size': "
                "builtins.int:80}, builtins.int:1: dict{builtins.str:'offset': builtins.int:90, "
                "builtins.str:'size': builtins.int:80}, builtins.int:2: "
                "dict{builtins.str:'offset': builtins.int:170, builtins.str:'size': "
                "builtins.int:80}, builtins.int:3: dict{builtins.str:'offset': builtins.int:250, "
                "builtins.str:'size': builtins.int:40}})",
 'again--1--1': "list(list(builtins.int:7, dict{builtins.int:0: dict{builtins.str:'offset': "
                "builtins.int:10, builtins.str:'size': builtins.int:280}}), builtins.int:7, "
                "dict{builtins.int:0: dict{builtins.str:'offset': builtins.int:10, "
                "builtins.str:'size': builtins.int:280}})",
 'again-4-50': "list(list(builtins.int:4, dict{builtins.int:0: dict{builtins.str:'offset': "
               "builtins.int:10, builtins.str:'size': builtins.int:160}, builtins.int:1: "
               "dict{builtins.str:'offset': builtins.int:170, builtins.str:'size': "
               'builtins.int:120}}), builtins.int:7, dict{builtins.int:0: '
               "dict{builtins.str:'offset': builtins.int:10, builtins.str:'size': "
               'builtins.int:280}})',
 'replace-None': "raise builtins.TypeError: unhashable type: 'list'",
 "replace-'auto'": "raise builtins.TypeError: unhashable type: 'list'",
 "replace-'41B'": "raise builtins.TypeError: unhashable type: 'list'",
 'replace--1': "raise builtins.TypeError: unhashable type: 'list'",
 'replace-2': "raise builtins.TypeError: unhashable type: 'list'",
 'replace-3': "raise builtins.TypeError: unhashable type: 'list'",
 'module-raw-dtypes': 'dict{builtins.str:\'C*8\': builtins.str:"[(\'real\', \'>f4\'), (\'imag\', '
                      '\'>f4\')]", builtins.str:\'IU2\': builtins.str:\'>u2\'}'}


# --------------------------------------------------------------------------
# harness: canonical description of results, comparison against EXPECTED
# --------------------------------------------------------------------------
import sys
import warnings


def describe(value):
    """canonical, type-aware text form of a result"""
    import numpy as _np

    if isinstance(value, BaseException):
        return f"raise {type(value).__module__}.{type(value).__qualname__}: {value}"
    if isinstance(value, _np.ndarray):
        if value.dtype == object:
            body = repr(value.tolist())
        else:
            body = value.tobytes().hex()
        return f"ndarray[{value.dtype.str}|{value.shape}|{body}]"
    if isinstance(value, _np.generic):
        return f"{type(value).__module__}.{type(value).__name__}({value!r})"
    if isinstance(value, dict):
        items = ", ".join(f"{describe(k)}: {describe(v)}" for k, v in value.items())
        return f"{type(value).__name__}{{{items}}}"
    if isinstance(value, (list, tuple)):
        items = ", ".join(describe(v) for v in value)
        return f"{type(value).__name__}({items})"
    return f"{type(value).__module__}.{type(value).__qualname__}:{value!r}"


def run_case(thunk):
    with warnings.catch_warnings():
        warnings.simplefilter("ignore")
        try:
            return describe(thunk())
        except Exception as e:  # noqa: BLE001
            return describe(e)


def collect():
    results = {}
    for name, thunk in cases():
        if name in results:
            raise RuntimeError(f"duplicate case name: {name}")
        results[name] = run_case(thunk)
    return results


def main(argv):
    results = collect()
    if "--record" in argv:
        import pprint

        pprint.pprint(results, width=100, sort_dicts=False)
        return 0

    failures = []
    for name, actual in results.items():
        expected = EXPECTED.get(name, "<missing>")
        if actual != expected:
            failures.append((name, expected, actual))
    missing = sorted(set(EXPECTED) - set(results))
    for name, expected, actual in failures:
        print(f"MISMATCH {name}\n  expected: {expected}\n  actual:   {actual}")
    for name in missing:
        print(f"NOT RUN {name}")
    n_raise = sum(1 for v in results.values() if v.startswith("raise "))
    print(f"{len(results)} cases ({n_raise} raising), {len(failures)} mismatches, {len(missing)} not run")
    return 1 if failures or missing else 0


def test_equivalence():
    assert main([]) == 0


if __name__ == "__main__":
    sys.exit(main(sys.argv[1:]))
