"""Equivalence check for refactoring 3 (``ceos_alos2.volume_directory.metadata``).

Run as a script (``python equiv.py``) or through pytest. The expected outcomes were
recorded from the unchanged code (``python equiv.py --record`` prints them).
"""

import collections
import copy
import struct
import sys
import types

import fsspec

from ceos_alos2.hierarchy import Group
from ceos_alos2.volume_directory import io, metadata, open_volume_directory

# --------------------------------------------------------------------------------------
# synthetic volume directory files


def preamble(number, length=360):
    return struct.pack(">IBBBBI", number, 192, 192, 18, 18, length)


def text(value, width):
    encoded = str(value).encode("ascii")
    assert len(encoded) <= width, (value, width)
    return encoded.ljust(width)


def number(value, width):
    return b" " * width if value is None else str(value).rjust(width).encode("ascii")


def volume_descriptor(n_files, *, datetime="2020101117233798", flag="A", n_text=1, spare=""):
    parts = [
        preamble(1),
        text(flag, 2),
        text("", 2),
        text("CEOS-SAR", 12),
        text("A", 2),
        text("B", 2),
        text("001.001", 12),
        text("PHYSVOL", 16),
        text("LOGVOL", 16),
        text("VOLSET", 16),
        number(1, 2),
        number(1, 2),
        number(1, 2),
        number(1, 2),
        number(2, 4),
        number(None, 4),
        number(4, 4),
        text(datetime, 16),
        text("JAPAN", 12),
        text("JAXA", 8),
        text("EICS", 12),
        number(n_files, 4),
        number(n_text, 4),
        text(spare, 92),
        text("local", 100),
    ]
    data = b"".join(parts)
    assert len(data) == 360, len(data)
    return data


def file_descriptor(index):
    parts = [
        preamble(index + 2),
        text("A", 2),
        text("", 2),
        number(index + 1, 4),
        text(f"FILE{index}", 16),
        text("SARLEADER FILE", 28),
        text("SARL", 4),
        text("MIXED BINARY AND ASCII", 28),
        text("MBAA", 4),
        number(10 + index, 8),
        number(720, 8),
        number(9860, 8),
        text("VARIABLE LEN", 12),
        text("VARE", 4),
        number(1, 2),
        number(1, 2),
        number(1, 8),
        number(10 + index, 8),
        text("", 100),
        text("", 100),
    ]
    data = b"".join(parts)
    assert len(data) == 360, len(data)
    return data


def text_record(n, *, product="PRODUCT:WWDR1.5RUA", scene="ORBIT:ALOS2014410740-140829"):
    parts = [
        preamble(n),
        text("A", 2),
        text("", 2),
        text(product, 40),
        text("PROCESS:JAPAN-JAXA-EICS  20150313 062719", 60),
        text("TAPE ID", 40),
        text(scene, 40),
        text("SCENE LOCATION", 40),
        text("", 124),
    ]
    data = b"".join(parts)
    assert len(data) == 360, len(data)
    return data


def volume_directory(n_files, **kwargs):
    text_kwargs = {k: kwargs.pop(k) for k in ["product", "scene"] if k in kwargs}
    return (
        volume_descriptor(n_files, **kwargs)
        + b"".join(file_descriptor(index) for index in range(n_files))
        + text_record(n_files + 2, **text_kwargs)
    )


FILES = {
    "vol0": volume_directory(0),
    "vol1": volume_directory(1),
    "vol4": volume_directory(4, flag="E", spare="spare!"),
    "vol-early": volume_directory(3, datetime="1999123123595999"),
    "vol-short-datetime": volume_directory(2, datetime="20201011172337"),
    "vol-bad-datetime": volume_directory(2, datetime="2020131117233798"),
    "vol-empty-datetime": volume_directory(2, datetime=""),
    "vol-long-datetime": volume_directory(2, datetime="2020101117233798"[:15] + "x"),
    "vol-other-text": volume_directory(2, product="", scene="x" * 40),
    "vol-truncated": volume_directory(4)[:-1],
    "vol-truncated-descriptors": volume_directory(4)[: 360 * 3],
    "vol-trailing": volume_directory(2) + b"trailing bytes",
    "vol-blank-count": volume_descriptor(0)[:252] + b"    " + volume_descriptor(0)[256:]
    + text_record(2),
    "empty": b"",
}

# --------------------------------------------------------------------------------------
# hand-written mappings

ALL_VOLUME_DESCRIPTOR_KEYS = [
    "preamble", "ascii_ebcdic_flag", "blanks",
    "superstructure_format_control_document_id",
    "superstructure_format_control_document_revision_level",
    "superstructure_record_format_revision_level", "software_release_and_revision_level",
    "physical_volume_id", "logical_volume_id", "volume_set_id",
    "total_number_of_physical_volumes_in_logical_volume",
    "physical_volume_sequence_number_of_the_first_tape",
    "physical_volume_sequence_number_of_the_last_tape",
    "physical_volume_sequence_number_of_the_current_tape",
    "file_number_in_the_logical_volume", "logical_volume_within_a_volume_set",
    "logical_volume_number_within_physical_volume", "logical_volume_creation_datetime",
    "logical_volume_generation_country", "logical_volume_generating_agency",
    "logical_volume_generating_facility", "number_of_file_pointer_records",
    "number_of_text_records_in_volume_directory", "spare", "local_use_segment",
]  # fmt: skip
ALL_TEXT_KEYS = [
    "preamble", "ascii_ebcdic_flag", "blanks", "product_id",
    "location_and_datetime_of_product_creation", "physical_tape_id", "scene_id",
    "scene_location_id",
]  # fmt: skip


def full(keys, **overrides):
    mapping = {key: f"value of {key}" for key in keys}
    if "logical_volume_creation_datetime" in mapping:
        mapping["logical_volume_creation_datetime"] = "2020101117233798"
    mapping.update(overrides)
    return mapping


class Key(str):
    """str subclass used as a key"""


VOLUME_DESCRIPTORS = {
    "empty": {},
    "full": full(ALL_VOLUME_DESCRIPTOR_KEYS),
    "full-reversed": dict(reversed(list(full(ALL_VOLUME_DESCRIPTOR_KEYS).items()))),
    "only-ignored": {"preamble": {"a": 1}, "spare": "", "blanks": "", "local_use_segment": 1},
    "unknown-keys": {"a": 1, "b": [1, 2], "c": {"d": None}, "spare1": "", "blanks2": 1, 3: 4},
    "already-translated": {"creation_datetime": "1999123123595999", "software_version": "1"},
    "both-names-1": {
        "logical_volume_creation_datetime": "2020101117233798",
        "creation_datetime": "1999123123595999",
        "x": 1,
    },
    "both-names-2": {
        "creation_country": "first",
        "y": 2,
        "logical_volume_generation_country": "second",
    },
    "datetime-14": {"logical_volume_creation_datetime": "20201011172337"},
    "datetime-20": {"logical_volume_creation_datetime": "20201011172337123456"},
    "datetime-21": {"logical_volume_creation_datetime": "202010111723371234567"},
    "datetime-month-13": {"logical_volume_creation_datetime": "2020131117233798"},
    "datetime-empty": {"logical_volume_creation_datetime": ""},
    "datetime-none": {"logical_volume_creation_datetime": None},
    "datetime-int": {"creation_datetime": 2020101117233798},
    "datetime-bytes": {"creation_datetime": b"2020101117233798"},
    "datetime-first-of-two-bad": {
        "logical_volume_creation_datetime": "bad",
        "creation_datetime": "2020101117233798",
    },
    "str-subclass-keys": {Key("preamble"): 1, Key("volume_set_id"): 2, Key("spare"): 3},
    "tuple-key": {("preamble",): 1, "preamble": 2},
    "ordered": collections.OrderedDict(
        [("spare", 1), ("volume_set_id", "x"), ("logical_volume_generating_agency", "JAXA")]
    ),
    "defaultdict": collections.defaultdict(list, {"blanks": 1, "physical_volume_id": "p"}),
    "mappingproxy": types.MappingProxyType({"blanks": 1, "logical_volume_id": "l"}),
    "none": None,
    "list": ["preamble"],
    "list-of-pairs": [("preamble", 1)],
    "str": "preamble",
    "int": 0,
}

TEXTS = {
    "empty": {},
    "full": full(ALL_TEXT_KEYS),
    "full-reversed": dict(reversed(list(full(ALL_TEXT_KEYS).items()))),
    "only-ignored": {"preamble": {}, "ascii_ebcdic_flag": "a", "blanks": "", "physical_tape_id": 1},
    "unknown-keys": {"a": 1, "spare": "kept", "local_use_segment": "kept", "blanks1": ""},
    "both-names": {
        "product_creation": "first",
        "z": 0,
        "location_and_datetime_of_product_creation": "second",
    },
    "datetime-not-normalized": {"creation_datetime": "2020101117233798"},
    "str-subclass-keys": {Key("blanks"): 1, Key("scene_id"): 2},
    "ordered": collections.OrderedDict([("scene_id", 1), ("blanks", 2)]),
    "none": None,
    "list": ["blanks"],
    "str": "blanks",
}

RECORDS = {
    "empty": {},
    "full": {
        "volume_descriptor": full(ALL_VOLUME_DESCRIPTOR_KEYS),
        "file_descriptors": [{"preamble": 1}, {"preamble": 2}],
        "text_record": full(ALL_TEXT_KEYS),
    },
    "text-first": {
        "text_record": full(ALL_TEXT_KEYS),
        "volume_descriptor": full(ALL_VOLUME_DESCRIPTOR_KEYS),
    },
    "only-file-descriptors": {"file_descriptors": [{"a": 1}]},
    "only-volume-descriptor": {"volume_descriptor": {"spare": 1, "volume_set_id": "v"}},
    "only-text": {"text_record": {"blanks": 1, "scene_id": "s"}},
    "extra-scalars": {"a": 1, "volume_descriptor": {"b": 2}, "c": [3], "text_record": {"d": 4}},
    "extra-groups": {
        "other": {"preamble": "kept", "blanks": "kept"},
        "volume_descriptor": {"preamble": "dropped", "e": 5},
        "nested": {"deep": {"deeper": 1}},
    },
    "collisions": {
        "a": "top",
        "volume_descriptor": {"a": "vd", "scene_id": "vd", "b": "vd"},
        "text_record": {"scene_id": "text", "a": "text"},
        "b": "top again",
    },
    "bad-datetime": {
        "volume_descriptor": {"logical_volume_creation_datetime": "x"},
        "text_record": None,
    },
    "none-datetime": {"volume_descriptor": {"creation_datetime": None}},
    "volume-descriptor-none": {"volume_descriptor": None, "text_record": {"a": 1}},
    "volume-descriptor-list": {"volume_descriptor": [1, 2]},
    "text-str": {"volume_descriptor": {"a": 1}, "text_record": "text"},
    "file-descriptors-weird": {"file_descriptors": object, "x": 1},
    "ordered": collections.OrderedDict(
        [("text_record", collections.OrderedDict(a=1)), ("volume_descriptor", {"b": 1})]
    ),
    "int-keys": {1: {"blanks": 1}, 2: 3},
    "none": None,
    "list": ["volume_descriptor"],
    "str": "volume_descriptor",
}

# --------------------------------------------------------------------------------------


def describe(exc):
    if exc is None:
        return None
    return (type(exc).__name__, str(exc), describe(exc.__cause__), exc.__suppress_context__)


def show(result):
    if isinstance(result, Group):
        return (
            "Group",
            result.path,
            result.url,
            type(result.data).__name__,
            result.data,
            show(result.attrs),
        )
    if isinstance(result, dict):
        return (
            type(result).__name__,
            [(type(k).__name__, k, type(v).__name__, v) for k, v in result.items()],
        )
    return (type(result).__name__, result)


def outcome(func, *args):
    try:
        before = copy.deepcopy(args)
    except TypeError:  # e.g. mappingproxy
        before = args
    try:
        result = func(*args)
    except Exception as e:  # noqa: BLE001
        described = ("raised", describe(e))
    else:
        described = ("returned", show(result))
    try:
        unchanged = before == args
    except Exception:  # noqa: BLE001
        unchanged = "?"
    return repr((described, ("arguments unchanged", unchanged)))


class Restore:
    def __init__(self):
        self.saved = []

    def setattr(self, obj, name, value):
        self.saved.append((obj, name, getattr(obj, name)))
        setattr(obj, name, value)

    def undo(self):
        for obj, name, value in reversed(self.saved):
            setattr(obj, name, value)
        self.saved.clear()


class RecordingMapper(dict):
    """a mapper that logs the requests it receives"""

    def __init__(self, *args):
        super().__init__(*args)
        self.requests = []

    def __getitem__(self, key):
        self.requests.append(key)
        return super().__getitem__(key)


def run():
    outcomes = {}

    for label, mapping in VOLUME_DESCRIPTORS.items():
        outcomes[f"volume_descriptor:{label}"] = outcome(
            metadata.transform_volume_descriptor, mapping
        )
    for label, mapping in TEXTS.items():
        outcomes[f"text:{label}"] = outcome(metadata.transform_text, mapping)
    # the transformers accept each other's input
    outcomes["text:volume-descriptor"] = outcome(
        metadata.transform_text, full(ALL_VOLUME_DESCRIPTOR_KEYS)
    )
    outcomes["volume_descriptor:text"] = outcome(
        metadata.transform_volume_descriptor, full(ALL_TEXT_KEYS)
    )
    for label, mapping in RECORDS.items():
        outcomes[f"record:{label}"] = outcome(metadata.transform_record, mapping)

    # whole files, through the parser
    mapper = RecordingMapper(FILES)
    for path in [*FILES, "missing", "", None, 3]:
        outcomes[f"parse:{path}"] = outcome(io.parse_data, FILES.get(path, b"not there"))
        outcomes[f"open:{path}"] = outcome(open_volume_directory, mapper, path)
    outcomes["open:requests"] = repr(mapper.requests)

    fs = fsspec.filesystem("memory")
    for path, data in FILES.items():
        fs.pipe_file(f"/equiv3/{path}", data)
    fsmapper = fs.get_mapper("/equiv3")
    for path in [*FILES, "missing"]:
        outcomes[f"open-memory:{path}"] = outcome(open_volume_directory, fsmapper, path)
    fs.rm("/equiv3", recursive=True)

    # results are new plain dicts
    source = {"volume_set_id": "x"}
    result = metadata.transform_volume_descriptor(source)
    outcomes["fresh:volume_descriptor"] = repr((result is source, type(result).__name__))
    result = metadata.transform_text(source)
    outcomes["fresh:text"] = repr((result is source, type(result).__name__))
    record = {"volume_descriptor": source}
    result = metadata.transform_record(record)
    outcomes["fresh:record"] = repr((result.attrs is source, type(result.attrs).__name__))

    # helpers are looked up in the module namespace at call time
    restore = Restore()
    try:
        calls = []

        def fake_normalize(value):
            calls.append(("normalize", value))
            return "normalized"

        restore.setattr(metadata, "normalize_datetime", fake_normalize)
        outcomes["patched:normalize_datetime"] = outcome(
            metadata.transform_volume_descriptor, VOLUME_DESCRIPTORS["both-names-1"]
        )
        outcomes["patched:normalize_datetime:record"] = outcome(
            metadata.transform_record, RECORDS["full"]
        )
        restore.undo()

        def fake_volume_descriptor(mapping):
            calls.append(("volume_descriptor", sorted(mapping)))
            return {"from": "volume descriptor"}

        def fake_text(mapping):
            calls.append(("text", sorted(mapping)))
            return "text"

        restore.setattr(metadata, "transform_volume_descriptor", fake_volume_descriptor)
        restore.setattr(metadata, "transform_text", fake_text)
        outcomes["patched:transformers"] = outcome(metadata.transform_record, RECORDS["text-first"])
        restore.undo()

        def fake_dissoc(keys, mapping):
            calls.append(("dissoc", list(keys), sorted(mapping, key=str)))
            return dict(mapping)

        def fake_rename(mapping, translations):
            calls.append(("rename", sorted(mapping, key=str), dict(translations)))
            return dict(mapping)

        def fake_apply(funcs, mapping, **kwargs):
            calls.append(("apply_to_items", sorted(funcs), sorted(mapping, key=str), kwargs))
            return dict(mapping)

        def fake_remove(mapping):
            calls.append(("remove_nesting_layer", sorted(mapping, key=str)))
            return dict(mapping)

        restore.setattr(metadata, "dissoc", fake_dissoc)
        restore.setattr(metadata, "rename", fake_rename)
        restore.setattr(metadata, "apply_to_items", fake_apply)
        restore.setattr(metadata, "remove_nesting_layer", fake_remove)
        outcomes["patched:helpers:volume_descriptor"] = outcome(
            metadata.transform_volume_descriptor, {"spare": 1, "volume_set_id": 2}
        )
        outcomes["patched:helpers:text"] = outcome(
            metadata.transform_text, {"blanks": 1, "scene_id": 2}
        )
        outcomes["patched:helpers:record"] = outcome(
            metadata.transform_record, {"file_descriptors": 1, "text_record": {"blanks": 1}}
        )
        restore.undo()
        outcomes["patched:calls"] = repr(calls)
    finally:
        restore.undo()

    return outcomes


def check_module_surface():
    for name in [
        "curry", "pipe", "apply_to_items", "dissoc", "Group", "normalize_datetime",
        "remove_nesting_layer", "rename", "transform_volume_descriptor", "transform_text",
        "transform_record",
    ]:  # fmt: skip
        assert hasattr(metadata, name), name


EXPECTED = {'volume_descriptor:empty': "(('returned', ('dict', [])), ('arguments unchanged', True))",
 'volume_descriptor:full': "(('returned', ('dict', [('str', 'control_document_id', 'str', "
                           "'value of superstructure_format_control_document_id'), ('str', "
                           "'control_document_revision_level', 'str', 'value of "
                           "superstructure_format_control_document_revision_level'), ('str', "
                           "'record_format_revision_level', 'str', 'value of "
                           "superstructure_record_format_revision_level'), ('str', "
                           "'software_version', 'str', 'value of "
                           "software_release_and_revision_level'), ('str', "
                           "'physical_volume_id', 'str', 'value of physical_volume_id'), "
                           "('str', 'logical_volume_id', 'str', 'value of logical_volume_id'), "
                           "('str', 'volume_set_id', 'str', 'value of volume_set_id'), ('str', "
                           "'creation_datetime', 'str', '2020-10-11T17:23:37.980000'), ('str', "
                           "'creation_country', 'str', 'value of "
                           "logical_volume_generation_country'), ('str', 'creation_agency', "
                           "'str', 'value of logical_volume_generating_agency'), ('str', "
                           "'creation_facility', 'str', 'value of "
                           "logical_volume_generating_facility')])), ('arguments unchanged', "
                           'True))',
 'volume_descriptor:full-reversed': "(('returned', ('dict', [('str', 'creation_facility', "
                                    "'str', 'value of logical_volume_generating_facility'), "
                                    "('str', 'creation_agency', 'str', 'value of "
                                    "logical_volume_generating_agency'), ('str', "
                                    "'creation_country', 'str', 'value of "
                                    "logical_volume_generation_country'), ('str', "
                                    "'creation_datetime', 'str', "
                                    "'2020-10-11T17:23:37.980000'), ('str', 'volume_set_id', "
                                    "'str', 'value of volume_set_id'), ('str', "
                                    "'logical_volume_id', 'str', 'value of "
                                    "logical_volume_id'), ('str', 'physical_volume_id', 'str', "
                                    "'value of physical_volume_id'), ('str', "
                                    "'software_version', 'str', 'value of "
                                    "software_release_and_revision_level'), ('str', "
                                    "'record_format_revision_level', 'str', 'value of "
                                    "superstructure_record_format_revision_level'), ('str', "
                                    "'control_document_revision_level', 'str', 'value of "
                                    "superstructure_format_control_document_revision_level'), "
                                    "('str', 'control_document_id', 'str', 'value of "
                                    "superstructure_format_control_document_id')])), "
                                    "('arguments unchanged', True))",
 'volume_descriptor:only-ignored': "(('returned', ('dict', [])), ('arguments unchanged', "
                                   'True))',
 'volume_descriptor:unknown-keys': "(('returned', ('dict', [('str', 'a', 'int', 1), ('str', "
                                   "'b', 'list', [1, 2]), ('str', 'c', 'dict', {'d': None}), "
                                   "('str', 'spare1', 'str', ''), ('str', 'blanks2', 'int', "
                                   "1), ('int', 3, 'int', 4)])), ('arguments unchanged', "
                                   'True))',
 'volume_descriptor:already-translated': "(('returned', ('dict', [('str', 'creation_datetime', "
                                         "'str', '1999-12-31T23:59:59.990000'), ('str', "
                                         "'software_version', 'str', '1')])), ('arguments "
                                         "unchanged', True))",
 'volume_descriptor:both-names-1': "(('returned', ('dict', [('str', 'creation_datetime', "
                                   "'str', '1999-12-31T23:59:59.990000'), ('str', 'x', 'int', "
                                   "1)])), ('arguments unchanged', True))",
 'volume_descriptor:both-names-2': "(('returned', ('dict', [('str', 'creation_country', 'str', "
                                   "'second'), ('str', 'y', 'int', 2)])), ('arguments "
                                   "unchanged', True))",
 'volume_descriptor:datetime-14': "(('returned', ('dict', [('str', 'creation_datetime', 'str', "
                                  "'2020-10-11T17:23:03.700000')])), ('arguments unchanged', "
                                  'True))',
 'volume_descriptor:datetime-20': "(('returned', ('dict', [('str', 'creation_datetime', 'str', "
                                  "'2020-10-11T17:23:37.123456')])), ('arguments unchanged', "
                                  'True))',
 'volume_descriptor:datetime-21': "(('raised', ('ValueError', 'unconverted data remains: 7', "
                                  "None, False)), ('arguments unchanged', True))",
 'volume_descriptor:datetime-month-13': "(('returned', ('dict', [('str', 'creation_datetime', "
                                        "'str', '2020-01-31T11:07:23.379800')])), ('arguments "
                                        "unchanged', True))",
 'volume_descriptor:datetime-empty': '((\'raised\', (\'ValueError\', "time data \'\' does not '
                                     'match format \'%Y%m%d%H%M%S%f\'", None, False)), '
                                     "('arguments unchanged', True))",
 'volume_descriptor:datetime-none': "(('raised', ('TypeError', 'strptime() argument 1 must be "
                                    "str, not None', None, False)), ('arguments unchanged', "
                                    'True))',
 'volume_descriptor:datetime-int': "(('raised', ('TypeError', 'strptime() argument 1 must be "
                                   "str, not int', None, False)), ('arguments unchanged', "
                                   'True))',
 'volume_descriptor:datetime-bytes': "(('raised', ('TypeError', 'strptime() argument 1 must be "
                                     "str, not bytes', None, False)), ('arguments unchanged', "
                                     'True))',
 'volume_descriptor:datetime-first-of-two-bad': "(('returned', ('dict', [('str', "
                                                "'creation_datetime', 'str', "
                                                "'2020-10-11T17:23:37.980000')])), ('arguments "
                                                "unchanged', True))",
 'volume_descriptor:str-subclass-keys': "(('returned', ('dict', [('Key', 'volume_set_id', "
                                        "'int', 2)])), ('arguments unchanged', True))",
 'volume_descriptor:tuple-key': "(('returned', ('dict', [('tuple', ('preamble',), 'int', "
                                "1)])), ('arguments unchanged', True))",
 'volume_descriptor:ordered': "(('returned', ('dict', [('str', 'volume_set_id', 'str', 'x'), "
                              "('str', 'creation_agency', 'str', 'JAXA')])), ('arguments "
                              "unchanged', True))",
 'volume_descriptor:defaultdict': "(('returned', ('dict', [('str', 'physical_volume_id', "
                                  "'str', 'p')])), ('arguments unchanged', True))",
 'volume_descriptor:mappingproxy': "(('returned', ('dict', [('str', 'logical_volume_id', "
                                   "'str', 'l')])), ('arguments unchanged', True))",
 'volume_descriptor:none': '((\'raised\', (\'AttributeError\', "\'NoneType\' object has no '
                           'attribute \'items\'", None, False)), (\'arguments unchanged\', '
                           'True))',
 'volume_descriptor:list': '((\'raised\', (\'AttributeError\', "\'list\' object has no '
                           'attribute \'items\'", None, False)), (\'arguments unchanged\', '
                           'True))',
 'volume_descriptor:list-of-pairs': '((\'raised\', (\'AttributeError\', "\'list\' object has '
                                    'no attribute \'items\'", None, False)), (\'arguments '
                                    "unchanged', True))",
 'volume_descriptor:str': '((\'raised\', (\'AttributeError\', "\'str\' object has no attribute '
                          '\'items\'", None, False)), (\'arguments unchanged\', True))',
 'volume_descriptor:int': '((\'raised\', (\'AttributeError\', "\'int\' object has no attribute '
                          '\'items\'", None, False)), (\'arguments unchanged\', True))',
 'text:empty': "(('returned', ('dict', [])), ('arguments unchanged', True))",
 'text:full': "(('returned', ('dict', [('str', 'product_id', 'str', 'value of product_id'), "
              "('str', 'product_creation', 'str', 'value of "
              "location_and_datetime_of_product_creation'), ('str', 'scene_id', 'str', 'value "
              "of scene_id'), ('str', 'scene_location_id', 'str', 'value of "
              "scene_location_id')])), ('arguments unchanged', True))",
 'text:full-reversed': "(('returned', ('dict', [('str', 'scene_location_id', 'str', 'value of "
                       "scene_location_id'), ('str', 'scene_id', 'str', 'value of scene_id'), "
                       "('str', 'product_creation', 'str', 'value of "
                       "location_and_datetime_of_product_creation'), ('str', 'product_id', "
                       "'str', 'value of product_id')])), ('arguments unchanged', True))",
 'text:only-ignored': "(('returned', ('dict', [])), ('arguments unchanged', True))",
 'text:unknown-keys': "(('returned', ('dict', [('str', 'a', 'int', 1), ('str', 'spare', 'str', "
                      "'kept'), ('str', 'local_use_segment', 'str', 'kept'), ('str', "
                      "'blanks1', 'str', '')])), ('arguments unchanged', True))",
 'text:both-names': "(('returned', ('dict', [('str', 'product_creation', 'str', 'second'), "
                    "('str', 'z', 'int', 0)])), ('arguments unchanged', True))",
 'text:datetime-not-normalized': "(('returned', ('dict', [('str', 'creation_datetime', 'str', "
                                 "'2020101117233798')])), ('arguments unchanged', True))",
 'text:str-subclass-keys': "(('returned', ('dict', [('Key', 'scene_id', 'int', 2)])), "
                           "('arguments unchanged', True))",
 'text:ordered': "(('returned', ('dict', [('str', 'scene_id', 'int', 1)])), ('arguments "
                 "unchanged', True))",
 'text:none': '((\'raised\', (\'AttributeError\', "\'NoneType\' object has no attribute '
              '\'items\'", None, False)), (\'arguments unchanged\', True))',
 'text:list': '((\'raised\', (\'AttributeError\', "\'list\' object has no attribute '
              '\'items\'", None, False)), (\'arguments unchanged\', True))',
 'text:str': '((\'raised\', (\'AttributeError\', "\'str\' object has no attribute \'items\'", '
             "None, False)), ('arguments unchanged', True))",
 'text:volume-descriptor': "(('returned', ('dict', [('str', "
                           "'superstructure_format_control_document_id', 'str', 'value of "
                           "superstructure_format_control_document_id'), ('str', "
                           "'superstructure_format_control_document_revision_level', 'str', "
                           "'value of superstructure_format_control_document_revision_level'), "
                           "('str', 'superstructure_record_format_revision_level', 'str', "
                           "'value of superstructure_record_format_revision_level'), ('str', "
                           "'software_release_and_revision_level', 'str', 'value of "
                           "software_release_and_revision_level'), ('str', "
                           "'physical_volume_id', 'str', 'value of physical_volume_id'), "
                           "('str', 'logical_volume_id', 'str', 'value of logical_volume_id'), "
                           "('str', 'volume_set_id', 'str', 'value of volume_set_id'), ('str', "
                           "'total_number_of_physical_volumes_in_logical_volume', 'str', "
                           "'value of total_number_of_physical_volumes_in_logical_volume'), "
                           "('str', 'physical_volume_sequence_number_of_the_first_tape', "
                           "'str', 'value of "
                           "physical_volume_sequence_number_of_the_first_tape'), ('str', "
                           "'physical_volume_sequence_number_of_the_last_tape', 'str', 'value "
                           "of physical_volume_sequence_number_of_the_last_tape'), ('str', "
                           "'physical_volume_sequence_number_of_the_current_tape', 'str', "
                           "'value of physical_volume_sequence_number_of_the_current_tape'), "
                           "('str', 'file_number_in_the_logical_volume', 'str', 'value of "
                           "file_number_in_the_logical_volume'), ('str', "
                           "'logical_volume_within_a_volume_set', 'str', 'value of "
                           "logical_volume_within_a_volume_set'), ('str', "
                           "'logical_volume_number_within_physical_volume', 'str', 'value of "
                           "logical_volume_number_within_physical_volume'), ('str', "
                           "'logical_volume_creation_datetime', 'str', '2020101117233798'), "
                           "('str', 'logical_volume_generation_country', 'str', 'value of "
                           "logical_volume_generation_country'), ('str', "
                           "'logical_volume_generating_agency', 'str', 'value of "
                           "logical_volume_generating_agency'), ('str', "
                           "'logical_volume_generating_facility', 'str', 'value of "
                           "logical_volume_generating_facility'), ('str', "
                           "'number_of_file_pointer_records', 'str', 'value of "
                           "number_of_file_pointer_records'), ('str', "
                           "'number_of_text_records_in_volume_directory', 'str', 'value of "
                           "number_of_text_records_in_volume_directory'), ('str', 'spare', "
                           "'str', 'value of spare'), ('str', 'local_use_segment', 'str', "
                           "'value of local_use_segment')])), ('arguments unchanged', True))",
 'volume_descriptor:text': "(('returned', ('dict', [('str', 'product_id', 'str', 'value of "
                           "product_id'), ('str', 'location_and_datetime_of_product_creation', "
                           "'str', 'value of location_and_datetime_of_product_creation'), "
                           "('str', 'physical_tape_id', 'str', 'value of physical_tape_id'), "
                           "('str', 'scene_id', 'str', 'value of scene_id'), ('str', "
                           "'scene_location_id', 'str', 'value of scene_location_id')])), "
                           "('arguments unchanged', True))",
 'record:empty': "(('returned', ('Group', '/', None, 'dict', {}, ('dict', []))), ('arguments "
                 "unchanged', True))",
 'record:full': "(('returned', ('Group', '/', None, 'dict', {}, ('dict', [('str', "
                "'control_document_id', 'str', 'value of "
                "superstructure_format_control_document_id'), ('str', "
                "'control_document_revision_level', 'str', 'value of "
                "superstructure_format_control_document_revision_level'), ('str', "
                "'record_format_revision_level', 'str', 'value of "
                "superstructure_record_format_revision_level'), ('str', 'software_version', "
                "'str', 'value of software_release_and_revision_level'), ('str', "
                "'physical_volume_id', 'str', 'value of physical_volume_id'), ('str', "
                "'logical_volume_id', 'str', 'value of logical_volume_id'), ('str', "
                "'volume_set_id', 'str', 'value of volume_set_id'), ('str', "
                "'creation_datetime', 'str', '2020-10-11T17:23:37.980000'), ('str', "
                "'creation_country', 'str', 'value of logical_volume_generation_country'), "
                "('str', 'creation_agency', 'str', 'value of "
                "logical_volume_generating_agency'), ('str', 'creation_facility', 'str', "
                "'value of logical_volume_generating_facility'), ('str', 'product_id', 'str', "
                "'value of product_id'), ('str', 'product_creation', 'str', 'value of "
                "location_and_datetime_of_product_creation'), ('str', 'scene_id', 'str', "
                "'value of scene_id'), ('str', 'scene_location_id', 'str', 'value of "
                "scene_location_id')]))), ('arguments unchanged', True))",
 'record:text-first': "(('returned', ('Group', '/', None, 'dict', {}, ('dict', [('str', "
                      "'product_id', 'str', 'value of product_id'), ('str', "
                      "'product_creation', 'str', 'value of "
                      "location_and_datetime_of_product_creation'), ('str', 'scene_id', 'str', "
                      "'value of scene_id'), ('str', 'scene_location_id', 'str', 'value of "
                      "scene_location_id'), ('str', 'control_document_id', 'str', 'value of "
                      "superstructure_format_control_document_id'), ('str', "
                      "'control_document_revision_level', 'str', 'value of "
                      "superstructure_format_control_document_revision_level'), ('str', "
                      "'record_format_revision_level', 'str', 'value of "
                      "superstructure_record_format_revision_level'), ('str', "
                      "'software_version', 'str', 'value of "
                      "software_release_and_revision_level'), ('str', 'physical_volume_id', "
                      "'str', 'value of physical_volume_id'), ('str', 'logical_volume_id', "
                      "'str', 'value of logical_volume_id'), ('str', 'volume_set_id', 'str', "
                      "'value of volume_set_id'), ('str', 'creation_datetime', 'str', "
                      "'2020-10-11T17:23:37.980000'), ('str', 'creation_country', 'str', "
                      "'value of logical_volume_generation_country'), ('str', "
                      "'creation_agency', 'str', 'value of logical_volume_generating_agency'), "
                      "('str', 'creation_facility', 'str', 'value of "
                      "logical_volume_generating_facility')]))), ('arguments unchanged', "
                      'True))',
 'record:only-file-descriptors': "(('returned', ('Group', '/', None, 'dict', {}, ('dict', "
                                 "[]))), ('arguments unchanged', True))",
 'record:only-volume-descriptor': "(('returned', ('Group', '/', None, 'dict', {}, ('dict', "
                                  "[('str', 'volume_set_id', 'str', 'v')]))), ('arguments "
                                  "unchanged', True))",
 'record:only-text': "(('returned', ('Group', '/', None, 'dict', {}, ('dict', [('str', "
                     "'scene_id', 'str', 's')]))), ('arguments unchanged', True))",
 'record:extra-scalars': "(('returned', ('Group', '/', None, 'dict', {}, ('dict', [('str', "
                         "'a', 'int', 1), ('str', 'b', 'int', 2), ('str', 'c', 'list', [3]), "
                         "('str', 'd', 'int', 4)]))), ('arguments unchanged', True))",
 'record:extra-groups': "(('returned', ('Group', '/', None, 'dict', {}, ('dict', [('str', "
                        "'preamble', 'str', 'kept'), ('str', 'blanks', 'str', 'kept'), ('str', "
                        "'e', 'int', 5), ('str', 'deep', 'dict', {'deeper': 1})]))), "
                        "('arguments unchanged', True))",
 'record:collisions': "(('returned', ('Group', '/', None, 'dict', {}, ('dict', [('str', 'a', "
                      "'str', 'text'), ('str', 'scene_id', 'str', 'text'), ('str', 'b', 'str', "
                      "'top again')]))), ('arguments unchanged', True))",
 'record:bad-datetime': '((\'raised\', (\'ValueError\', "time data \'x\' does not match format '
                        '\'%Y%m%d%H%M%S%f\'", None, False)), (\'arguments unchanged\', True))',
 'record:none-datetime': "(('raised', ('TypeError', 'strptime() argument 1 must be str, not "
                         "None', None, False)), ('arguments unchanged', True))",
 'record:volume-descriptor-none': '((\'raised\', (\'AttributeError\', "\'NoneType\' object has '
                                  'no attribute \'items\'", None, False)), (\'arguments '
                                  "unchanged', True))",
 'record:volume-descriptor-list': '((\'raised\', (\'AttributeError\', "\'list\' object has no '
                                  'attribute \'items\'", None, False)), (\'arguments '
                                  "unchanged', True))",
 'record:text-str': '((\'raised\', (\'AttributeError\', "\'str\' object has no attribute '
                    '\'items\'", None, False)), (\'arguments unchanged\', True))',
 'record:file-descriptors-weird': "(('returned', ('Group', '/', None, 'dict', {}, ('dict', "
                                  "[('str', 'x', 'int', 1)]))), ('arguments unchanged', True))",
 'record:ordered': "(('returned', ('Group', '/', None, 'dict', {}, ('dict', [('str', 'a', "
                   "'int', 1), ('str', 'b', 'int', 1)]))), ('arguments unchanged', True))",
 'record:int-keys': "(('returned', ('Group', '/', None, 'dict', {}, ('dict', [('str', "
                    "'blanks', 'int', 1), ('int', 2, 'int', 3)]))), ('arguments unchanged', "
                    'True))',
 'record:none': '((\'raised\', (\'AttributeError\', "\'NoneType\' object has no attribute '
                '\'items\'", None, False)), (\'arguments unchanged\', True))',
 'record:list': '((\'raised\', (\'AttributeError\', "\'list\' object has no attribute '
                '\'items\'", None, False)), (\'arguments unchanged\', True))',
 'record:str': '((\'raised\', (\'AttributeError\', "\'str\' object has no attribute '
               '\'items\'", None, False)), (\'arguments unchanged\', True))',
 'parse:vol0': "(('returned', ('dict', [('str', 'volume_descriptor', 'dict', {'preamble': "
               "{'record_sequence_number': 1, 'first_record_subtype': 192, 'record_type': 192, "
               "'second_record_subtype': 18, 'third_record_subtype': 18, 'record_length': "
               "360}, 'ascii_ebcdic_flag': 'A', 'blanks': '', "
               "'superstructure_format_control_document_id': 'CEOS-SAR', "
               "'superstructure_format_control_document_revision_level': 'A', "
               "'superstructure_record_format_revision_level': 'B', "
               "'software_release_and_revision_level': '001.001', 'physical_volume_id': "
               "'PHYSVOL', 'logical_volume_id': 'LOGVOL', 'volume_set_id': 'VOLSET', "
               "'total_number_of_physical_volumes_in_logical_volume': 1, "
               "'physical_volume_sequence_number_of_the_first_tape': 1, "
               "'physical_volume_sequence_number_of_the_last_tape': 1, "
               "'physical_volume_sequence_number_of_the_current_tape': 1, "
               "'file_number_in_the_logical_volume': 2, 'logical_volume_within_a_volume_set': "
               "-1, 'logical_volume_number_within_physical_volume': 4, "
               "'logical_volume_creation_datetime': '2020101117233798', "
               "'logical_volume_generation_country': 'JAPAN', "
               "'logical_volume_generating_agency': 'JAXA', "
               "'logical_volume_generating_facility': 'EICS', "
               "'number_of_file_pointer_records': 0, "
               "'number_of_text_records_in_volume_directory': 1, 'spare': '', "
               "'local_use_segment': 'local'}), ('str', 'file_descriptors', 'list', []), "
               "('str', 'text_record', 'dict', {'preamble': {'record_sequence_number': 2, "
               "'first_record_subtype': 192, 'record_type': 192, 'second_record_subtype': 18, "
               "'third_record_subtype': 18, 'record_length': 360}, 'ascii_ebcdic_flag': 'A', "
               "'blanks': '', 'product_id': 'PRODUCT:WWDR1.5RUA', "
               "'location_and_datetime_of_product_creation': 'PROCESS:JAPAN-JAXA-EICS  "
               "20150313 062719', 'physical_tape_id': 'TAPE ID', 'scene_id': "
               "'ORBIT:ALOS2014410740-140829', 'scene_location_id': 'SCENE LOCATION'})])), "
               "('arguments unchanged', True))",
 'open:vol0': "(('returned', ('Group', '/', None, 'dict', {}, ('dict', [('str', "
              "'control_document_id', 'str', 'CEOS-SAR'), ('str', "
              "'control_document_revision_level', 'str', 'A'), ('str', "
              "'record_format_revision_level', 'str', 'B'), ('str', 'software_version', 'str', "
              "'001.001'), ('str', 'physical_volume_id', 'str', 'PHYSVOL'), ('str', "
              "'logical_volume_id', 'str', 'LOGVOL'), ('str', 'volume_set_id', 'str', "
              "'VOLSET'), ('str', 'creation_datetime', 'str', '2020-10-11T17:23:37.980000'), "
              "('str', 'creation_country', 'str', 'JAPAN'), ('str', 'creation_agency', 'str', "
              "'JAXA'), ('str', 'creation_facility', 'str', 'EICS'), ('str', 'product_id', "
              "'str', 'PRODUCT:WWDR1.5RUA'), ('str', 'product_creation', 'str', "
              "'PROCESS:JAPAN-JAXA-EICS  20150313 062719'), ('str', 'scene_id', 'str', "
              "'ORBIT:ALOS2014410740-140829'), ('str', 'scene_location_id', 'str', 'SCENE "
              "LOCATION')]))), ('arguments unchanged', True))",
 'parse:vol1': "(('returned', ('dict', [('str', 'volume_descriptor', 'dict', {'preamble': "
               "{'record_sequence_number': 1, 'first_record_subtype': 192, 'record_type': 192, "
               "'second_record_subtype': 18, 'third_record_subtype': 18, 'record_length': "
               "360}, 'ascii_ebcdic_flag': 'A', 'blanks': '', "
               "'superstructure_format_control_document_id': 'CEOS-SAR', "
               "'superstructure_format_control_document_revision_level': 'A', "
               "'superstructure_record_format_revision_level': 'B', "
               "'software_release_and_revision_level': '001.001', 'physical_volume_id': "
               "'PHYSVOL', 'logical_volume_id': 'LOGVOL', 'volume_set_id': 'VOLSET', "
               "'total_number_of_physical_volumes_in_logical_volume': 1, "
               "'physical_volume_sequence_number_of_the_first_tape': 1, "
               "'physical_volume_sequence_number_of_the_last_tape': 1, "
               "'physical_volume_sequence_number_of_the_current_tape': 1, "
               "'file_number_in_the_logical_volume': 2, 'logical_volume_within_a_volume_set': "
               "-1, 'logical_volume_number_within_physical_volume': 4, "
               "'logical_volume_creation_datetime': '2020101117233798', "
               "'logical_volume_generation_country': 'JAPAN', "
               "'logical_volume_generating_agency': 'JAXA', "
               "'logical_volume_generating_facility': 'EICS', "
               "'number_of_file_pointer_records': 1, "
               "'number_of_text_records_in_volume_directory': 1, 'spare': '', "
               "'local_use_segment': 'local'}), ('str', 'file_descriptors', 'list', "
               "[{'preamble': {'record_sequence_number': 2, 'first_record_subtype': 192, "
               "'record_type': 192, 'second_record_subtype': 18, 'third_record_subtype': 18, "
               "'record_length': 360}, 'ascii_ebcdic_flag': 'A', 'blanks': '', "
               "'referenced_file_number': 1, 'referenced_file_name_id': 'FILE0', "
               "'referenced_file_class': 'SARLEADER FILE', 'referenced_file_class_code': "
               "'SARL', 'referenced_file_data_type': 'MIXED BINARY AND ASCII', "
               "'referenced_file_data_type_code': 'MBAA', "
               "'number_of_records_in_referenced_file': 10, "
               "'length_of_the_first_record_in_referenced_file': 720, "
               "'maximum_record_length_in_referenced_file': 9860, "
               "'referenced_file_record_length_type': 'VARIABLE LEN', "
               "'referenced_file_record_length_type_code': 'VARE', "
               "'number_of_the_physical_volume_set_containing_the_first_record_of_the_file': "
               "1, 'number_of_the_physical_volume_set_containing_the_last_record_of_the_file': "
               "1, 'record_number_of_the_first_record_appearing_on_this_physical_volume': 1, "
               "'record_number_of_the_last_record_appearing_on_this_physical_volume': 10, "
               "'spare': '', 'local_use_segment': ''}]), ('str', 'text_record', 'dict', "
               "{'preamble': {'record_sequence_number': 3, 'first_record_subtype': 192, "
               "'record_type': 192, 'second_record_subtype': 18, 'third_record_subtype': 18, "
               "'record_length': 360}, 'ascii_ebcdic_flag': 'A', 'blanks': '', 'product_id': "
               "'PRODUCT:WWDR1.5RUA', 'location_and_datetime_of_product_creation': "
               "'PROCESS:JAPAN-JAXA-EICS  20150313 062719', 'physical_tape_id': 'TAPE ID', "
               "'scene_id': 'ORBIT:ALOS2014410740-140829', 'scene_location_id': 'SCENE "
               "LOCATION'})])), ('arguments unchanged', True))",
 'open:vol1': "(('returned', ('Group', '/', None, 'dict', {}, ('dict', [('str', "
              "'control_document_id', 'str', 'CEOS-SAR'), ('str', "
              "'control_document_revision_level', 'str', 'A'), ('str', "
              "'record_format_revision_level', 'str', 'B'), ('str', 'software_version', 'str', "
              "'001.001'), ('str', 'physical_volume_id', 'str', 'PHYSVOL'), ('str', "
              "'logical_volume_id', 'str', 'LOGVOL'), ('str', 'volume_set_id', 'str', "
              "'VOLSET'), ('str', 'creation_datetime', 'str', '2020-10-11T17:23:37.980000'), "
              "('str', 'creation_country', 'str', 'JAPAN'), ('str', 'creation_agency', 'str', "
              "'JAXA'), ('str', 'creation_facility', 'str', 'EICS'), ('str', 'product_id', "
              "'str', 'PRODUCT:WWDR1.5RUA'), ('str', 'product_creation', 'str', "
              "'PROCESS:JAPAN-JAXA-EICS  20150313 062719'), ('str', 'scene_id', 'str', "
              "'ORBIT:ALOS2014410740-140829'), ('str', 'scene_location_id', 'str', 'SCENE "
              "LOCATION')]))), ('arguments unchanged', True))",
 'parse:vol4': "(('returned', ('dict', [('str', 'volume_descriptor', 'dict', {'preamble': "
               "{'record_sequence_number': 1, 'first_record_subtype': 192, 'record_type': 192, "
               "'second_record_subtype': 18, 'third_record_subtype': 18, 'record_length': "
               "360}, 'ascii_ebcdic_flag': 'E', 'blanks': '', "
               "'superstructure_format_control_document_id': 'CEOS-SAR', "
               "'superstructure_format_control_document_revision_level': 'A', "
               "'superstructure_record_format_revision_level': 'B', "
               "'software_release_and_revision_level': '001.001', 'physical_volume_id': "
               "'PHYSVOL', 'logical_volume_id': 'LOGVOL', 'volume_set_id': 'VOLSET', "
               "'total_number_of_physical_volumes_in_logical_volume': 1, "
               "'physical_volume_sequence_number_of_the_first_tape': 1, "
               "'physical_volume_sequence_number_of_the_last_tape': 1, "
               "'physical_volume_sequence_number_of_the_current_tape': 1, "
               "'file_number_in_the_logical_volume': 2, 'logical_volume_within_a_volume_set': "
               "-1, 'logical_volume_number_within_physical_volume': 4, "
               "'logical_volume_creation_datetime': '2020101117233798', "
               "'logical_volume_generation_country': 'JAPAN', "
               "'logical_volume_generating_agency': 'JAXA', "
               "'logical_volume_generating_facility': 'EICS', "
               "'number_of_file_pointer_records': 4, "
               "'number_of_text_records_in_volume_directory': 1, 'spare': 'spare!', "
               "'local_use_segment': 'local'}), ('str', 'file_descriptors', 'list', "
               "[{'preamble': {'record_sequence_number': 2, 'first_record_subtype': 192, "
               "'record_type': 192, 'second_record_subtype': 18, 'third_record_subtype': 18, "
               "'record_length': 360}, 'ascii_ebcdic_flag': 'A', 'blanks': '', "
               "'referenced_file_number': 1, 'referenced_file_name_id': 'FILE0', "
               "'referenced_file_class': 'SARLEADER FILE', 'referenced_file_class_code': "
               "'SARL', 'referenced_file_data_type': 'MIXED BINARY AND ASCII', "
               "'referenced_file_data_type_code': 'MBAA', "
               "'number_of_records_in_referenced_file': 10, "
               "'length_of_the_first_record_in_referenced_file': 720, "
               "'maximum_record_length_in_referenced_file': 9860, "
               "'referenced_file_record_length_type': 'VARIABLE LEN', "
               "'referenced_file_record_length_type_code': 'VARE', "
               "'number_of_the_physical_volume_set_containing_the_first_record_of_the_file': "
               "1, 'number_of_the_physical_volume_set_containing_the_last_record_of_the_file': "
               "1, 'record_number_of_the_first_record_appearing_on_this_physical_volume': 1, "
               "'record_number_of_the_last_record_appearing_on_this_physical_volume': 10, "
               "'spare': '', 'local_use_segment': ''}, {'preamble': {'record_sequence_number': "
               "3, 'first_record_subtype': 192, 'record_type': 192, 'second_record_subtype': "
               "18, 'third_record_subtype': 18, 'record_length': 360}, 'ascii_ebcdic_flag': "
               "'A', 'blanks': '', 'referenced_file_number': 2, 'referenced_file_name_id': "
               "'FILE1', 'referenced_file_class': 'SARLEADER FILE', "
               "'referenced_file_class_code': 'SARL', 'referenced_file_data_type': 'MIXED "
               "BINARY AND ASCII', 'referenced_file_data_type_code': 'MBAA', "
               "'number_of_records_in_referenced_file': 11, "
               "'length_of_the_first_record_in_referenced_file': 720, "
               "'maximum_record_length_in_referenced_file': 9860, "
               "'referenced_file_record_length_type': 'VARIABLE LEN', "
               "'referenced_file_record_length_type_code': 'VARE', "
               "'number_of_the_physical_volume_set_containing_the_first_record_of_the_file': "
               "1, 'number_of_the_physical_volume_set_containing_the_last_record_of_the_file': "
               "1, 'record_number_of_the_first_record_appearing_on_this_physical_volume': 1, "
               "'record_number_of_the_last_record_appearing_on_this_physical_volume': 11, "
               "'spare': '', 'local_use_segment': ''}, {'preamble': {'record_sequence_number': "
               "4, 'first_record_subtype': 192, 'record_type': 192, 'second_record_subtype': "
               "18, 'third_record_subtype': 18, 'record_length': 360}, 'ascii_ebcdic_flag': "
               "'A', 'blanks': '', 'referenced_file_number': 3, 'referenced_file_name_id': "
               "'FILE2', 'referenced_file_class': 'SARLEADER FILE', "
               "'referenced_file_class_code': 'SARL', 'referenced_file_data_type': 'MIXED "
               "BINARY AND ASCII', 'referenced_file_data_type_code': 'MBAA', "
               "'number_of_records_in_referenced_file': 12, "
               "'length_of_the_first_record_in_referenced_file': 720, "
               "'maximum_record_length_in_referenced_file': 9860, "
               "'referenced_file_record_length_type': 'VARIABLE LEN', "
               "'referenced_file_record_length_type_code': 'VARE', "
               "'number_of_the_physical_volume_set_containing_the_first_record_of_the_file': "
               "1, 'number_of_the_physical_volume_set_containing_the_last_record_of_the_file': "
               "1, 'record_number_of_the_first_record_appearing_on_this_physical_volume': 1, "
               "'record_number_of_the_last_record_appearing_on_this_physical_volume': 12, "
               "'spare': '', 'local_use_segment': ''}, {'preamble': {'record_sequence_number': "
               "5, 'first_record_subtype': 192, 'record_type': 192, 'second_record_subtype': "
               "18, 'third_record_subtype': 18, 'record_length': 360}, 'ascii_ebcdic_flag': "
               "'A', 'blanks': '', 'referenced_file_number': 4, 'referenced_file_name_id': "
               "'FILE3', 'referenced_file_class': 'SARLEADER FILE', "
               "'referenced_file_class_code': 'SARL', 'referenced_file_data_type': 'MIXED "
               "BINARY AND ASCII', 'referenced_file_data_type_code': 'MBAA', "
               "'number_of_records_in_referenced_file': 13, "
               "'length_of_the_first_record_in_referenced_file': 720, "
               "'maximum_record_length_in_referenced_file': 9860, "
               "'referenced_file_record_length_type': 'VARIABLE LEN', "
               "'referenced_file_record_length_type_code': 'VARE', "
               "'number_of_the_physical_volume_set_containing_the_first_record_of_the_file': "
               "1, 'number_of_the_physical_volume_set_containing_the_last_record_of_the_file': "
               "1, 'record_number_of_the_first_record_appearing_on_this_physical_volume': 1, "
               "'record_number_of_the_last_record_appearing_on_this_physical_volume': 13, "
               "'spare': '', 'local_use_segment': ''}]), ('str', 'text_record', 'dict', "
               "{'preamble': {'record_sequence_number': 6, 'first_record_subtype': 192, "
               "'record_type': 192, 'second_record_subtype': 18, 'third_record_subtype': 18, "
               "'record_length': 360}, 'ascii_ebcdic_flag': 'A', 'blanks': '', 'product_id': "
               "'PRODUCT:WWDR1.5RUA', 'location_and_datetime_of_product_creation': "
               "'PROCESS:JAPAN-JAXA-EICS  20150313 062719', 'physical_tape_id': 'TAPE ID', "
               "'scene_id': 'ORBIT:ALOS2014410740-140829', 'scene_location_id': 'SCENE "
               "LOCATION'})])), ('arguments unchanged', True))",
 'open:vol4': "(('returned', ('Group', '/', None, 'dict', {}, ('dict', [('str', "
              "'control_document_id', 'str', 'CEOS-SAR'), ('str', "
              "'control_document_revision_level', 'str', 'A'), ('str', "
              "'record_format_revision_level', 'str', 'B'), ('str', 'software_version', 'str', "
              "'001.001'), ('str', 'physical_volume_id', 'str', 'PHYSVOL'), ('str', "
              "'logical_volume_id', 'str', 'LOGVOL'), ('str', 'volume_set_id', 'str', "
              "'VOLSET'), ('str', 'creation_datetime', 'str', '2020-10-11T17:23:37.980000'), "
              "('str', 'creation_country', 'str', 'JAPAN'), ('str', 'creation_agency', 'str', "
              "'JAXA'), ('str', 'creation_facility', 'str', 'EICS'), ('str', 'product_id', "
              "'str', 'PRODUCT:WWDR1.5RUA'), ('str', 'product_creation', 'str', "
              "'PROCESS:JAPAN-JAXA-EICS  20150313 062719'), ('str', 'scene_id', 'str', "
              "'ORBIT:ALOS2014410740-140829'), ('str', 'scene_location_id', 'str', 'SCENE "
              "LOCATION')]))), ('arguments unchanged', True))",
 'parse:vol-early': "(('returned', ('dict', [('str', 'volume_descriptor', 'dict', {'preamble': "
                    "{'record_sequence_number': 1, 'first_record_subtype': 192, 'record_type': "
                    "192, 'second_record_subtype': 18, 'third_record_subtype': 18, "
                    "'record_length': 360}, 'ascii_ebcdic_flag': 'A', 'blanks': '', "
                    "'superstructure_format_control_document_id': 'CEOS-SAR', "
                    "'superstructure_format_control_document_revision_level': 'A', "
                    "'superstructure_record_format_revision_level': 'B', "
                    "'software_release_and_revision_level': '001.001', 'physical_volume_id': "
                    "'PHYSVOL', 'logical_volume_id': 'LOGVOL', 'volume_set_id': 'VOLSET', "
                    "'total_number_of_physical_volumes_in_logical_volume': 1, "
                    "'physical_volume_sequence_number_of_the_first_tape': 1, "
                    "'physical_volume_sequence_number_of_the_last_tape': 1, "
                    "'physical_volume_sequence_number_of_the_current_tape': 1, "
                    "'file_number_in_the_logical_volume': 2, "
                    "'logical_volume_within_a_volume_set': -1, "
                    "'logical_volume_number_within_physical_volume': 4, "
                    "'logical_volume_creation_datetime': '1999123123595999', "
                    "'logical_volume_generation_country': 'JAPAN', "
                    "'logical_volume_generating_agency': 'JAXA', "
                    "'logical_volume_generating_facility': 'EICS', "
                    "'number_of_file_pointer_records': 3, "
                    "'number_of_text_records_in_volume_directory': 1, 'spare': '', "
                    "'local_use_segment': 'local'}), ('str', 'file_descriptors', 'list', "
                    "[{'preamble': {'record_sequence_number': 2, 'first_record_subtype': 192, "
                    "'record_type': 192, 'second_record_subtype': 18, 'third_record_subtype': "
                    "18, 'record_length': 360}, 'ascii_ebcdic_flag': 'A', 'blanks': '', "
                    "'referenced_file_number': 1, 'referenced_file_name_id': 'FILE0', "
                    "'referenced_file_class': 'SARLEADER FILE', 'referenced_file_class_code': "
                    "'SARL', 'referenced_file_data_type': 'MIXED BINARY AND ASCII', "
                    "'referenced_file_data_type_code': 'MBAA', "
                    "'number_of_records_in_referenced_file': 10, "
                    "'length_of_the_first_record_in_referenced_file': 720, "
                    "'maximum_record_length_in_referenced_file': 9860, "
                    "'referenced_file_record_length_type': 'VARIABLE LEN', "
                    "'referenced_file_record_length_type_code': 'VARE', "
                    "'number_of_the_physical_volume_set_containing_the_first_record_of_the_file': "
                    '1, '
                    "'number_of_the_physical_volume_set_containing_the_last_record_of_the_file': "
                    "1, 'record_number_of_the_first_record_appearing_on_this_physical_volume': "
                    "1, 'record_number_of_the_last_record_appearing_on_this_physical_volume': "
                    "10, 'spare': '', 'local_use_segment': ''}, {'preamble': "
                    "{'record_sequence_number': 3, 'first_record_subtype': 192, 'record_type': "
                    "192, 'second_record_subtype': 18, 'third_record_subtype': 18, "
                    "'record_length': 360}, 'ascii_ebcdic_flag': 'A', 'blanks': '', "
                    "'referenced_file_number': 2, 'referenced_file_name_id': 'FILE1', "
                    "'referenced_file_class': 'SARLEADER FILE', 'referenced_file_class_code': "
                    "'SARL', 'referenced_file_data_type': 'MIXED BINARY AND ASCII', "
                    "'referenced_file_data_type_code': 'MBAA', "
                    "'number_of_records_in_referenced_file': 11, "
                    "'length_of_the_first_record_in_referenced_file': 720, "
                    "'maximum_record_length_in_referenced_file': 9860, "
                    "'referenced_file_record_length_type': 'VARIABLE LEN', "
                    "'referenced_file_record_length_type_code': 'VARE', "
                    "'number_of_the_physical_volume_set_containing_the_first_record_of_the_file': "
                    '1, '
                    "'number_of_the_physical_volume_set_containing_the_last_record_of_the_file': "
                    "1, 'record_number_of_the_first_record_appearing_on_this_physical_volume': "
                    "1, 'record_number_of_the_last_record_appearing_on_this_physical_volume': "
                    "11, 'spare': '', 'local_use_segment': ''}, {'preamble': "
                    "{'record_sequence_number': 4, 'first_record_subtype': 192, 'record_type': "
                    "192, 'second_record_subtype': 18, 'third_record_subtype': 18, "
                    "'record_length': 360}, 'ascii_ebcdic_flag': 'A', 'blanks': '', "
                    "'referenced_file_number': 3, 'referenced_file_name_id': 'FILE2', "
                    "'referenced_file_class': 'SARLEADER FILE', 'referenced_file_class_code': "
                    "'SARL', 'referenced_file_data_type': 'MIXED BINARY AND ASCII', "
                    "'referenced_file_data_type_code': 'MBAA', "
                    "'number_of_records_in_referenced_file': 12, "
                    "'length_of_the_first_record_in_referenced_file': 720, "
                    "'maximum_record_length_in_referenced_file': 9860, "
                    "'referenced_file_record_length_type': 'VARIABLE LEN', "
                    "'referenced_file_record_length_type_code': 'VARE', "
                    "'number_of_the_physical_volume_set_containing_the_first_record_of_the_file': "
                    '1, '
                    "'number_of_the_physical_volume_set_containing_the_last_record_of_the_file': "
                    "1, 'record_number_of_the_first_record_appearing_on_this_physical_volume': "
                    "1, 'record_number_of_the_last_record_appearing_on_this_physical_volume': "
                    "12, 'spare': '', 'local_use_segment': ''}]), ('str', 'text_record', "
                    "'dict', {'preamble': {'record_sequence_number': 5, "
                    "'first_record_subtype': 192, 'record_type': 192, 'second_record_subtype': "
                    "18, 'third_record_subtype': 18, 'record_length': 360}, "
                    "'ascii_ebcdic_flag': 'A', 'blanks': '', 'product_id': "
                    "'PRODUCT:WWDR1.5RUA', 'location_and_datetime_of_product_creation': "
                    "'PROCESS:JAPAN-JAXA-EICS  20150313 062719', 'physical_tape_id': 'TAPE "
                    "ID', 'scene_id': 'ORBIT:ALOS2014410740-140829', 'scene_location_id': "
                    "'SCENE LOCATION'})])), ('arguments unchanged', True))",
 'open:vol-early': "(('returned', ('Group', '/', None, 'dict', {}, ('dict', [('str', "
                   "'control_document_id', 'str', 'CEOS-SAR'), ('str', "
                   "'control_document_revision_level', 'str', 'A'), ('str', "
                   "'record_format_revision_level', 'str', 'B'), ('str', 'software_version', "
                   "'str', '001.001'), ('str', 'physical_volume_id', 'str', 'PHYSVOL'), "
                   "('str', 'logical_volume_id', 'str', 'LOGVOL'), ('str', 'volume_set_id', "
                   "'str', 'VOLSET'), ('str', 'creation_datetime', 'str', "
                   "'1999-12-31T23:59:59.990000'), ('str', 'creation_country', 'str', "
                   "'JAPAN'), ('str', 'creation_agency', 'str', 'JAXA'), ('str', "
                   "'creation_facility', 'str', 'EICS'), ('str', 'product_id', 'str', "
                   "'PRODUCT:WWDR1.5RUA'), ('str', 'product_creation', 'str', "
                   "'PROCESS:JAPAN-JAXA-EICS  20150313 062719'), ('str', 'scene_id', 'str', "
                   "'ORBIT:ALOS2014410740-140829'), ('str', 'scene_location_id', 'str', 'SCENE "
                   "LOCATION')]))), ('arguments unchanged', True))",
 'parse:vol-short-datetime': "(('returned', ('dict', [('str', 'volume_descriptor', 'dict', "
                             "{'preamble': {'record_sequence_number': 1, "
                             "'first_record_subtype': 192, 'record_type': 192, "
                             "'second_record_subtype': 18, 'third_record_subtype': 18, "
                             "'record_length': 360}, 'ascii_ebcdic_flag': 'A', 'blanks': '', "
                             "'superstructure_format_control_document_id': 'CEOS-SAR', "
                             "'superstructure_format_control_document_revision_level': 'A', "
                             "'superstructure_record_format_revision_level': 'B', "
                             "'software_release_and_revision_level': '001.001', "
                             "'physical_volume_id': 'PHYSVOL', 'logical_volume_id': 'LOGVOL', "
                             "'volume_set_id': 'VOLSET', "
                             "'total_number_of_physical_volumes_in_logical_volume': 1, "
                             "'physical_volume_sequence_number_of_the_first_tape': 1, "
                             "'physical_volume_sequence_number_of_the_last_tape': 1, "
                             "'physical_volume_sequence_number_of_the_current_tape': 1, "
                             "'file_number_in_the_logical_volume': 2, "
                             "'logical_volume_within_a_volume_set': -1, "
                             "'logical_volume_number_within_physical_volume': 4, "
                             "'logical_volume_creation_datetime': '20201011172337', "
                             "'logical_volume_generation_country': 'JAPAN', "
                             "'logical_volume_generating_agency': 'JAXA', "
                             "'logical_volume_generating_facility': 'EICS', "
                             "'number_of_file_pointer_records': 2, "
                             "'number_of_text_records_in_volume_directory': 1, 'spare': '', "
                             "'local_use_segment': 'local'}), ('str', 'file_descriptors', "
                             "'list', [{'preamble': {'record_sequence_number': 2, "
                             "'first_record_subtype': 192, 'record_type': 192, "
                             "'second_record_subtype': 18, 'third_record_subtype': 18, "
                             "'record_length': 360}, 'ascii_ebcdic_flag': 'A', 'blanks': '', "
                             "'referenced_file_number': 1, 'referenced_file_name_id': 'FILE0', "
                             "'referenced_file_class': 'SARLEADER FILE', "
                             "'referenced_file_class_code': 'SARL', "
                             "'referenced_file_data_type': 'MIXED BINARY AND ASCII', "
                             "'referenced_file_data_type_code': 'MBAA', "
                             "'number_of_records_in_referenced_file': 10, "
                             "'length_of_the_first_record_in_referenced_file': 720, "
                             "'maximum_record_length_in_referenced_file': 9860, "
                             "'referenced_file_record_length_type': 'VARIABLE LEN', "
                             "'referenced_file_record_length_type_code': 'VARE', "
                             "'number_of_the_physical_volume_set_containing_the_first_record_of_the_file': "
                             '1, '
                             "'number_of_the_physical_volume_set_containing_the_last_record_of_the_file': "
                             '1, '
                             "'record_number_of_the_first_record_appearing_on_this_physical_volume': "
                             '1, '
                             "'record_number_of_the_last_record_appearing_on_this_physical_volume': "
                             "10, 'spare': '', 'local_use_segment': ''}, {'preamble': "
                             "{'record_sequence_number': 3, 'first_record_subtype': 192, "
                             "'record_type': 192, 'second_record_subtype': 18, "
                             "'third_record_subtype': 18, 'record_length': 360}, "
                             "'ascii_ebcdic_flag': 'A', 'blanks': '', "
                             "'referenced_file_number': 2, 'referenced_file_name_id': 'FILE1', "
                             "'referenced_file_class': 'SARLEADER FILE', "
                             "'referenced_file_class_code': 'SARL', "
                             "'referenced_file_data_type': 'MIXED BINARY AND ASCII', "
                             "'referenced_file_data_type_code': 'MBAA', "
                             "'number_of_records_in_referenced_file': 11, "
                             "'length_of_the_first_record_in_referenced_file': 720, "
                             "'maximum_record_length_in_referenced_file': 9860, "
                             "'referenced_file_record_length_type': 'VARIABLE LEN', "
                             "'referenced_file_record_length_type_code': 'VARE', "
                             "'number_of_the_physical_volume_set_containing_the_first_record_of_the_file': "
                             '1, '
                             "'number_of_the_physical_volume_set_containing_the_last_record_of_the_file': "
                             '1, '
                             "'record_number_of_the_first_record_appearing_on_this_physical_volume': "
                             '1, '
                             "'record_number_of_the_last_record_appearing_on_this_physical_volume': "
                             "11, 'spare': '', 'local_use_segment': ''}]), ('str', "
                             "'text_record', 'dict', {'preamble': {'record_sequence_number': "
                             "4, 'first_record_subtype': 192, 'record_type': 192, "
                             "'second_record_subtype': 18, 'third_record_subtype': 18, "
                             "'record_length': 360}, 'ascii_ebcdic_flag': 'A', 'blanks': '', "
                             "'product_id': 'PRODUCT:WWDR1.5RUA', "
                             "'location_and_datetime_of_product_creation': "
                             "'PROCESS:JAPAN-JAXA-EICS  20150313 062719', 'physical_tape_id': "
                             "'TAPE ID', 'scene_id': 'ORBIT:ALOS2014410740-140829', "
                             "'scene_location_id': 'SCENE LOCATION'})])), ('arguments "
                             "unchanged', True))",
 'open:vol-short-datetime': "(('returned', ('Group', '/', None, 'dict', {}, ('dict', [('str', "
                            "'control_document_id', 'str', 'CEOS-SAR'), ('str', "
                            "'control_document_revision_level', 'str', 'A'), ('str', "
                            "'record_format_revision_level', 'str', 'B'), ('str', "
                            "'software_version', 'str', '001.001'), ('str', "
                            "'physical_volume_id', 'str', 'PHYSVOL'), ('str', "
                            "'logical_volume_id', 'str', 'LOGVOL'), ('str', 'volume_set_id', "
                            "'str', 'VOLSET'), ('str', 'creation_datetime', 'str', "
                            "'2020-10-11T17:23:03.700000'), ('str', 'creation_country', 'str', "
                            "'JAPAN'), ('str', 'creation_agency', 'str', 'JAXA'), ('str', "
                            "'creation_facility', 'str', 'EICS'), ('str', 'product_id', 'str', "
                            "'PRODUCT:WWDR1.5RUA'), ('str', 'product_creation', 'str', "
                            "'PROCESS:JAPAN-JAXA-EICS  20150313 062719'), ('str', 'scene_id', "
                            "'str', 'ORBIT:ALOS2014410740-140829'), ('str', "
                            "'scene_location_id', 'str', 'SCENE LOCATION')]))), ('arguments "
                            "unchanged', True))",
 'parse:vol-bad-datetime': "(('returned', ('dict', [('str', 'volume_descriptor', 'dict', "
                           "{'preamble': {'record_sequence_number': 1, 'first_record_subtype': "
                           "192, 'record_type': 192, 'second_record_subtype': 18, "
                           "'third_record_subtype': 18, 'record_length': 360}, "
                           "'ascii_ebcdic_flag': 'A', 'blanks': '', "
                           "'superstructure_format_control_document_id': 'CEOS-SAR', "
                           "'superstructure_format_control_document_revision_level': 'A', "
                           "'superstructure_record_format_revision_level': 'B', "
                           "'software_release_and_revision_level': '001.001', "
                           "'physical_volume_id': 'PHYSVOL', 'logical_volume_id': 'LOGVOL', "
                           "'volume_set_id': 'VOLSET', "
                           "'total_number_of_physical_volumes_in_logical_volume': 1, "
                           "'physical_volume_sequence_number_of_the_first_tape': 1, "
                           "'physical_volume_sequence_number_of_the_last_tape': 1, "
                           "'physical_volume_sequence_number_of_the_current_tape': 1, "
                           "'file_number_in_the_logical_volume': 2, "
                           "'logical_volume_within_a_volume_set': -1, "
                           "'logical_volume_number_within_physical_volume': 4, "
                           "'logical_volume_creation_datetime': '2020131117233798', "
                           "'logical_volume_generation_country': 'JAPAN', "
                           "'logical_volume_generating_agency': 'JAXA', "
                           "'logical_volume_generating_facility': 'EICS', "
                           "'number_of_file_pointer_records': 2, "
                           "'number_of_text_records_in_volume_directory': 1, 'spare': '', "
                           "'local_use_segment': 'local'}), ('str', 'file_descriptors', "
                           "'list', [{'preamble': {'record_sequence_number': 2, "
                           "'first_record_subtype': 192, 'record_type': 192, "
                           "'second_record_subtype': 18, 'third_record_subtype': 18, "
                           "'record_length': 360}, 'ascii_ebcdic_flag': 'A', 'blanks': '', "
                           "'referenced_file_number': 1, 'referenced_file_name_id': 'FILE0', "
                           "'referenced_file_class': 'SARLEADER FILE', "
                           "'referenced_file_class_code': 'SARL', 'referenced_file_data_type': "
                           "'MIXED BINARY AND ASCII', 'referenced_file_data_type_code': "
                           "'MBAA', 'number_of_records_in_referenced_file': 10, "
                           "'length_of_the_first_record_in_referenced_file': 720, "
                           "'maximum_record_length_in_referenced_file': 9860, "
                           "'referenced_file_record_length_type': 'VARIABLE LEN', "
                           "'referenced_file_record_length_type_code': 'VARE', "
                           "'number_of_the_physical_volume_set_containing_the_first_record_of_the_file': "
                           '1, '
                           "'number_of_the_physical_volume_set_containing_the_last_record_of_the_file': "
                           '1, '
                           "'record_number_of_the_first_record_appearing_on_this_physical_volume': "
                           '1, '
                           "'record_number_of_the_last_record_appearing_on_this_physical_volume': "
                           "10, 'spare': '', 'local_use_segment': ''}, {'preamble': "
                           "{'record_sequence_number': 3, 'first_record_subtype': 192, "
                           "'record_type': 192, 'second_record_subtype': 18, "
                           "'third_record_subtype': 18, 'record_length': 360}, "
                           "'ascii_ebcdic_flag': 'A', 'blanks': '', 'referenced_file_number': "
                           "2, 'referenced_file_name_id': 'FILE1', 'referenced_file_class': "
                           "'SARLEADER FILE', 'referenced_file_class_code': 'SARL', "
                           "'referenced_file_data_type': 'MIXED BINARY AND ASCII', "
                           "'referenced_file_data_type_code': 'MBAA', "
                           "'number_of_records_in_referenced_file': 11, "
                           "'length_of_the_first_record_in_referenced_file': 720, "
                           "'maximum_record_length_in_referenced_file': 9860, "
                           "'referenced_file_record_length_type': 'VARIABLE LEN', "
                           "'referenced_file_record_length_type_code': 'VARE', "
                           "'number_of_the_physical_volume_set_containing_the_first_record_of_the_file': "
                           '1, '
                           "'number_of_the_physical_volume_set_containing_the_last_record_of_the_file': "
                           '1, '
                           "'record_number_of_the_first_record_appearing_on_this_physical_volume': "
                           '1, '
                           "'record_number_of_the_last_record_appearing_on_this_physical_volume': "
                           "11, 'spare': '', 'local_use_segment': ''}]), ('str', "
                           "'text_record', 'dict', {'preamble': {'record_sequence_number': 4, "
                           "'first_record_subtype': 192, 'record_type': 192, "
                           "'second_record_subtype': 18, 'third_record_subtype': 18, "
                           "'record_length': 360}, 'ascii_ebcdic_flag': 'A', 'blanks': '', "
                           "'product_id': 'PRODUCT:WWDR1.5RUA', "
                           "'location_and_datetime_of_product_creation': "
                           "'PROCESS:JAPAN-JAXA-EICS  20150313 062719', 'physical_tape_id': "
                           "'TAPE ID', 'scene_id': 'ORBIT:ALOS2014410740-140829', "
                           "'scene_location_id': 'SCENE LOCATION'})])), ('arguments "
                           "unchanged', True))",
 'open:vol-bad-datetime': "(('returned', ('Group', '/', None, 'dict', {}, ('dict', [('str', "
                          "'control_document_id', 'str', 'CEOS-SAR'), ('str', "
                          "'control_document_revision_level', 'str', 'A'), ('str', "
                          "'record_format_revision_level', 'str', 'B'), ('str', "
                          "'software_version', 'str', '001.001'), ('str', "
                          "'physical_volume_id', 'str', 'PHYSVOL'), ('str', "
                          "'logical_volume_id', 'str', 'LOGVOL'), ('str', 'volume_set_id', "
                          "'str', 'VOLSET'), ('str', 'creation_datetime', 'str', "
                          "'2020-01-31T11:07:23.379800'), ('str', 'creation_country', 'str', "
                          "'JAPAN'), ('str', 'creation_agency', 'str', 'JAXA'), ('str', "
                          "'creation_facility', 'str', 'EICS'), ('str', 'product_id', 'str', "
                          "'PRODUCT:WWDR1.5RUA'), ('str', 'product_creation', 'str', "
                          "'PROCESS:JAPAN-JAXA-EICS  20150313 062719'), ('str', 'scene_id', "
                          "'str', 'ORBIT:ALOS2014410740-140829'), ('str', 'scene_location_id', "
                          "'str', 'SCENE LOCATION')]))), ('arguments unchanged', True))",
 'parse:vol-empty-datetime': "(('returned', ('dict', [('str', 'volume_descriptor', 'dict', "
                             "{'preamble': {'record_sequence_number': 1, "
                             "'first_record_subtype': 192, 'record_type': 192, "
                             "'second_record_subtype': 18, 'third_record_subtype': 18, "
                             "'record_length': 360}, 'ascii_ebcdic_flag': 'A', 'blanks': '', "
                             "'superstructure_format_control_document_id': 'CEOS-SAR', "
                             "'superstructure_format_control_document_revision_level': 'A', "
                             "'superstructure_record_format_revision_level': 'B', "
                             "'software_release_and_revision_level': '001.001', "
                             "'physical_volume_id': 'PHYSVOL', 'logical_volume_id': 'LOGVOL', "
                             "'volume_set_id': 'VOLSET', "
                             "'total_number_of_physical_volumes_in_logical_volume': 1, "
                             "'physical_volume_sequence_number_of_the_first_tape': 1, "
                             "'physical_volume_sequence_number_of_the_last_tape': 1, "
                             "'physical_volume_sequence_number_of_the_current_tape': 1, "
                             "'file_number_in_the_logical_volume': 2, "
                             "'logical_volume_within_a_volume_set': -1, "
                             "'logical_volume_number_within_physical_volume': 4, "
                             "'logical_volume_creation_datetime': '', "
                             "'logical_volume_generation_country': 'JAPAN', "
                             "'logical_volume_generating_agency': 'JAXA', "
                             "'logical_volume_generating_facility': 'EICS', "
                             "'number_of_file_pointer_records': 2, "
                             "'number_of_text_records_in_volume_directory': 1, 'spare': '', "
                             "'local_use_segment': 'local'}), ('str', 'file_descriptors', "
                             "'list', [{'preamble': {'record_sequence_number': 2, "
                             "'first_record_subtype': 192, 'record_type': 192, "
                             "'second_record_subtype': 18, 'third_record_subtype': 18, "
                             "'record_length': 360}, 'ascii_ebcdic_flag': 'A', 'blanks': '', "
                             "'referenced_file_number': 1, 'referenced_file_name_id': 'FILE0', "
                             "'referenced_file_class': 'SARLEADER FILE', "
                             "'referenced_file_class_code': 'SARL', "
                             "'referenced_file_data_type': 'MIXED BINARY AND ASCII', "
                             "'referenced_file_data_type_code': 'MBAA', "
                             "'number_of_records_in_referenced_file': 10, "
                             "'length_of_the_first_record_in_referenced_file': 720, "
                             "'maximum_record_length_in_referenced_file': 9860, "
                             "'referenced_file_record_length_type': 'VARIABLE LEN', "
                             "'referenced_file_record_length_type_code': 'VARE', "
                             "'number_of_the_physical_volume_set_containing_the_first_record_of_the_file': "
                             '1, '
                             "'number_of_the_physical_volume_set_containing_the_last_record_of_the_file': "
                             '1, '
                             "'record_number_of_the_first_record_appearing_on_this_physical_volume': "
                             '1, '
                             "'record_number_of_the_last_record_appearing_on_this_physical_volume': "
                             "10, 'spare': '', 'local_use_segment': ''}, {'preamble': "
                             "{'record_sequence_number': 3, 'first_record_subtype': 192, "
                             "'record_type': 192, 'second_record_subtype': 18, "
                             "'third_record_subtype': 18, 'record_length': 360}, "
                             "'ascii_ebcdic_flag': 'A', 'blanks': '', "
                             "'referenced_file_number': 2, 'referenced_file_name_id': 'FILE1', "
                             "'referenced_file_class': 'SARLEADER FILE', "
                             "'referenced_file_class_code': 'SARL', "
                             "'referenced_file_data_type': 'MIXED BINARY AND ASCII', "
                             "'referenced_file_data_type_code': 'MBAA', "
                             "'number_of_records_in_referenced_file': 11, "
                             "'length_of_the_first_record_in_referenced_file': 720, "
                             "'maximum_record_length_in_referenced_file': 9860, "
                             "'referenced_file_record_length_type': 'VARIABLE LEN', "
                             "'referenced_file_record_length_type_code': 'VARE', "
                             "'number_of_the_physical_volume_set_containing_the_first_record_of_the_file': "
                             '1, '
                             "'number_of_the_physical_volume_set_containing_the_last_record_of_the_file': "
                             '1, '
                             "'record_number_of_the_first_record_appearing_on_this_physical_volume': "
                             '1, '
                             "'record_number_of_the_last_record_appearing_on_this_physical_volume': "
                             "11, 'spare': '', 'local_use_segment': ''}]), ('str', "
                             "'text_record', 'dict', {'preamble': {'record_sequence_number': "
                             "4, 'first_record_subtype': 192, 'record_type': 192, "
                             "'second_record_subtype': 18, 'third_record_subtype': 18, "
                             "'record_length': 360}, 'ascii_ebcdic_flag': 'A', 'blanks': '', "
                             "'product_id': 'PRODUCT:WWDR1.5RUA', "
                             "'location_and_datetime_of_product_creation': "
                             "'PROCESS:JAPAN-JAXA-EICS  20150313 062719', 'physical_tape_id': "
                             "'TAPE ID', 'scene_id': 'ORBIT:ALOS2014410740-140829', "
                             "'scene_location_id': 'SCENE LOCATION'})])), ('arguments "
                             "unchanged', True))",
 'open:vol-empty-datetime': '((\'raised\', (\'ValueError\', "time data \'\' does not match '
                            'format \'%Y%m%d%H%M%S%f\'", None, False)), (\'arguments '
                            "unchanged', True))",
 'parse:vol-long-datetime': "(('returned', ('dict', [('str', 'volume_descriptor', 'dict', "
                            "{'preamble': {'record_sequence_number': 1, "
                            "'first_record_subtype': 192, 'record_type': 192, "
                            "'second_record_subtype': 18, 'third_record_subtype': 18, "
                            "'record_length': 360}, 'ascii_ebcdic_flag': 'A', 'blanks': '', "
                            "'superstructure_format_control_document_id': 'CEOS-SAR', "
                            "'superstructure_format_control_document_revision_level': 'A', "
                            "'superstructure_record_format_revision_level': 'B', "
                            "'software_release_and_revision_level': '001.001', "
                            "'physical_volume_id': 'PHYSVOL', 'logical_volume_id': 'LOGVOL', "
                            "'volume_set_id': 'VOLSET', "
                            "'total_number_of_physical_volumes_in_logical_volume': 1, "
                            "'physical_volume_sequence_number_of_the_first_tape': 1, "
                            "'physical_volume_sequence_number_of_the_last_tape': 1, "
                            "'physical_volume_sequence_number_of_the_current_tape': 1, "
                            "'file_number_in_the_logical_volume': 2, "
                            "'logical_volume_within_a_volume_set': -1, "
                            "'logical_volume_number_within_physical_volume': 4, "
                            "'logical_volume_creation_datetime': '202010111723379x', "
                            "'logical_volume_generation_country': 'JAPAN', "
                            "'logical_volume_generating_agency': 'JAXA', "
                            "'logical_volume_generating_facility': 'EICS', "
                            "'number_of_file_pointer_records': 2, "
                            "'number_of_text_records_in_volume_directory': 1, 'spare': '', "
                            "'local_use_segment': 'local'}), ('str', 'file_descriptors', "
                            "'list', [{'preamble': {'record_sequence_number': 2, "
                            "'first_record_subtype': 192, 'record_type': 192, "
                            "'second_record_subtype': 18, 'third_record_subtype': 18, "
                            "'record_length': 360}, 'ascii_ebcdic_flag': 'A', 'blanks': '', "
                            "'referenced_file_number': 1, 'referenced_file_name_id': 'FILE0', "
                            "'referenced_file_class': 'SARLEADER FILE', "
                            "'referenced_file_class_code': 'SARL', "
                            "'referenced_file_data_type': 'MIXED BINARY AND ASCII', "
                            "'referenced_file_data_type_code': 'MBAA', "
                            "'number_of_records_in_referenced_file': 10, "
                            "'length_of_the_first_record_in_referenced_file': 720, "
                            "'maximum_record_length_in_referenced_file': 9860, "
                            "'referenced_file_record_length_type': 'VARIABLE LEN', "
                            "'referenced_file_record_length_type_code': 'VARE', "
                            "'number_of_the_physical_volume_set_containing_the_first_record_of_the_file': "
                            '1, '
                            "'number_of_the_physical_volume_set_containing_the_last_record_of_the_file': "
                            '1, '
                            "'record_number_of_the_first_record_appearing_on_this_physical_volume': "
                            '1, '
                            "'record_number_of_the_last_record_appearing_on_this_physical_volume': "
                            "10, 'spare': '', 'local_use_segment': ''}, {'preamble': "
                            "{'record_sequence_number': 3, 'first_record_subtype': 192, "
                            "'record_type': 192, 'second_record_subtype': 18, "
                            "'third_record_subtype': 18, 'record_length': 360}, "
                            "'ascii_ebcdic_flag': 'A', 'blanks': '', 'referenced_file_number': "
                            "2, 'referenced_file_name_id': 'FILE1', 'referenced_file_class': "
                            "'SARLEADER FILE', 'referenced_file_class_code': 'SARL', "
                            "'referenced_file_data_type': 'MIXED BINARY AND ASCII', "
                            "'referenced_file_data_type_code': 'MBAA', "
                            "'number_of_records_in_referenced_file': 11, "
                            "'length_of_the_first_record_in_referenced_file': 720, "
                            "'maximum_record_length_in_referenced_file': 9860, "
                            "'referenced_file_record_length_type': 'VARIABLE LEN', "
                            "'referenced_file_record_length_type_code': 'VARE', "
                            "'number_of_the_physical_volume_set_containing_the_first_record_of_the_file': "
                            '1, '
                            "'number_of_the_physical_volume_set_containing_the_last_record_of_the_file': "
                            '1, '
                            "'record_number_of_the_first_record_appearing_on_this_physical_volume': "
                            '1, '
                            "'record_number_of_the_last_record_appearing_on_this_physical_volume': "
                            "11, 'spare': '', 'local_use_segment': ''}]), ('str', "
                            "'text_record', 'dict', {'preamble': {'record_sequence_number': 4, "
                            "'first_record_subtype': 192, 'record_type': 192, "
                            "'second_record_subtype': 18, 'third_record_subtype': 18, "
                            "'record_length': 360}, 'ascii_ebcdic_flag': 'A', 'blanks': '', "
                            "'product_id': 'PRODUCT:WWDR1.5RUA', "
                            "'location_and_datetime_of_product_creation': "
                            "'PROCESS:JAPAN-JAXA-EICS  20150313 062719', 'physical_tape_id': "
                            "'TAPE ID', 'scene_id': 'ORBIT:ALOS2014410740-140829', "
                            "'scene_location_id': 'SCENE LOCATION'})])), ('arguments "
                            "unchanged', True))",
 'open:vol-long-datetime': "(('raised', ('ValueError', 'unconverted data remains: x', None, "
                           "False)), ('arguments unchanged', True))",
 'parse:vol-other-text': "(('returned', ('dict', [('str', 'volume_descriptor', 'dict', "
                         "{'preamble': {'record_sequence_number': 1, 'first_record_subtype': "
                         "192, 'record_type': 192, 'second_record_subtype': 18, "
                         "'third_record_subtype': 18, 'record_length': 360}, "
                         "'ascii_ebcdic_flag': 'A', 'blanks': '', "
                         "'superstructure_format_control_document_id': 'CEOS-SAR', "
                         "'superstructure_format_control_document_revision_level': 'A', "
                         "'superstructure_record_format_revision_level': 'B', "
                         "'software_release_and_revision_level': '001.001', "
                         "'physical_volume_id': 'PHYSVOL', 'logical_volume_id': 'LOGVOL', "
                         "'volume_set_id': 'VOLSET', "
                         "'total_number_of_physical_volumes_in_logical_volume': 1, "
                         "'physical_volume_sequence_number_of_the_first_tape': 1, "
                         "'physical_volume_sequence_number_of_the_last_tape': 1, "
                         "'physical_volume_sequence_number_of_the_current_tape': 1, "
                         "'file_number_in_the_logical_volume': 2, "
                         "'logical_volume_within_a_volume_set': -1, "
                         "'logical_volume_number_within_physical_volume': 4, "
                         "'logical_volume_creation_datetime': '2020101117233798', "
                         "'logical_volume_generation_country': 'JAPAN', "
                         "'logical_volume_generating_agency': 'JAXA', "
                         "'logical_volume_generating_facility': 'EICS', "
                         "'number_of_file_pointer_records': 2, "
                         "'number_of_text_records_in_volume_directory': 1, 'spare': '', "
                         "'local_use_segment': 'local'}), ('str', 'file_descriptors', 'list', "
                         "[{'preamble': {'record_sequence_number': 2, 'first_record_subtype': "
                         "192, 'record_type': 192, 'second_record_subtype': 18, "
                         "'third_record_subtype': 18, 'record_length': 360}, "
                         "'ascii_ebcdic_flag': 'A', 'blanks': '', 'referenced_file_number': 1, "
                         "'referenced_file_name_id': 'FILE0', 'referenced_file_class': "
                         "'SARLEADER FILE', 'referenced_file_class_code': 'SARL', "
                         "'referenced_file_data_type': 'MIXED BINARY AND ASCII', "
                         "'referenced_file_data_type_code': 'MBAA', "
                         "'number_of_records_in_referenced_file': 10, "
                         "'length_of_the_first_record_in_referenced_file': 720, "
                         "'maximum_record_length_in_referenced_file': 9860, "
                         "'referenced_file_record_length_type': 'VARIABLE LEN', "
                         "'referenced_file_record_length_type_code': 'VARE', "
                         "'number_of_the_physical_volume_set_containing_the_first_record_of_the_file': "
                         '1, '
                         "'number_of_the_physical_volume_set_containing_the_last_record_of_the_file': "
                         '1, '
                         "'record_number_of_the_first_record_appearing_on_this_physical_volume': "
                         '1, '
                         "'record_number_of_the_last_record_appearing_on_this_physical_volume': "
                         "10, 'spare': '', 'local_use_segment': ''}, {'preamble': "
                         "{'record_sequence_number': 3, 'first_record_subtype': 192, "
                         "'record_type': 192, 'second_record_subtype': 18, "
                         "'third_record_subtype': 18, 'record_length': 360}, "
                         "'ascii_ebcdic_flag': 'A', 'blanks': '', 'referenced_file_number': 2, "
                         "'referenced_file_name_id': 'FILE1', 'referenced_file_class': "
                         "'SARLEADER FILE', 'referenced_file_class_code': 'SARL', "
                         "'referenced_file_data_type': 'MIXED BINARY AND ASCII', "
                         "'referenced_file_data_type_code': 'MBAA', "
                         "'number_of_records_in_referenced_file': 11, "
                         "'length_of_the_first_record_in_referenced_file': 720, "
                         "'maximum_record_length_in_referenced_file': 9860, "
                         "'referenced_file_record_length_type': 'VARIABLE LEN', "
                         "'referenced_file_record_length_type_code': 'VARE', "
                         "'number_of_the_physical_volume_set_containing_the_first_record_of_the_file': "
                         '1, '
                         "'number_of_the_physical_volume_set_containing_the_last_record_of_the_file': "
                         '1, '
                         "'record_number_of_the_first_record_appearing_on_this_physical_volume': "
                         '1, '
                         "'record_number_of_the_last_record_appearing_on_this_physical_volume': "
                         "11, 'spare': '', 'local_use_segment': ''}]), ('str', 'text_record', "
                         "'dict', {'preamble': {'record_sequence_number': 4, "
                         "'first_record_subtype': 192, 'record_type': 192, "
                         "'second_record_subtype': 18, 'third_record_subtype': 18, "
                         "'record_length': 360}, 'ascii_ebcdic_flag': 'A', 'blanks': '', "
                         "'product_id': '', 'location_and_datetime_of_product_creation': "
                         "'PROCESS:JAPAN-JAXA-EICS  20150313 062719', 'physical_tape_id': "
                         "'TAPE ID', 'scene_id': 'xxxxxxxxxxxxxxxxxxxxxxxxxxxxxxxxxxxxxxxx', "
                         "'scene_location_id': 'SCENE LOCATION'})])), ('arguments unchanged', "
                         'True))',
 'open:vol-other-text': "(('returned', ('Group', '/', None, 'dict', {}, ('dict', [('str', "
                        "'control_document_id', 'str', 'CEOS-SAR'), ('str', "
                        "'control_document_revision_level', 'str', 'A'), ('str', "
                        "'record_format_revision_level', 'str', 'B'), ('str', "
                        "'software_version', 'str', '001.001'), ('str', 'physical_volume_id', "
                        "'str', 'PHYSVOL'), ('str', 'logical_volume_id', 'str', 'LOGVOL'), "
                        "('str', 'volume_set_id', 'str', 'VOLSET'), ('str', "
                        "'creation_datetime', 'str', '2020-10-11T17:23:37.980000'), ('str', "
                        "'creation_country', 'str', 'JAPAN'), ('str', 'creation_agency', "
                        "'str', 'JAXA'), ('str', 'creation_facility', 'str', 'EICS'), ('str', "
                        "'product_id', 'str', ''), ('str', 'product_creation', 'str', "
                        "'PROCESS:JAPAN-JAXA-EICS  20150313 062719'), ('str', 'scene_id', "
                        "'str', 'xxxxxxxxxxxxxxxxxxxxxxxxxxxxxxxxxxxxxxxx'), ('str', "
                        "'scene_location_id', 'str', 'SCENE LOCATION')]))), ('arguments "
                        "unchanged', True))",
 'parse:vol-truncated': "(('raised', ('StreamError', 'Error in path (parsing) -> text_record "
                        '-> blanks\\nstream read less than specified amount, expected 124, '
                        "found 123', None, False)), ('arguments unchanged', True))",
 'open:vol-truncated': "(('raised', ('StreamError', 'Error in path (parsing) -> text_record -> "
                       'blanks\\nstream read less than specified amount, expected 124, found '
                       "123', None, False)), ('arguments unchanged', True))",
 'parse:vol-truncated-descriptors': "(('raised', ('StreamError', 'Error in path (parsing) -> "
                                    'file_descriptors -> preamble -> '
                                    'record_sequence_number\\nstream read less than specified '
                                    "amount, expected 4, found 0', None, False)), ('arguments "
                                    "unchanged', True))",
 'open:vol-truncated-descriptors': "(('raised', ('StreamError', 'Error in path (parsing) -> "
                                   'file_descriptors -> preamble -> '
                                   'record_sequence_number\\nstream read less than specified '
                                   "amount, expected 4, found 0', None, False)), ('arguments "
                                   "unchanged', True))",
 'parse:vol-trailing': "(('returned', ('dict', [('str', 'volume_descriptor', 'dict', "
                       "{'preamble': {'record_sequence_number': 1, 'first_record_subtype': "
                       "192, 'record_type': 192, 'second_record_subtype': 18, "
                       "'third_record_subtype': 18, 'record_length': 360}, "
                       "'ascii_ebcdic_flag': 'A', 'blanks': '', "
                       "'superstructure_format_control_document_id': 'CEOS-SAR', "
                       "'superstructure_format_control_document_revision_level': 'A', "
                       "'superstructure_record_format_revision_level': 'B', "
                       "'software_release_and_revision_level': '001.001', "
                       "'physical_volume_id': 'PHYSVOL', 'logical_volume_id': 'LOGVOL', "
                       "'volume_set_id': 'VOLSET', "
                       "'total_number_of_physical_volumes_in_logical_volume': 1, "
                       "'physical_volume_sequence_number_of_the_first_tape': 1, "
                       "'physical_volume_sequence_number_of_the_last_tape': 1, "
                       "'physical_volume_sequence_number_of_the_current_tape': 1, "
                       "'file_number_in_the_logical_volume': 2, "
                       "'logical_volume_within_a_volume_set': -1, "
                       "'logical_volume_number_within_physical_volume': 4, "
                       "'logical_volume_creation_datetime': '2020101117233798', "
                       "'logical_volume_generation_country': 'JAPAN', "
                       "'logical_volume_generating_agency': 'JAXA', "
                       "'logical_volume_generating_facility': 'EICS', "
                       "'number_of_file_pointer_records': 2, "
                       "'number_of_text_records_in_volume_directory': 1, 'spare': '', "
                       "'local_use_segment': 'local'}), ('str', 'file_descriptors', 'list', "
                       "[{'preamble': {'record_sequence_number': 2, 'first_record_subtype': "
                       "192, 'record_type': 192, 'second_record_subtype': 18, "
                       "'third_record_subtype': 18, 'record_length': 360}, "
                       "'ascii_ebcdic_flag': 'A', 'blanks': '', 'referenced_file_number': 1, "
                       "'referenced_file_name_id': 'FILE0', 'referenced_file_class': "
                       "'SARLEADER FILE', 'referenced_file_class_code': 'SARL', "
                       "'referenced_file_data_type': 'MIXED BINARY AND ASCII', "
                       "'referenced_file_data_type_code': 'MBAA', "
                       "'number_of_records_in_referenced_file': 10, "
                       "'length_of_the_first_record_in_referenced_file': 720, "
                       "'maximum_record_length_in_referenced_file': 9860, "
                       "'referenced_file_record_length_type': 'VARIABLE LEN', "
                       "'referenced_file_record_length_type_code': 'VARE', "
                       "'number_of_the_physical_volume_set_containing_the_first_record_of_the_file': "
                       '1, '
                       "'number_of_the_physical_volume_set_containing_the_last_record_of_the_file': "
                       '1, '
                       "'record_number_of_the_first_record_appearing_on_this_physical_volume': "
                       '1, '
                       "'record_number_of_the_last_record_appearing_on_this_physical_volume': "
                       "10, 'spare': '', 'local_use_segment': ''}, {'preamble': "
                       "{'record_sequence_number': 3, 'first_record_subtype': 192, "
                       "'record_type': 192, 'second_record_subtype': 18, "
                       "'third_record_subtype': 18, 'record_length': 360}, "
                       "'ascii_ebcdic_flag': 'A', 'blanks': '', 'referenced_file_number': 2, "
                       "'referenced_file_name_id': 'FILE1', 'referenced_file_class': "
                       "'SARLEADER FILE', 'referenced_file_class_code': 'SARL', "
                       "'referenced_file_data_type': 'MIXED BINARY AND ASCII', "
                       "'referenced_file_data_type_code': 'MBAA', "
                       "'number_of_records_in_referenced_file': 11, "
                       "'length_of_the_first_record_in_referenced_file': 720, "
                       "'maximum_record_length_in_referenced_file': 9860, "
                       "'referenced_file_record_length_type': 'VARIABLE LEN', "
                       "'referenced_file_record_length_type_code': 'VARE', "
                       "'number_of_the_physical_volume_set_containing_the_first_record_of_the_file': "
                       '1, '
                       "'number_of_the_physical_volume_set_containing_the_last_record_of_the_file': "
                       '1, '
                       "'record_number_of_the_first_record_appearing_on_this_physical_volume': "
                       '1, '
                       "'record_number_of_the_last_record_appearing_on_this_physical_volume': "
                       "11, 'spare': '', 'local_use_segment': ''}]), ('str', 'text_record', "
                       "'dict', {'preamble': {'record_sequence_number': 4, "
                       "'first_record_subtype': 192, 'record_type': 192, "
                       "'second_record_subtype': 18, 'third_record_subtype': 18, "
                       "'record_length': 360}, 'ascii_ebcdic_flag': 'A', 'blanks': '', "
                       "'product_id': 'PRODUCT:WWDR1.5RUA', "
                       "'location_and_datetime_of_product_creation': 'PROCESS:JAPAN-JAXA-EICS  "
                       "20150313 062719', 'physical_tape_id': 'TAPE ID', 'scene_id': "
                       "'ORBIT:ALOS2014410740-140829', 'scene_location_id': 'SCENE "
                       "LOCATION'})])), ('arguments unchanged', True))",
 'open:vol-trailing': "(('returned', ('Group', '/', None, 'dict', {}, ('dict', [('str', "
                      "'control_document_id', 'str', 'CEOS-SAR'), ('str', "
                      "'control_document_revision_level', 'str', 'A'), ('str', "
                      "'record_format_revision_level', 'str', 'B'), ('str', "
                      "'software_version', 'str', '001.001'), ('str', 'physical_volume_id', "
                      "'str', 'PHYSVOL'), ('str', 'logical_volume_id', 'str', 'LOGVOL'), "
                      "('str', 'volume_set_id', 'str', 'VOLSET'), ('str', 'creation_datetime', "
                      "'str', '2020-10-11T17:23:37.980000'), ('str', 'creation_country', "
                      "'str', 'JAPAN'), ('str', 'creation_agency', 'str', 'JAXA'), ('str', "
                      "'creation_facility', 'str', 'EICS'), ('str', 'product_id', 'str', "
                      "'PRODUCT:WWDR1.5RUA'), ('str', 'product_creation', 'str', "
                      "'PROCESS:JAPAN-JAXA-EICS  20150313 062719'), ('str', 'scene_id', 'str', "
                      "'ORBIT:ALOS2014410740-140829'), ('str', 'scene_location_id', 'str', "
                      "'SCENE LOCATION')]))), ('arguments unchanged', True))",
 'parse:vol-blank-count': "(('returned', ('dict', [('str', 'volume_descriptor', 'dict', "
                          "{'preamble': {'record_sequence_number': 1, 'first_record_subtype': "
                          "192, 'record_type': 192, 'second_record_subtype': 18, "
                          "'third_record_subtype': 18, 'record_length': 360}, "
                          "'ascii_ebcdic_flag': 'A', 'blanks': '', "
                          "'superstructure_format_control_document_id': 'CEOS-SAR', "
                          "'superstructure_format_control_document_revision_level': 'A', "
                          "'superstructure_record_format_revision_level': 'B', "
                          "'software_release_and_revision_level': '001.001', "
                          "'physical_volume_id': 'PHYSVOL', 'logical_volume_id': 'LOGVOL', "
                          "'volume_set_id': 'VOLSET', "
                          "'total_number_of_physical_volumes_in_logical_volume': 1, "
                          "'physical_volume_sequence_number_of_the_first_tape': 1, "
                          "'physical_volume_sequence_number_of_the_last_tape': 1, "
                          "'physical_volume_sequence_number_of_the_current_tape': 1, "
                          "'file_number_in_the_logical_volume': 2, "
                          "'logical_volume_within_a_volume_set': -1, "
                          "'logical_volume_number_within_physical_volume': 4, "
                          "'logical_volume_creation_datetime': '2020101117233798', "
                          "'logical_volume_generation_country': 'JAPAN', "
                          "'logical_volume_generating_agency': 'JAXA', "
                          "'logical_volume_generating_facility': 'EICS', "
                          "'number_of_file_pointer_records': 0, "
                          "'number_of_text_records_in_volume_directory': 1, 'spare': '', "
                          "'local_use_segment': 'local'}), ('str', 'file_descriptors', 'list', "
                          "[]), ('str', 'text_record', 'dict', {'preamble': "
                          "{'record_sequence_number': 2, 'first_record_subtype': 192, "
                          "'record_type': 192, 'second_record_subtype': 18, "
                          "'third_record_subtype': 18, 'record_length': 360}, "
                          "'ascii_ebcdic_flag': 'A', 'blanks': '', 'product_id': "
                          "'PRODUCT:WWDR1.5RUA', 'location_and_datetime_of_product_creation': "
                          "'PROCESS:JAPAN-JAXA-EICS  20150313 062719', 'physical_tape_id': "
                          "'TAPE ID', 'scene_id': 'ORBIT:ALOS2014410740-140829', "
                          "'scene_location_id': 'SCENE LOCATION'})])), ('arguments unchanged', "
                          'True))',
 'open:vol-blank-count': "(('returned', ('Group', '/', None, 'dict', {}, ('dict', [('str', "
                         "'control_document_id', 'str', 'CEOS-SAR'), ('str', "
                         "'control_document_revision_level', 'str', 'A'), ('str', "
                         "'record_format_revision_level', 'str', 'B'), ('str', "
                         "'software_version', 'str', '001.001'), ('str', 'physical_volume_id', "
                         "'str', 'PHYSVOL'), ('str', 'logical_volume_id', 'str', 'LOGVOL'), "
                         "('str', 'volume_set_id', 'str', 'VOLSET'), ('str', "
                         "'creation_datetime', 'str', '2020-10-11T17:23:37.980000'), ('str', "
                         "'creation_country', 'str', 'JAPAN'), ('str', 'creation_agency', "
                         "'str', 'JAXA'), ('str', 'creation_facility', 'str', 'EICS'), ('str', "
                         "'product_id', 'str', 'PRODUCT:WWDR1.5RUA'), ('str', "
                         "'product_creation', 'str', 'PROCESS:JAPAN-JAXA-EICS  20150313 "
                         "062719'), ('str', 'scene_id', 'str', 'ORBIT:ALOS2014410740-140829'), "
                         "('str', 'scene_location_id', 'str', 'SCENE LOCATION')]))), "
                         "('arguments unchanged', True))",
 'parse:empty': "(('raised', ('StreamError', 'Error in path (parsing) -> volume_descriptor -> "
                'preamble -> record_sequence_number\\nstream read less than specified amount, '
                "expected 4, found 0', None, False)), ('arguments unchanged', True))",
 'open:empty': "(('raised', ('StreamError', 'Error in path (parsing) -> volume_descriptor -> "
               'preamble -> record_sequence_number\\nstream read less than specified amount, '
               "expected 4, found 0', None, False)), ('arguments unchanged', True))",
 'parse:missing': "(('raised', ('StreamError', 'Error in path (parsing) -> volume_descriptor "
                  '-> preamble -> record_length\\nstream read less than specified amount, '
                  "expected 4, found 1', None, False)), ('arguments unchanged', True))",
 'open:missing': "(('raised', ('FileNotFoundError', 'Cannot open missing', ('KeyError', "
                 '"\'missing\'", None, False), True)), (\'arguments unchanged\', True))',
 'parse:': "(('raised', ('StreamError', 'Error in path (parsing) -> volume_descriptor -> "
           'preamble -> record_length\\nstream read less than specified amount, expected 4, '
           "found 1', None, False)), ('arguments unchanged', True))",
 'open:': '((\'raised\', (\'FileNotFoundError\', \'Cannot open \', (\'KeyError\', "\'\'", '
          "None, False), True)), ('arguments unchanged', True))",
 'parse:None': "(('raised', ('StreamError', 'Error in path (parsing) -> volume_descriptor -> "
               'preamble -> record_length\\nstream read less than specified amount, expected '
               "4, found 1', None, False)), ('arguments unchanged', True))",
 'open:None': "(('raised', ('FileNotFoundError', 'Cannot open None', ('KeyError', 'None', "
              "None, False), True)), ('arguments unchanged', True))",
 'parse:3': "(('raised', ('StreamError', 'Error in path (parsing) -> volume_descriptor -> "
            'preamble -> record_length\\nstream read less than specified amount, expected 4, '
            "found 1', None, False)), ('arguments unchanged', True))",
 'open:3': "(('raised', ('FileNotFoundError', 'Cannot open 3', ('KeyError', '3', None, False), "
           "True)), ('arguments unchanged', True))",
 'open:requests': "['vol0', 'vol1', 'vol4', 'vol-early', 'vol-short-datetime', "
                  "'vol-bad-datetime', 'vol-empty-datetime', 'vol-long-datetime', "
                  "'vol-other-text', 'vol-truncated', 'vol-truncated-descriptors', "
                  "'vol-trailing', 'vol-blank-count', 'empty', 'missing', '', None, 3]",
 'open-memory:vol0': "(('returned', ('Group', '/', None, 'dict', {}, ('dict', [('str', "
                     "'control_document_id', 'str', 'CEOS-SAR'), ('str', "
                     "'control_document_revision_level', 'str', 'A'), ('str', "
                     "'record_format_revision_level', 'str', 'B'), ('str', 'software_version', "
                     "'str', '001.001'), ('str', 'physical_volume_id', 'str', 'PHYSVOL'), "
                     "('str', 'logical_volume_id', 'str', 'LOGVOL'), ('str', 'volume_set_id', "
                     "'str', 'VOLSET'), ('str', 'creation_datetime', 'str', "
                     "'2020-10-11T17:23:37.980000'), ('str', 'creation_country', 'str', "
                     "'JAPAN'), ('str', 'creation_agency', 'str', 'JAXA'), ('str', "
                     "'creation_facility', 'str', 'EICS'), ('str', 'product_id', 'str', "
                     "'PRODUCT:WWDR1.5RUA'), ('str', 'product_creation', 'str', "
                     "'PROCESS:JAPAN-JAXA-EICS  20150313 062719'), ('str', 'scene_id', 'str', "
                     "'ORBIT:ALOS2014410740-140829'), ('str', 'scene_location_id', 'str', "
                     "'SCENE LOCATION')]))), ('arguments unchanged', True))",
 'open-memory:vol1': "(('returned', ('Group', '/', None, 'dict', {}, ('dict', [('str', "
                     "'control_document_id', 'str', 'CEOS-SAR'), ('str', "
                     "'control_document_revision_level', 'str', 'A'), ('str', "
                     "'record_format_revision_level', 'str', 'B'), ('str', 'software_version', "
                     "'str', '001.001'), ('str', 'physical_volume_id', 'str', 'PHYSVOL'), "
                     "('str', 'logical_volume_id', 'str', 'LOGVOL'), ('str', 'volume_set_id', "
                     "'str', 'VOLSET'), ('str', 'creation_datetime', 'str', "
                     "'2020-10-11T17:23:37.980000'), ('str', 'creation_country', 'str', "
                     "'JAPAN'), ('str', 'creation_agency', 'str', 'JAXA'), ('str', "
                     "'creation_facility', 'str', 'EICS'), ('str', 'product_id', 'str', "
                     "'PRODUCT:WWDR1.5RUA'), ('str', 'product_creation', 'str', "
                     "'PROCESS:JAPAN-JAXA-EICS  20150313 062719'), ('str', 'scene_id', 'str', "
                     "'ORBIT:ALOS2014410740-140829'), ('str', 'scene_location_id', 'str', "
                     "'SCENE LOCATION')]))), ('arguments unchanged', True))",
 'open-memory:vol4': "(('returned', ('Group', '/', None, 'dict', {}, ('dict', [('str', "
                     "'control_document_id', 'str', 'CEOS-SAR'), ('str', "
                     "'control_document_revision_level', 'str', 'A'), ('str', "
                     "'record_format_revision_level', 'str', 'B'), ('str', 'software_version', "
                     "'str', '001.001'), ('str', 'physical_volume_id', 'str', 'PHYSVOL'), "
                     "('str', 'logical_volume_id', 'str', 'LOGVOL'), ('str', 'volume_set_id', "
                     "'str', 'VOLSET'), ('str', 'creation_datetime', 'str', "
                     "'2020-10-11T17:23:37.980000'), ('str', 'creation_country', 'str', "
                     "'JAPAN'), ('str', 'creation_agency', 'str', 'JAXA'), ('str', "
                     "'creation_facility', 'str', 'EICS'), ('str', 'product_id', 'str', "
                     "'PRODUCT:WWDR1.5RUA'), ('str', 'product_creation', 'str', "
                     "'PROCESS:JAPAN-JAXA-EICS  20150313 062719'), ('str', 'scene_id', 'str', "
                     "'ORBIT:ALOS2014410740-140829'), ('str', 'scene_location_id', 'str', "
                     "'SCENE LOCATION')]))), ('arguments unchanged', True))",
 'open-memory:vol-early': "(('returned', ('Group', '/', None, 'dict', {}, ('dict', [('str', "
                          "'control_document_id', 'str', 'CEOS-SAR'), ('str', "
                          "'control_document_revision_level', 'str', 'A'), ('str', "
                          "'record_format_revision_level', 'str', 'B'), ('str', "
                          "'software_version', 'str', '001.001'), ('str', "
                          "'physical_volume_id', 'str', 'PHYSVOL'), ('str', "
                          "'logical_volume_id', 'str', 'LOGVOL'), ('str', 'volume_set_id', "
                          "'str', 'VOLSET'), ('str', 'creation_datetime', 'str', "
                          "'1999-12-31T23:59:59.990000'), ('str', 'creation_country', 'str', "
                          "'JAPAN'), ('str', 'creation_agency', 'str', 'JAXA'), ('str', "
                          "'creation_facility', 'str', 'EICS'), ('str', 'product_id', 'str', "
                          "'PRODUCT:WWDR1.5RUA'), ('str', 'product_creation', 'str', "
                          "'PROCESS:JAPAN-JAXA-EICS  20150313 062719'), ('str', 'scene_id', "
                          "'str', 'ORBIT:ALOS2014410740-140829'), ('str', 'scene_location_id', "
                          "'str', 'SCENE LOCATION')]))), ('arguments unchanged', True))",
 'open-memory:vol-short-datetime': "(('returned', ('Group', '/', None, 'dict', {}, ('dict', "
                                   "[('str', 'control_document_id', 'str', 'CEOS-SAR'), "
                                   "('str', 'control_document_revision_level', 'str', 'A'), "
                                   "('str', 'record_format_revision_level', 'str', 'B'), "
                                   "('str', 'software_version', 'str', '001.001'), ('str', "
                                   "'physical_volume_id', 'str', 'PHYSVOL'), ('str', "
                                   "'logical_volume_id', 'str', 'LOGVOL'), ('str', "
                                   "'volume_set_id', 'str', 'VOLSET'), ('str', "
                                   "'creation_datetime', 'str', '2020-10-11T17:23:03.700000'), "
                                   "('str', 'creation_country', 'str', 'JAPAN'), ('str', "
                                   "'creation_agency', 'str', 'JAXA'), ('str', "
                                   "'creation_facility', 'str', 'EICS'), ('str', 'product_id', "
                                   "'str', 'PRODUCT:WWDR1.5RUA'), ('str', 'product_creation', "
                                   "'str', 'PROCESS:JAPAN-JAXA-EICS  20150313 062719'), "
                                   "('str', 'scene_id', 'str', 'ORBIT:ALOS2014410740-140829'), "
                                   "('str', 'scene_location_id', 'str', 'SCENE LOCATION')]))), "
                                   "('arguments unchanged', True))",
 'open-memory:vol-bad-datetime': "(('returned', ('Group', '/', None, 'dict', {}, ('dict', "
                                 "[('str', 'control_document_id', 'str', 'CEOS-SAR'), ('str', "
                                 "'control_document_revision_level', 'str', 'A'), ('str', "
                                 "'record_format_revision_level', 'str', 'B'), ('str', "
                                 "'software_version', 'str', '001.001'), ('str', "
                                 "'physical_volume_id', 'str', 'PHYSVOL'), ('str', "
                                 "'logical_volume_id', 'str', 'LOGVOL'), ('str', "
                                 "'volume_set_id', 'str', 'VOLSET'), ('str', "
                                 "'creation_datetime', 'str', '2020-01-31T11:07:23.379800'), "
                                 "('str', 'creation_country', 'str', 'JAPAN'), ('str', "
                                 "'creation_agency', 'str', 'JAXA'), ('str', "
                                 "'creation_facility', 'str', 'EICS'), ('str', 'product_id', "
                                 "'str', 'PRODUCT:WWDR1.5RUA'), ('str', 'product_creation', "
                                 "'str', 'PROCESS:JAPAN-JAXA-EICS  20150313 062719'), ('str', "
                                 "'scene_id', 'str', 'ORBIT:ALOS2014410740-140829'), ('str', "
                                 "'scene_location_id', 'str', 'SCENE LOCATION')]))), "
                                 "('arguments unchanged', True))",
 'open-memory:vol-empty-datetime': '((\'raised\', (\'ValueError\', "time data \'\' does not '
                                   'match format \'%Y%m%d%H%M%S%f\'", None, False)), '
                                   "('arguments unchanged', True))",
 'open-memory:vol-long-datetime': "(('raised', ('ValueError', 'unconverted data remains: x', "
                                  "None, False)), ('arguments unchanged', True))",
 'open-memory:vol-other-text': "(('returned', ('Group', '/', None, 'dict', {}, ('dict', "
                               "[('str', 'control_document_id', 'str', 'CEOS-SAR'), ('str', "
                               "'control_document_revision_level', 'str', 'A'), ('str', "
                               "'record_format_revision_level', 'str', 'B'), ('str', "
                               "'software_version', 'str', '001.001'), ('str', "
                               "'physical_volume_id', 'str', 'PHYSVOL'), ('str', "
                               "'logical_volume_id', 'str', 'LOGVOL'), ('str', "
                               "'volume_set_id', 'str', 'VOLSET'), ('str', "
                               "'creation_datetime', 'str', '2020-10-11T17:23:37.980000'), "
                               "('str', 'creation_country', 'str', 'JAPAN'), ('str', "
                               "'creation_agency', 'str', 'JAXA'), ('str', "
                               "'creation_facility', 'str', 'EICS'), ('str', 'product_id', "
                               "'str', ''), ('str', 'product_creation', 'str', "
                               "'PROCESS:JAPAN-JAXA-EICS  20150313 062719'), ('str', "
                               "'scene_id', 'str', "
                               "'xxxxxxxxxxxxxxxxxxxxxxxxxxxxxxxxxxxxxxxx'), ('str', "
                               "'scene_location_id', 'str', 'SCENE LOCATION')]))), ('arguments "
                               "unchanged', True))",
 'open-memory:vol-truncated': "(('raised', ('StreamError', 'Error in path (parsing) -> "
                              'text_record -> blanks\\nstream read less than specified amount, '
                              "expected 124, found 123', None, False)), ('arguments "
                              "unchanged', True))",
 'open-memory:vol-truncated-descriptors': "(('raised', ('StreamError', 'Error in path "
                                          '(parsing) -> file_descriptors -> preamble -> '
                                          'record_sequence_number\\nstream read less than '
                                          "specified amount, expected 4, found 0', None, "
                                          "False)), ('arguments unchanged', True))",
 'open-memory:vol-trailing': "(('returned', ('Group', '/', None, 'dict', {}, ('dict', [('str', "
                             "'control_document_id', 'str', 'CEOS-SAR'), ('str', "
                             "'control_document_revision_level', 'str', 'A'), ('str', "
                             "'record_format_revision_level', 'str', 'B'), ('str', "
                             "'software_version', 'str', '001.001'), ('str', "
                             "'physical_volume_id', 'str', 'PHYSVOL'), ('str', "
                             "'logical_volume_id', 'str', 'LOGVOL'), ('str', 'volume_set_id', "
                             "'str', 'VOLSET'), ('str', 'creation_datetime', 'str', "
                             "'2020-10-11T17:23:37.980000'), ('str', 'creation_country', "
                             "'str', 'JAPAN'), ('str', 'creation_agency', 'str', 'JAXA'), "
                             "('str', 'creation_facility', 'str', 'EICS'), ('str', "
                             "'product_id', 'str', 'PRODUCT:WWDR1.5RUA'), ('str', "
                             "'product_creation', 'str', 'PROCESS:JAPAN-JAXA-EICS  20150313 "
                             "062719'), ('str', 'scene_id', 'str', "
                             "'ORBIT:ALOS2014410740-140829'), ('str', 'scene_location_id', "
                             "'str', 'SCENE LOCATION')]))), ('arguments unchanged', True))",
 'open-memory:vol-blank-count': "(('returned', ('Group', '/', None, 'dict', {}, ('dict', "
                                "[('str', 'control_document_id', 'str', 'CEOS-SAR'), ('str', "
                                "'control_document_revision_level', 'str', 'A'), ('str', "
                                "'record_format_revision_level', 'str', 'B'), ('str', "
                                "'software_version', 'str', '001.001'), ('str', "
                                "'physical_volume_id', 'str', 'PHYSVOL'), ('str', "
                                "'logical_volume_id', 'str', 'LOGVOL'), ('str', "
                                "'volume_set_id', 'str', 'VOLSET'), ('str', "
                                "'creation_datetime', 'str', '2020-10-11T17:23:37.980000'), "
                                "('str', 'creation_country', 'str', 'JAPAN'), ('str', "
                                "'creation_agency', 'str', 'JAXA'), ('str', "
                                "'creation_facility', 'str', 'EICS'), ('str', 'product_id', "
                                "'str', 'PRODUCT:WWDR1.5RUA'), ('str', 'product_creation', "
                                "'str', 'PROCESS:JAPAN-JAXA-EICS  20150313 062719'), ('str', "
                                "'scene_id', 'str', 'ORBIT:ALOS2014410740-140829'), ('str', "
                                "'scene_location_id', 'str', 'SCENE LOCATION')]))), "
                                "('arguments unchanged', True))",
 'open-memory:empty': "(('raised', ('StreamError', 'Error in path (parsing) -> "
                      'volume_descriptor -> preamble -> record_sequence_number\\nstream read '
                      "less than specified amount, expected 4, found 0', None, False)), "
                      "('arguments unchanged', True))",
 'open-memory:missing': "(('raised', ('FileNotFoundError', 'Cannot open missing', ('KeyError', "
                        '"\'missing\'", (\'FileNotFoundError\', \'/equiv3/missing\', '
                        '(\'KeyError\', "\'/equiv3/missing\'", None, False), True), True), '
                        "True)), ('arguments unchanged', True))",
 'fresh:volume_descriptor': "(False, 'dict')",
 'fresh:text': "(False, 'dict')",
 'fresh:record': "(False, 'dict')",
 'patched:normalize_datetime': "(('returned', ('dict', [('str', 'creation_datetime', 'str', "
                               "'normalized'), ('str', 'x', 'int', 1)])), ('arguments "
                               "unchanged', True))",
 'patched:normalize_datetime:record': "(('returned', ('Group', '/', None, 'dict', {}, ('dict', "
                                      "[('str', 'control_document_id', 'str', 'value of "
                                      "superstructure_format_control_document_id'), ('str', "
                                      "'control_document_revision_level', 'str', 'value of "
                                      "superstructure_format_control_document_revision_level'), "
                                      "('str', 'record_format_revision_level', 'str', 'value "
                                      "of superstructure_record_format_revision_level'), "
                                      "('str', 'software_version', 'str', 'value of "
                                      "software_release_and_revision_level'), ('str', "
                                      "'physical_volume_id', 'str', 'value of "
                                      "physical_volume_id'), ('str', 'logical_volume_id', "
                                      "'str', 'value of logical_volume_id'), ('str', "
                                      "'volume_set_id', 'str', 'value of volume_set_id'), "
                                      "('str', 'creation_datetime', 'str', 'normalized'), "
                                      "('str', 'creation_country', 'str', 'value of "
                                      "logical_volume_generation_country'), ('str', "
                                      "'creation_agency', 'str', 'value of "
                                      "logical_volume_generating_agency'), ('str', "
                                      "'creation_facility', 'str', 'value of "
                                      "logical_volume_generating_facility'), ('str', "
                                      "'product_id', 'str', 'value of product_id'), ('str', "
                                      "'product_creation', 'str', 'value of "
                                      "location_and_datetime_of_product_creation'), ('str', "
                                      "'scene_id', 'str', 'value of scene_id'), ('str', "
                                      "'scene_location_id', 'str', 'value of "
                                      "scene_location_id')]))), ('arguments unchanged', True))",
 'patched:transformers': "(('returned', ('Group', '/', None, 'dict', {}, ('dict', [('str', "
                         "'text_record', 'str', 'text'), ('str', 'from', 'str', 'volume "
                         "descriptor')]))), ('arguments unchanged', True))",
 'patched:helpers:volume_descriptor': "(('returned', ('dict', [('str', 'spare', 'int', 1), "
                                      "('str', 'volume_set_id', 'int', 2)])), ('arguments "
                                      "unchanged', True))",
 'patched:helpers:text': "(('returned', ('dict', [('str', 'blanks', 'int', 1), ('str', "
                         "'scene_id', 'int', 2)])), ('arguments unchanged', True))",
 'patched:helpers:record': "(('returned', ('Group', '/', None, 'dict', {}, ('dict', [('str', "
                           "'file_descriptors', 'int', 1), ('str', 'text_record', 'dict', "
                           "{'blanks': 1})]))), ('arguments unchanged', True))",
 'patched:calls': "[('normalize', '1999123123595999'), ('normalize', '2020101117233798'), "
                  "('text', ['ascii_ebcdic_flag', 'blanks', "
                  "'location_and_datetime_of_product_creation', 'physical_tape_id', "
                  "'preamble', 'product_id', 'scene_id', 'scene_location_id']), "
                  "('volume_descriptor', ['ascii_ebcdic_flag', 'blanks', "
                  "'file_number_in_the_logical_volume', 'local_use_segment', "
                  "'logical_volume_creation_datetime', 'logical_volume_generating_agency', "
                  "'logical_volume_generating_facility', 'logical_volume_generation_country', "
                  "'logical_volume_id', 'logical_volume_number_within_physical_volume', "
                  "'logical_volume_within_a_volume_set', 'number_of_file_pointer_records', "
                  "'number_of_text_records_in_volume_directory', 'physical_volume_id', "
                  "'physical_volume_sequence_number_of_the_current_tape', "
                  "'physical_volume_sequence_number_of_the_first_tape', "
                  "'physical_volume_sequence_number_of_the_last_tape', 'preamble', "
                  "'software_release_and_revision_level', 'spare', "
                  "'superstructure_format_control_document_id', "
                  "'superstructure_format_control_document_revision_level', "
                  "'superstructure_record_format_revision_level', "
                  "'total_number_of_physical_volumes_in_logical_volume', 'volume_set_id']), "
                  "('dissoc', ['preamble', 'ascii_ebcdic_flag', 'blanks', 'spare', "
                  "'local_use_segment', 'total_number_of_physical_volumes_in_logical_volume', "
                  "'physical_volume_sequence_number_of_the_first_tape', "
                  "'physical_volume_sequence_number_of_the_last_tape', "
                  "'physical_volume_sequence_number_of_the_current_tape', "
                  "'file_number_in_the_logical_volume', 'logical_volume_within_a_volume_set', "
                  "'logical_volume_number_within_physical_volume', "
                  "'number_of_file_pointer_records', "
                  "'number_of_text_records_in_volume_directory'], ['spare', 'volume_set_id']), "
                  "('rename', ['spare', 'volume_set_id'], "
                  "{'superstructure_format_control_document_id': 'control_document_id', "
                  "'superstructure_format_control_document_revision_level': "
                  "'control_document_revision_level', "
                  "'superstructure_record_format_revision_level': "
                  "'record_format_revision_level', 'software_release_and_revision_level': "
                  "'software_version', 'logical_volume_creation_datetime': "
                  "'creation_datetime', 'logical_volume_generation_country': "
                  "'creation_country', 'logical_volume_generating_agency': 'creation_agency', "
                  "'logical_volume_generating_facility': 'creation_facility'}), "
                  "('apply_to_items', ['creation_datetime'], ['spare', 'volume_set_id'], {}), "
                  "('dissoc', ['preamble', 'ascii_ebcdic_flag', 'blanks', 'physical_tape_id'], "
                  "['blanks', 'scene_id']), ('rename', ['blanks', 'scene_id'], "
                  "{'location_and_datetime_of_product_creation': 'product_creation'}), "
                  "('dissoc', ['file_descriptors'], ['file_descriptors', 'text_record']), "
                  "('apply_to_items', ['text_record', 'volume_descriptor'], "
                  "['file_descriptors', 'text_record'], {}), ('remove_nesting_layer', "
                  "['file_descriptors', 'text_record'])]"}
# END EXPECTED


def test_outcomes():
    actual = run()
    assert list(actual) == list(EXPECTED)
    for key, value in actual.items():
        assert value == EXPECTED[key], (key, value, EXPECTED[key])


def test_module_surface():
    check_module_surface()


if __name__ == "__main__":
    if "--record" in sys.argv:
        print(repr(run()))
        sys.exit(0)

    test_outcomes()
    test_module_surface()
    print(f"ok: {len(EXPECTED)} recorded outcomes reproduced")
