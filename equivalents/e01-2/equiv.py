"""Equivalence check for refactoring 2 (``Array.__post_init__``).

Constructs ``Array`` objects for many ``records_per_chunk`` settings and compares the
resolved ``records_per_chunk`` (value *and* type), ``chunk_offsets``, ``chunks`` and the
``repr`` -- or the exception type -- with values recorded from the unchanged code.
Must pass with and without ``patch.diff`` applied.

    PYTHONPATH=/tmp/wt2/e01 /venv/bin/python _eq/2/equiv.py          # check
    PYTHONPATH=/tmp/wt2/e01 /venv/bin/python _eq/2/equiv.py --print  # dump observed values
"""

import pprint
import sys

import numpy as np

from ceos_alos2.array import Array

# five records of different sizes, separated by gaps
BYTE_RANGES = [(10, 30), (40, 100), (110, 120), (130, 170), (180, 200)]
EQUAL_RANGES = [(n * 30 + 10, (n + 1) * 30) for n in range(5)]


def construct(records_per_chunk, byte_ranges=BYTE_RANGES, shape=(5, 10), **kwargs):
    if records_per_chunk != "<default>":
        kwargs["records_per_chunk"] = records_per_chunk
    try:
        arr = Array(
            fs=None,
            url="image",
            byte_ranges=list(byte_ranges),
            shape=shape,
            dtype="uint16",
            type_code="IU2",
            **kwargs,
        )
    except Exception as e:  # noqa: BLE001
        return ("raises", type(e).__name__)

    return (
        type(arr.records_per_chunk).__name__,
        repr(arr.records_per_chunk),
        arr.chunk_offsets,
        tuple(repr(c) for c in arr.chunks),
        repr(arr),
    )


def observe():
    observed = {}

    settings = [
        "<default>",
        None,
        "auto",
        "80B",
        "0B",
        "100",
        "1kiB",
        "1e9 kB",
        "B",
        "",
        "5 foos",
        "AUTO",
        -1,
        0,
        1,
        2,
        4,
        5,
        6,
        10**9,
        -2,
        True,
        False,
        2.0,
        2.5,
        float("nan"),
        float("inf"),
        np.int64(3),
        np.int64(-1),
        np.uint8(200),
        (2,),
        b"auto",
    ]
    for setting in settings:
        observed[f"unequal-{setting!r}"] = construct(setting)
    for setting in ("auto", "20B", "39B", "41B", "61B", 3, None):
        observed[f"equal-{setting!r}"] = construct(setting, byte_ranges=EQUAL_RANGES)

    # no records at all
    for setting in (None, "auto", "10B", -1, 0, 4):
        observed[f"empty-{setting!r}"] = construct(setting, byte_ranges=[], shape=(0, 10))
    # a single record
    for setting in (None, "auto", "1B", -1, 1, 2):
        observed[f"single-{setting!r}"] = construct(setting, byte_ranges=[(7, 27)], shape=(1, 10))
    # 1d arrays
    for setting in (None, "auto", 2, 9):
        observed[f"1d-{setting!r}"] = construct(setting, shape=(5,))
    # the number of rows is only looked up for numeric settings
    for setting in (None, "auto", "80B", -1, 3):
        observed[f"0d-shape-{setting!r}"] = construct(setting, shape=())
    # shape and byte ranges disagree: the shape wins for numeric settings only
    for setting in (None, "auto", 4, 3, -1):
        observed[f"short-shape-{setting!r}"] = construct(setting, shape=(3, 10))

    # malformed byte ranges fail before the setting is looked at
    for setting in (None, "auto", "5 foos", 2):
        observed[f"3-tuples-{setting!r}"] = construct(setting, byte_ranges=[(0, 4, 8), (8, 12, 16)])
        observed[f"not-pairs-{setting!r}"] = construct(setting, byte_ranges=[1, 2, 3])
        observed[f"strings-{setting!r}"] = construct(setting, byte_ranges=[("a", "b")])
    # reversed ranges: negative record sizes
    for setting in (None, "auto", "0B", 2):
        observed[f"reversed-{setting!r}"] = construct(setting, byte_ranges=[(30, 10), (60, 40)], shape=(2, 10))

    return observed


# recorded with the unchanged code (clean HEAD)
EXPECTED = {"0d-shape-'80B'": ('int64',
                    'np.int64(2)',
                    {0: {'offset': 10, 'size': 90}, 1: {'offset': 110, 'size': 60}, 2: {'offset': 180, 'size': 20}},
                    ('np.int64(2)',),
                    "Array(url='image', shape=(), dtype='uint16', records_per_chunk=np.int64(2))"),
 "0d-shape-'auto'": ('int64',
                     'np.int64(5)',
                     {0: {'offset': 10, 'size': 190}},
                     ('np.int64(5)',),
                     "Array(url='image', shape=(), dtype='uint16', records_per_chunk=np.int64(5))"),
 '0d-shape--1': ('raises', 'IndexError'),
 '0d-shape-3': ('raises', 'IndexError'),
 '0d-shape-None': ('int',
                   '1024',
                   {0: {'offset': 10, 'size': 190}},
                   ('1024',),
                   "Array(url='image', shape=(), dtype='uint16', records_per_chunk=1024)"),
 "1d-'auto'": ('int64',
               'np.int64(5)',
               {0: {'offset': 10, 'size': 190}},
               ('np.int64(5)',),
               "Array(url='image', shape=(5,), dtype='uint16', records_per_chunk=np.int64(5))"),
 '1d-2': ('int',
          '2',
          {0: {'offset': 10, 'size': 90}, 1: {'offset': 110, 'size': 60}, 2: {'offset': 180, 'size': 20}},
          ('2',),
          "Array(url='image', shape=(5,), dtype='uint16', records_per_chunk=2)"),
 '1d-9': ('int',
          '5',
          {0: {'offset': 10, 'size': 190}},
          ('5',),
          "Array(url='image', shape=(5,), dtype='uint16', records_per_chunk=5)"),
 '1d-None': ('int',
             '1024',
             {0: {'offset': 10, 'size': 190}},
             ('1024',),
             "Array(url='image', shape=(5,), dtype='uint16', records_per_chunk=1024)"),
 "3-tuples-'5 foos'": ('raises', 'ValueError'),
 "3-tuples-'auto'": ('raises', 'ValueError'),
 '3-tuples-2': ('raises', 'ValueError'),
 '3-tuples-None': ('raises', 'ValueError'),
 "empty-'10B'": ('raises', 'ValueError'),
 "empty-'auto'": ('raises', 'ValueError'),
 'empty--1': ('int', '0', {}, ('0', '10'), "Array(url='image', shape=(0, 10), dtype='uint16', records_per_chunk=0)"),
 'empty-0': ('int', '0', {}, ('0', '10'), "Array(url='image', shape=(0, 10), dtype='uint16', records_per_chunk=0)"),
 'empty-4': ('int', '0', {}, ('0', '10'), "Array(url='image', shape=(0, 10), dtype='uint16', records_per_chunk=0)"),
 'empty-None': ('int',
                '1024',
                {},
                ('1024', '10'),
                "Array(url='image', shape=(0, 10), dtype='uint16', records_per_chunk=1024)"),
 "equal-'20B'": ('int64',
                 'np.int64(1)',
                 {0: {'offset': 10, 'size': 20},
                  1: {'offset': 40, 'size': 20},
                  2: {'offset': 70, 'size': 20},
                  3: {'offset': 100, 'size': 20},
                  4: {'offset': 130, 'size': 20}},
                 ('np.int64(1)', '10'),
                 "Array(url='image', shape=(5, 10), dtype='uint16', records_per_chunk=np.int64(1))"),
 "equal-'39B'": ('int64',
                 'np.int64(2)',
                 {0: {'offset': 10, 'size': 50}, 1: {'offset': 70, 'size': 50}, 2: {'offset': 130, 'size': 20}},
                 ('np.int64(2)', '10'),
                 "Array(url='image', shape=(5, 10), dtype='uint16', records_per_chunk=np.int64(2))"),
 "equal-'41B'": ('int64',
                 'np.int64(2)',
                 {0: {'offset': 10, 'size': 50}, 1: {'offset': 70, 'size': 50}, 2: {'offset': 130, 'size': 20}},
                 ('np.int64(2)', '10'),
                 "Array(url='image', shape=(5, 10), dtype='uint16', records_per_chunk=np.int64(2))"),
 "equal-'61B'": ('int64',
                 'np.int64(3)',
                 {0: {'offset': 10, 'size': 80}, 1: {'offset': 100, 'size': 50}},
                 ('np.int64(3)', '10'),
                 "Array(url='image', shape=(5, 10), dtype='uint16', records_per_chunk=np.int64(3))"),
 "equal-'auto'": ('int64',
                  'np.int64(5)',
                  {0: {'offset': 10, 'size': 140}},
                  ('np.int64(5)', '10'),
                  "Array(url='image', shape=(5, 10), dtype='uint16', records_per_chunk=np.int64(5))"),
 'equal-3': ('int',
             '3',
             {0: {'offset': 10, 'size': 80}, 1: {'offset': 100, 'size': 50}},
             ('3', '10'),
             "Array(url='image', shape=(5, 10), dtype='uint16', records_per_chunk=3)"),
 'equal-None': ('int',
                '1024',
                {0: {'offset': 10, 'size': 140}},
                ('1024', '10'),
                "Array(url='image', shape=(5, 10), dtype='uint16', records_per_chunk=1024)"),
 "not-pairs-'5 foos'": ('raises', 'TypeError'),
 "not-pairs-'auto'": ('raises', 'TypeError'),
 'not-pairs-2': ('raises', 'TypeError'),
 'not-pairs-None': ('raises', 'TypeError'),
 "reversed-'0B'": ('int64',
                   'np.int64(1)',
                   {0: {'offset': 30, 'size': -20}, 1: {'offset': 60, 'size': -20}},
                   ('np.int64(1)', '10'),
                   "Array(url='image', shape=(2, 10), dtype='uint16', records_per_chunk=np.int64(1))"),
 "reversed-'auto'": ('int64',
                     'np.int64(1)',
                     {0: {'offset': 30, 'size': -20}, 1: {'offset': 60, 'size': -20}},
                     ('np.int64(1)', '10'),
                     "Array(url='image', shape=(2, 10), dtype='uint16', records_per_chunk=np.int64(1))"),
 'reversed-2': ('int',
                '2',
                {0: {'offset': 30, 'size': 10}},
                ('2', '10'),
                "Array(url='image', shape=(2, 10), dtype='uint16', records_per_chunk=2)"),
 'reversed-None': ('int',
                   '1024',
                   {0: {'offset': 30, 'size': 10}},
                   ('1024', '10'),
                   "Array(url='image', shape=(2, 10), dtype='uint16', records_per_chunk=1024)"),
 "short-shape-'auto'": ('int64',
                        'np.int64(5)',
                        {0: {'offset': 10, 'size': 190}},
                        ('np.int64(5)', '10'),
                        "Array(url='image', shape=(3, 10), dtype='uint16', records_per_chunk=np.int64(5))"),
 'short-shape--1': ('int',
                    '3',
                    {0: {'offset': 10, 'size': 110}, 1: {'offset': 130, 'size': 70}},
                    ('3', '10'),
                    "Array(url='image', shape=(3, 10), dtype='uint16', records_per_chunk=3)"),
 'short-shape-3': ('int',
                   '3',
                   {0: {'offset': 10, 'size': 110}, 1: {'offset': 130, 'size': 70}},
                   ('3', '10'),
                   "Array(url='image', shape=(3, 10), dtype='uint16', records_per_chunk=3)"),
 'short-shape-4': ('int',
                   '3',
                   {0: {'offset': 10, 'size': 110}, 1: {'offset': 130, 'size': 70}},
                   ('3', '10'),
                   "Array(url='image', shape=(3, 10), dtype='uint16', records_per_chunk=3)"),
 'short-shape-None': ('int',
                      '1024',
                      {0: {'offset': 10, 'size': 190}},
                      ('1024', '10'),
                      "Array(url='image', shape=(3, 10), dtype='uint16', records_per_chunk=1024)"),
 "single-'1B'": ('int64',
                 'np.int64(1)',
                 {0: {'offset': 7, 'size': 20}},
                 ('np.int64(1)', '10'),
                 "Array(url='image', shape=(1, 10), dtype='uint16', records_per_chunk=np.int64(1))"),
 "single-'auto'": ('int64',
                   'np.int64(1)',
                   {0: {'offset': 7, 'size': 20}},
                   ('np.int64(1)', '10'),
                   "Array(url='image', shape=(1, 10), dtype='uint16', records_per_chunk=np.int64(1))"),
 'single--1': ('int',
               '1',
               {0: {'offset': 7, 'size': 20}},
               ('1', '10'),
               "Array(url='image', shape=(1, 10), dtype='uint16', records_per_chunk=1)"),
 'single-1': ('int',
              '1',
              {0: {'offset': 7, 'size': 20}},
              ('1', '10'),
              "Array(url='image', shape=(1, 10), dtype='uint16', records_per_chunk=1)"),
 'single-2': ('int',
              '1',
              {0: {'offset': 7, 'size': 20}},
              ('1', '10'),
              "Array(url='image', shape=(1, 10), dtype='uint16', records_per_chunk=1)"),
 'single-None': ('int',
                 '1024',
                 {0: {'offset': 7, 'size': 20}},
                 ('1024', '10'),
                 "Array(url='image', shape=(1, 10), dtype='uint16', records_per_chunk=1024)"),
 "strings-'5 foos'": ('raises', 'TypeError'),
 "strings-'auto'": ('raises', 'TypeError'),
 'strings-2': ('raises', 'TypeError'),
 'strings-None': ('raises', 'TypeError'),
 "unequal-''": ('int64',
                'np.int64(1)',
                {0: {'offset': 10, 'size': 20},
                 1: {'offset': 40, 'size': 60},
                 2: {'offset': 110, 'size': 10},
                 3: {'offset': 130, 'size': 40},
                 4: {'offset': 180, 'size': 20}},
                ('np.int64(1)', '10'),
                "Array(url='image', shape=(5, 10), dtype='uint16', records_per_chunk=np.int64(1))"),
 "unequal-'0B'": ('int64',
                  'np.int64(1)',
                  {0: {'offset': 10, 'size': 20},
                   1: {'offset': 40, 'size': 60},
                   2: {'offset': 110, 'size': 10},
                   3: {'offset': 130, 'size': 40},
                   4: {'offset': 180, 'size': 20}},
                  ('np.int64(1)', '10'),
                  "Array(url='image', shape=(5, 10), dtype='uint16', records_per_chunk=np.int64(1))"),
 "unequal-'100'": ('int64',
                   'np.int64(3)',
                   {0: {'offset': 10, 'size': 110}, 1: {'offset': 130, 'size': 70}},
                   ('np.int64(3)', '10'),
                   "Array(url='image', shape=(5, 10), dtype='uint16', records_per_chunk=np.int64(3))"),
 "unequal-'1e9 kB'": ('int64',
                      'np.int64(5)',
                      {0: {'offset': 10, 'size': 190}},
                      ('np.int64(5)', '10'),
                      "Array(url='image', shape=(5, 10), dtype='uint16', records_per_chunk=np.int64(5))"),
 "unequal-'1kiB'": ('int64',
                    'np.int64(5)',
                    {0: {'offset': 10, 'size': 190}},
                    ('np.int64(5)', '10'),
                    "Array(url='image', shape=(5, 10), dtype='uint16', records_per_chunk=np.int64(5))"),
 "unequal-'5 foos'": ('raises', 'ValueError'),
 "unequal-'80B'": ('int64',
                   'np.int64(2)',
                   {0: {'offset': 10, 'size': 90}, 1: {'offset': 110, 'size': 60}, 2: {'offset': 180, 'size': 20}},
                   ('np.int64(2)', '10'),
                   "Array(url='image', shape=(5, 10), dtype='uint16', records_per_chunk=np.int64(2))"),
 "unequal-'<default>'": ('int',
                         '1024',
                         {0: {'offset': 10, 'size': 190}},
                         ('1024', '10'),
                         "Array(url='image', shape=(5, 10), dtype='uint16', records_per_chunk=1024)"),
 "unequal-'AUTO'": ('raises', 'ValueError'),
 "unequal-'B'": ('int64',
                 'np.int64(1)',
                 {0: {'offset': 10, 'size': 20},
                  1: {'offset': 40, 'size': 60},
                  2: {'offset': 110, 'size': 10},
                  3: {'offset': 130, 'size': 40},
                  4: {'offset': 180, 'size': 20}},
                 ('np.int64(1)', '10'),
                 "Array(url='image', shape=(5, 10), dtype='uint16', records_per_chunk=np.int64(1))"),
 "unequal-'auto'": ('int64',
                    'np.int64(5)',
                    {0: {'offset': 10, 'size': 190}},
                    ('np.int64(5)', '10'),
                    "Array(url='image', shape=(5, 10), dtype='uint16', records_per_chunk=np.int64(5))"),
 'unequal-(2,)': ('raises', 'TypeError'),
 'unequal--1': ('int',
                '5',
                {0: {'offset': 10, 'size': 190}},
                ('5', '10'),
                "Array(url='image', shape=(5, 10), dtype='uint16', records_per_chunk=5)"),
 'unequal--2': ('int',
                '-2',
                {},
                ('-2', '10'),
                "Array(url='image', shape=(5, 10), dtype='uint16', records_per_chunk=-2)"),
 'unequal-0': ('int', '0', {}, ('0', '10'), "Array(url='image', shape=(5, 10), dtype='uint16', records_per_chunk=0)"),
 'unequal-1': ('int',
               '1',
               {0: {'offset': 10, 'size': 20},
                1: {'offset': 40, 'size': 60},
                2: {'offset': 110, 'size': 10},
                3: {'offset': 130, 'size': 40},
                4: {'offset': 180, 'size': 20}},
               ('1', '10'),
               "Array(url='image', shape=(5, 10), dtype='uint16', records_per_chunk=1)"),
 'unequal-1000000000': ('int',
                        '5',
                        {0: {'offset': 10, 'size': 190}},
                        ('5', '10'),
                        "Array(url='image', shape=(5, 10), dtype='uint16', records_per_chunk=5)"),
 'unequal-2': ('int',
               '2',
               {0: {'offset': 10, 'size': 90}, 1: {'offset': 110, 'size': 60}, 2: {'offset': 180, 'size': 20}},
               ('2', '10'),
               "Array(url='image', shape=(5, 10), dtype='uint16', records_per_chunk=2)"),
 'unequal-2.0': ('raises', 'TypeError'),
 'unequal-2.5': ('raises', 'TypeError'),
 'unequal-4': ('int',
               '4',
               {0: {'offset': 10, 'size': 160}, 1: {'offset': 180, 'size': 20}},
               ('4', '10'),
               "Array(url='image', shape=(5, 10), dtype='uint16', records_per_chunk=4)"),
 'unequal-5': ('int',
               '5',
               {0: {'offset': 10, 'size': 190}},
               ('5', '10'),
               "Array(url='image', shape=(5, 10), dtype='uint16', records_per_chunk=5)"),
 'unequal-6': ('int',
               '5',
               {0: {'offset': 10, 'size': 190}},
               ('5', '10'),
               "Array(url='image', shape=(5, 10), dtype='uint16', records_per_chunk=5)"),
 'unequal-False': ('bool',
                   'False',
                   {},
                   ('False', '10'),
                   "Array(url='image', shape=(5, 10), dtype='uint16', records_per_chunk=False)"),
 'unequal-None': ('int',
                  '1024',
                  {0: {'offset': 10, 'size': 190}},
                  ('1024', '10'),
                  "Array(url='image', shape=(5, 10), dtype='uint16', records_per_chunk=1024)"),
 'unequal-True': ('bool',
                  'True',
                  {0: {'offset': 10, 'size': 20},
                   1: {'offset': 40, 'size': 60},
                   2: {'offset': 110, 'size': 10},
                   3: {'offset': 130, 'size': 40},
                   4: {'offset': 180, 'size': 20}},
                  ('True', '10'),
                  "Array(url='image', shape=(5, 10), dtype='uint16', records_per_chunk=True)"),
 "unequal-b'auto'": ('raises', 'TypeError'),
 'unequal-inf': ('int',
                 '5',
                 {0: {'offset': 10, 'size': 190}},
                 ('5', '10'),
                 "Array(url='image', shape=(5, 10), dtype='uint16', records_per_chunk=5)"),
 'unequal-nan': ('raises', 'TypeError'),
 'unequal-np.int64(-1)': ('int',
                          '5',
                          {0: {'offset': 10, 'size': 190}},
                          ('5', '10'),
                          "Array(url='image', shape=(5, 10), dtype='uint16', records_per_chunk=5)"),
 'unequal-np.int64(3)': ('int64',
                         'np.int64(3)',
                         {0: {'offset': 10, 'size': 110}, 1: {'offset': 130, 'size': 70}},
                         ('np.int64(3)', '10'),
                         "Array(url='image', shape=(5, 10), dtype='uint16', records_per_chunk=np.int64(3))"),
 'unequal-np.uint8(200)': ('int',
                           '5',
                           {0: {'offset': 10, 'size': 190}},
                           ('5', '10'),
                           "Array(url='image', shape=(5, 10), dtype='uint16', records_per_chunk=5)")}


if __name__ == "__main__":
    import ceos_alos2

    observed = observe()
    if "--print" in sys.argv:
        pprint.pprint(observed, width=120)
        sys.exit(0)

    assert set(observed) == set(EXPECTED), set(observed) ^ set(EXPECTED)
    for key, value in EXPECTED.items():
        assert observed[key] == value, (key, observed[key], value)
    print(f"ok: {len(observed)} cases identical ({ceos_alos2.__file__})")
