"""Equivalence check for refactoring 3: ``ceos_alos2.sar_image.metadata.extract_attrs``.

Run as a script (``python equiv.py``) or through pytest.  ``python equiv.py --record``
prints the observed results (used once, on the unchanged code, to fill ``EXPECTED``).
"""

import collections
import pprint
import struct
import sys

import numpy as np

from ceos_alos2.sar_image import metadata
from ceos_alos2.sar_image.file_descriptor import file_descriptor_record
from ceos_alos2.utils import to_dict

nan = float("nan")
inf = float("inf")


def make_header(**values):
    """a real, parsed file descriptor record with the given ascii fields filled in"""

    def walk(struct_, out):
        for sc in struct_.subcons:
            inner = sc.subcon if hasattr(sc, "subcon") else sc
            if hasattr(inner, "subcons"):
                sub = []
                walk(inner, sub)
                out.append((sc.name, sub))
            else:
                out.append((sc.name, sc.sizeof()))

    layout = []
    walk(file_descriptor_record, layout)

    def emit(layout):
        out = b""
        for name, item in layout:
            if name == "preamble":
                out += struct.pack(">IBBBBI", 1, 50, 192, 18, 18, 720)
            elif isinstance(item, list):
                out += emit(item)
            else:
                out += str(values.get(name, "")).rjust(item).encode("ascii")[:item]
        return out

    raw = emit(layout)
    assert len(raw) == 720
    return to_dict(file_descriptor_record.parse(raw))


class Weird:
    """compares unequal to everything, is not a number"""

    def __eq__(self, other):
        return False

    def __ne__(self, other):
        return True

    def __repr__(self):
        return "Weird()"

    __hash__ = None


locators = "prefix_suffix_data_locators"
scansar = "scansar_burst_data_information"

CASES = {
    # the cases of the test suite
    "preamble": {"preamble": {}},
    "known_attrs": {
        "interleaving_id": "BSQ",
        "number_of_burst_data": 5,
        "number_of_lines_per_burst": 1,
        "number_of_overlap_lines_with_adjacent_bursts": 3,
    },
    "transformed1": {"maximum_data_range_of_pixel": 27},
    "transformed2": {"maximum_data_range_of_pixel": nan},
    # real headers
    "real-level11-fullaperture": make_header(
        interleaving_id="BSQ", sar_data_format_type_code="C*8", number_of_sar_data_records=3
    ),
    "real-level15": make_header(
        interleaving_id="BSQ", sar_data_format_type_code="IU2", maximum_data_range_of_pixel=65535
    ),
    "real-level11-specan": make_header(
        interleaving_id="BSQ",
        sar_data_format_type_code="C*8",
        number_of_burst_data=120,
        number_of_lines_per_burst=348,
        number_of_overlap_lines_with_adjacent_bursts=31,
    ),
    "real-all-blank": make_header(),
    "real-zeros": make_header(
        maximum_data_range_of_pixel=0,
        number_of_burst_data=0,
        number_of_lines_per_burst=0,
        number_of_overlap_lines_with_adjacent_bursts=0,
    ),
    "real-minus-one-explicit": make_header(
        maximum_data_range_of_pixel=-1, number_of_burst_data=-1, interleaving_id="BIL"
    ),
    "real-negative": make_header(maximum_data_range_of_pixel=-5, number_of_burst_data=-2),
    # hand-made
    "empty": {},
    "only-unknown": {"a": 1, "section": {"b": 2, "c": {"d": 3}}},
    "nested-known": {
        "preamble": {"interleaving_id": "hidden"},
        "section": {"interleaving_id": "BSQ", "other": 1},
        locators: {"maximum_data_range_of_pixel": 255, "number_of_burst_data": -1},
        scansar: {"number_of_overlap_lines_with_adjacent_bursts": 7, "blanks": ""},
    },
    "order-is-input-order": {
        scansar: {"number_of_overlap_lines_with_adjacent_bursts": 7},
        "number_of_lines_per_burst": 2,
        locators: {"number_of_burst_data": 4, "maximum_data_range_of_pixel": 9},
        "interleaving_id": "BSQ",
    },
    "collision-top-then-nested": {
        "number_of_burst_data": 1,
        "maximum_data_range_of_pixel": 3,
        "section": {"number_of_burst_data": 2},
    },
    "collision-nested-then-top": {"section": {"number_of_burst_data": -1}, "number_of_burst_data": 2},
    "two-levels-deep": {"a": {"b": {"number_of_burst_data": 2}, "number_of_lines_per_burst": 5}},
    "nested-preamble-not-ignored": {"section": {"preamble": {"x": 1}, "interleaving_id": "X"}},
    "already-translated-name": {"valid_range": [0, 1], "maximum_data_range_of_pixel": 5},
    "minus-one-everywhere": {
        "maximum_data_range_of_pixel": -1,
        "number_of_burst_data": -1,
        "number_of_lines_per_burst": -1,
        "number_of_overlap_lines_with_adjacent_bursts": -1,
        "interleaving_id": -1,
    },
    "minus-one-float": {"maximum_data_range_of_pixel": -1.0, "number_of_burst_data": -1.0},
    "floats": {"maximum_data_range_of_pixel": 2.5, "number_of_burst_data": 1.5},
    "inf": {"maximum_data_range_of_pixel": inf, "number_of_lines_per_burst": -inf},
    "nan-bursts": {"number_of_burst_data": nan, "number_of_lines_per_burst": nan},
    "bools": {"maximum_data_range_of_pixel": True, "number_of_burst_data": False},
    "zero": {"maximum_data_range_of_pixel": 0, "number_of_burst_data": 0},
    "empty-list-values": {"interleaving_id": [], "number_of_burst_data": []},
    "list-values": {"interleaving_id": ["BSQ"], "number_of_burst_data": [1, 2]},
    "falsy-non-list-values": {
        "interleaving_id": "",
        "number_of_burst_data": 0,
        "number_of_lines_per_burst": None,
        "number_of_overlap_lines_with_adjacent_bursts": (),
    },
    "dict-value-is-flattened-away": {"interleaving_id": {"number_of_burst_data": 3}},
    "string-range": {"maximum_data_range_of_pixel": "27"},
    "none-range": {"maximum_data_range_of_pixel": None},
    "list-range": {"maximum_data_range_of_pixel": [1]},
    "complex-range": {"maximum_data_range_of_pixel": 1j},
    "string-bursts": {"number_of_burst_data": "5", "number_of_lines_per_burst": "-1"},
    "numpy-scalars": {
        "maximum_data_range_of_pixel": np.float32(7),
        "number_of_burst_data": np.int64(-1),
        "number_of_lines_per_burst": np.int16(4),
    },
    "numpy-nan": {"maximum_data_range_of_pixel": np.float64("nan")},
    "numpy-array-range": {"maximum_data_range_of_pixel": np.array([1, 2])},
    "numpy-array-bursts": {"number_of_burst_data": np.array([1, -1])},
    "numpy-array-1elem": {"number_of_burst_data": np.array([-1]), "interleaving_id": np.array([])},
    "weird-object": {"number_of_burst_data": Weird(), "maximum_data_range_of_pixel": Weird()},
    "huge-int": {"maximum_data_range_of_pixel": 10**400},
    "ordered-dict": collections.OrderedDict(
        [("section", collections.OrderedDict(number_of_burst_data=3)), ("interleaving_id", "BSQ")]
    ),
    "non-string-keys": {1: 2, ("a",): {"number_of_burst_data": 9, None: 1}},
    "header-none": None,
    "header-list": [("interleaving_id", "BSQ")],
    "header-str": "interleaving_id",
}


def canon(value):
    if isinstance(value, dict):
        return (type(value).__name__, [(k, canon(v)) for k, v in value.items()])
    if isinstance(value, (list, tuple)):
        return (type(value).__name__, [canon(v) for v in value])
    return (type(value).__name__, repr(value))


def run_case(header):
    try:
        result = metadata.extract_attrs(header)
    except Exception as e:
        return ("raises", type(e).__name__, str(e))
    return ("ok", canon(result))


def observe():
    results = {name: run_case(header) for name, header in CASES.items()}

    # the input is left alone
    header = CASES["nested-known"]
    before = repr(header)
    metadata.extract_attrs(header)
    results["input-unchanged"] = repr(header) == before

    # results do not share state between calls
    first = metadata.extract_attrs({"maximum_data_range_of_pixel": 3})
    first["valid_range"].append("x")
    results["fresh-lists"] = canon(metadata.extract_attrs({"maximum_data_range_of_pixel": 3}))
    return results


# recorded from the unchanged code (HEAD) with `python equiv.py --record`
EXPECTED = {'preamble': ('ok', ('dict', [])),
 'known_attrs': ('ok',
                 ('dict',
                  [('interleaving_id', ('str', "'BSQ'")),
                   ('number_of_burst_data', ('int', '5')),
                   ('number_of_lines_per_burst', ('int', '1')),
                   ('number_of_overlap_lines_with_adjacent_bursts', ('int', '3'))])),
 'transformed1': ('ok', ('dict', [('valid_range', ('list', [('int', '0'), ('int', '27')]))])),
 'transformed2': ('ok', ('dict', [])),
 'real-level11-fullaperture': ('ok', ('dict', [('interleaving_id', ('str', "'BSQ'"))])),
 'real-level15': ('ok',
                  ('dict',
                   [('interleaving_id', ('str', "'BSQ'")),
                    ('valid_range', ('list', [('int', '0'), ('int', '65535')]))])),
 'real-level11-specan': ('ok',
                         ('dict',
                          [('interleaving_id', ('str', "'BSQ'")),
                           ('number_of_burst_data', ('int', '120')),
                           ('number_of_lines_per_burst', ('int', '348')),
                           ('number_of_overlap_lines_with_adjacent_bursts', ('int', '31'))])),
 'real-all-blank': ('ok', ('dict', [('interleaving_id', ('str', "''"))])),
 'real-zeros': ('ok',
                ('dict',
                 [('interleaving_id', ('str', "''")),
                  ('valid_range', ('list', [('int', '0'), ('int', '0')])),
                  ('number_of_burst_data', ('int', '0')),
                  ('number_of_lines_per_burst', ('int', '0')),
                  ('number_of_overlap_lines_with_adjacent_bursts', ('int', '0'))])),
 'real-minus-one-explicit': ('ok', ('dict', [('interleaving_id', ('str', "'BIL'"))])),
 'real-negative': ('ok',
                   ('dict',
                    [('interleaving_id', ('str', "''")),
                     ('valid_range', ('list', [('int', '0'), ('int', '-5')])),
                     ('number_of_burst_data', ('int', '-2'))])),
 'empty': ('ok', ('dict', [])),
 'only-unknown': ('ok', ('dict', [])),
 'nested-known': ('ok',
                  ('dict',
                   [('interleaving_id', ('str', "'BSQ'")),
                    ('valid_range', ('list', [('int', '0'), ('int', '255')])),
                    ('number_of_overlap_lines_with_adjacent_bursts', ('int', '7'))])),
 'order-is-input-order': ('ok',
                          ('dict',
                           [('number_of_overlap_lines_with_adjacent_bursts', ('int', '7')),
                            ('number_of_lines_per_burst', ('int', '2')),
                            ('number_of_burst_data', ('int', '4')),
                            ('valid_range', ('list', [('int', '0'), ('int', '9')])),
                            ('interleaving_id', ('str', "'BSQ'"))])),
 'collision-top-then-nested': ('ok',
                               ('dict',
                                [('number_of_burst_data', ('int', '2')),
                                 ('valid_range', ('list', [('int', '0'), ('int', '3')]))])),
 'collision-nested-then-top': ('ok', ('dict', [('number_of_burst_data', ('int', '2'))])),
 'two-levels-deep': ('ok', ('dict', [('number_of_lines_per_burst', ('int', '5'))])),
 'nested-preamble-not-ignored': ('ok', ('dict', [('interleaving_id', ('str', "'X'"))])),
 'already-translated-name': ('ok',
                             ('dict', [('valid_range', ('list', [('int', '0'), ('int', '5')]))])),
 'minus-one-everywhere': ('ok', ('dict', [('interleaving_id', ('int', '-1'))])),
 'minus-one-float': ('ok', ('dict', [])),
 'floats': ('ok',
            ('dict',
             [('valid_range', ('list', [('int', '0'), ('float', '2.5')])),
              ('number_of_burst_data', ('float', '1.5'))])),
 'inf': ('ok',
         ('dict',
          [('valid_range', ('list', [('int', '0'), ('float', 'inf')])),
           ('number_of_lines_per_burst', ('float', '-inf'))])),
 'nan-bursts': ('ok',
                ('dict',
                 [('number_of_burst_data', ('float', 'nan')),
                  ('number_of_lines_per_burst', ('float', 'nan'))])),
 'bools': ('ok',
           ('dict',
            [('valid_range', ('list', [('int', '0'), ('bool', 'True')])),
             ('number_of_burst_data', ('bool', 'False'))])),
 'zero': ('ok',
          ('dict',
           [('valid_range', ('list', [('int', '0'), ('int', '0')])),
            ('number_of_burst_data', ('int', '0'))])),
 'empty-list-values': ('ok', ('dict', [])),
 'list-values': ('ok',
                 ('dict',
                  [('interleaving_id', ('list', [('str', "'BSQ'")])),
                   ('number_of_burst_data', ('list', [('int', '1'), ('int', '2')]))])),
 'falsy-non-list-values': ('ok',
                           ('dict',
                            [('interleaving_id', ('str', "''")),
                             ('number_of_burst_data', ('int', '0')),
                             ('number_of_lines_per_burst', ('NoneType', 'None')),
                             ('number_of_overlap_lines_with_adjacent_bursts', ('tuple', []))])),
 'dict-value-is-flattened-away': ('ok', ('dict', [('number_of_burst_data', ('int', '3'))])),
 'string-range': ('raises', 'TypeError', 'must be real number, not str'),
 'none-range': ('raises', 'TypeError', 'must be real number, not NoneType'),
 'list-range': ('raises', 'TypeError', 'must be real number, not list'),
 'complex-range': ('raises', 'TypeError', 'must be real number, not complex'),
 'string-bursts': ('ok',
                   ('dict',
                    [('number_of_burst_data', ('str', "'5'")),
                     ('number_of_lines_per_burst', ('str', "'-1'"))])),
 'numpy-scalars': ('ok',
                   ('dict',
                    [('valid_range', ('list', [('int', '0'), ('float32', 'np.float32(7.0)')])),
                     ('number_of_lines_per_burst', ('int16', 'np.int16(4)'))])),
 'numpy-nan': ('ok', ('dict', [])),
 'numpy-array-range': ('raises',
                       'ValueError',
                       'The truth value of an array with more than one element is ambiguous. Use '
                       'a.any() or a.all()'),
 'numpy-array-bursts': ('raises',
                        'ValueError',
                        'The truth value of an array with more than one element is ambiguous. Use '
                        'a.any() or a.all()'),
 'numpy-array-1elem': ('ok',
                       ('dict', [('interleaving_id', ('ndarray', 'array([], dtype=float64)'))])),
 'weird-object': ('raises', 'TypeError', 'must be real number, not Weird'),
 'huge-int': ('raises', 'OverflowError', 'int too large to convert to float'),
 'ordered-dict': ('ok',
                  ('dict',
                   [('number_of_burst_data', ('int', '3')),
                    ('interleaving_id', ('str', "'BSQ'"))])),
 'non-string-keys': ('ok', ('dict', [('number_of_burst_data', ('int', '9'))])),
 'header-none': ('raises', 'AttributeError', "'NoneType' object has no attribute 'items'"),
 'header-list': ('raises', 'AttributeError', "'list' object has no attribute 'items'"),
 'header-str': ('raises', 'AttributeError', "'str' object has no attribute 'items'"),
 'input-unchanged': True,
 'fresh-lists': ('dict', [('valid_range', ('list', [('int', '0'), ('int', '3')]))])}


def test_equiv():
    observed = observe()
    assert list(observed) == list(EXPECTED)
    for name in observed:
        assert observed[name] == EXPECTED[name], name


if __name__ == "__main__":
    if "--record" in sys.argv:
        pprint.pprint(observe(), sort_dicts=False, width=100)
    else:
        test_equiv()
        print(f"ok: {len(EXPECTED)} cases")
