"""Equivalence check for refactoring 2: compute_selected_ranges and
groupby_chunks in ceos_alos2/array.py (toolz get / groupby replaced by plain
python).

Run: PYTHONPATH=/tmp/wt6/e42 python _eq/2/equiv.py   (or with pytest)
The EXPECTED table was recorded from the unchanged code (git HEAD).
"""
import numpy as np

from ceos_alos2 import array


class Sized:
    """has a length and can be enumerated, but is not a list"""

    def __init__(self, items):
        self.items = items

    def __len__(self):
        return len(self.items)

    def __iter__(self):
        return iter(self.items)


def gen(items):
    yield from items


def cases():
    out = []

    def add(name, func, *args, **kwargs):
        out.append((name, lambda: func(*args, **kwargs)))

    byte_ranges = [(0, 3), (5, 8), (16, 19), (22, 25)]
    indexers = {
        "int-0": 0,
        "int-2": 2,
        "int-neg1": -1,
        "int-neg4": -4,
        "int-oob": 4,
        "int-neg-oob": -5,
        "bool-true": True,
        "bool-false": False,
        "npint": np.int64(1),
        "npint-oob": np.int64(7),
        "list-empty": [],
        "list-one": [3],
        "list-one-oob": [9],
        "list-two": [0, 2],
        "list-neg": [0, -1],
        "list-dup": [1, 1, 1],
        "list-unordered": [3, 0, 2],
        "list-oob-late": [0, 1, 10],
        "list-npint": [np.int64(2), np.int64(0)],
        "list-bool": [True, False],
        "list-str": ["a"],
        "list-str2": [0, "a"],
        "list-float": [1.0],
        "list-float2": [0, 1.0],
        "list-none": [None],
        "list-slice": [slice(0, 2)],
        "list-slices": [slice(0, 2), 3],
        "list-nested": [[0, 1]],
        "list-nested2": [[0, 1], 2],
        "tuple": (0, 3),
        "tuple-empty": (),
        "range": range(1, 3),
        "array": np.array([0, 3, 1]),
        "array-empty": np.array([], dtype=int),
        "array-bool": np.array([True, False, True, False]),
        "array-0d": np.array(2),
        "array-2d": np.array([[0, 1], [2, 3]]),
        "array-float": np.array([0.0, 1.0]),
        "gen": None,  # replaced below
        "str": "12",
        "none": None,
        "float": 1.0,
        "dict": {1: "a", 0: "b"},
        "slice-all": slice(None),
        "slice-0-1": slice(0, 1),
        "slice-2-": slice(2, None),
        "slice--2": slice(None, 2),
        "slice-step2": slice(None, None, 2),
        "slice-neg-step": slice(-1, None, -2),
        "slice-rev": slice(None, None, -1),
        "slice-empty": slice(3, 1),
        "slice-oob": slice(2, 100),
        "slice-neg-oob": slice(-100, 2),
        "slice-step0": slice(None, None, 0),
        "slice-float": slice(0.5, 2),
        "slice-npint": slice(np.int64(1), np.int64(3)),
        "ellipsis": Ellipsis,
    }
    for name, indexer in indexers.items():
        if name == "gen":
            add("sel-gen", lambda: array.compute_selected_ranges(byte_ranges, gen([2, 0])))
            continue
        add(f"sel-{name}", array.compute_selected_ranges, byte_ranges, indexer)

    # other containers of byte ranges
    for name, indexer in [("int", 1), ("list", [0, -1]), ("slice", slice(1, None)), ("empty", [])]:
        add(f"sel-tuple-ranges-{name}", array.compute_selected_ranges, tuple(byte_ranges), indexer)
        add(f"sel-no-ranges-{name}", array.compute_selected_ranges, [], indexer)
        add(f"sel-sized-ranges-{name}", array.compute_selected_ranges, Sized(byte_ranges), indexer)
        add(
            f"sel-gen-ranges-{name}",
            lambda indexer=indexer: array.compute_selected_ranges(gen(byte_ranges), indexer),
        )
        add(f"sel-array-ranges-{name}", array.compute_selected_ranges, np.array(byte_ranges), indexer)
        add(f"sel-none-ranges-{name}", array.compute_selected_ranges, None, indexer)
        add(f"sel-str-ranges-{name}", array.compute_selected_ranges, "abcd", indexer)
    add("sel-kw", lambda: array.compute_selected_ranges(byte_ranges=byte_ranges, indexer=[1]))

    # the result is a fresh list of the very same (row, range) pairs
    def identity():
        ranges = [(0, 3), (5, 8)]
        result = array.compute_selected_ranges(ranges, [1, 0, 1])
        return [type(result).__name__, [type(r).__name__ for r in result],
                [r[1] is ranges[r[0]] for r in result]]

    add("sel-identity", identity)

    # groupby_chunks
    full = [(0, 3), (3, 6), (6, 9), (9, 12), (12, 15), (15, 18)]
    numbered = list(enumerate(full))
    for chunksize in [1, 2, 3, 4, 6, 7, 100, -1, -2, 0, 2.0, 0.5, np.int64(2), None, "2", True,
                      float("inf"), float("nan")]:
        add(f"grp-all-{chunksize!r}", array.groupby_chunks, numbered, chunksize)
    for name, sel in {
        "empty": [],
        "one": [numbered[4]],
        "rev": numbered[::-1],
        "interleaved": [numbered[i] for i in (5, 0, 3, 1, 4, 2)],
        "dup": [numbered[i] for i in (1, 1, 4, 1)],
        "tuple": tuple(numbered),
        "lists": [list(item) for item in numbered],
        "neg-rows": [(-1, (0, 1)), (-2, (1, 2)), (-3, (2, 3)), (0, (3, 4))],
        "float-rows": [(0.5, (0, 1)), (2.5, (1, 2)), (3.0, (2, 3))],
        "nan-rows": [(float("nan"), (0, 1)), (float("nan"), (1, 2))],
        "np-rows": [(np.int64(i), r) for i, r in numbered],
        "three-items": [(0, (0, 1), "x"), (1, (1, 2), "y")],
        "one-item": [(0,), (1,)],
        "late-bad-key": [(0, (0, 1), "x"), ("a", (1, 2))],
        "late-short": [(0, (0, 1)), (1,), ("a", (1, 2))],
        "str-items": ["ab", "cd"],
        "bytes-items": [b"\x00\x01", b"\x05\x02"],
        "int-items": [0, 1],
        "none-item": [None],
        "unhashable-key": [(np.array([0, 1]), (0, 1))],
        "dict-items": [{0: 4, 1: 5}],
        "range-values": [(0, range(3)), (1, range(4)), (2, None)],
    }.items():
        for chunksize in (2, 3):
            add(f"grp-{name}-{chunksize}", array.groupby_chunks, sel, chunksize)
    add("grp-gen", lambda: array.groupby_chunks(gen(numbered), 4))
    add("grp-dict", array.groupby_chunks, dict(numbered), 2)
    add("grp-none", array.groupby_chunks, None, 2)
    add("grp-int", array.groupby_chunks, 5, 2)
    add("grp-kw", lambda: array.groupby_chunks(byte_ranges=numbered, chunksize=5))
    add("grp-kw-pos", lambda: array.groupby_chunks(numbered, chunksize=4))

    def grp_identity():
        result = array.groupby_chunks(numbered, 4)
        return [type(result).__name__, list(result), [type(v).__name__ for v in result.values()],
                [all(a is b for a, b in zip(sum(result.values(), []), full))]]

    add("grp-identity", grp_identity)

    return out


# recorded from the unchanged code
EXPECTED = {'sel-int-0': 'list(tuple(builtins.int:0, tuple(builtins.int:0, builtins.int:3)))',
 'sel-int-2': 'list(tuple(builtins.int:2, tuple(builtins.int:16, builtins.int:19)))',
 'sel-int-neg1': 'list(tuple(builtins.int:3, tuple(builtins.int:22, builtins.int:25)))',
 'sel-int-neg4': 'list(tuple(builtins.int:0, tuple(builtins.int:0, builtins.int:3)))',
 'sel-int-oob': 'raise builtins.IndexError: list index out of range',
 'sel-int-neg-oob': 'raise builtins.IndexError: list index out of range',
 'sel-bool-true': 'list(tuple(builtins.int:1, tuple(builtins.int:5, builtins.int:8)))',
 'sel-bool-false': 'list(tuple(builtins.int:0, tuple(builtins.int:0, builtins.int:3)))',
 'sel-npint': "raise builtins.TypeError: 'numpy.int64' object is not iterable",
 'sel-npint-oob': "raise builtins.TypeError: 'numpy.int64' object is not iterable",
 'sel-list-empty': 'list()',
 'sel-list-one': 'list(tuple(builtins.int:3, tuple(builtins.int:22, builtins.int:25)))',
 'sel-list-one-oob': 'raise builtins.IndexError: list index out of range',
 'sel-list-two': 'list(tuple(builtins.int:0, tuple(builtins.int:0, builtins.int:3)), '
                 'tuple(builtins.int:2, tuple(builtins.int:16, builtins.int:19)))',
 'sel-list-neg': 'list(tuple(builtins.int:0, tuple(builtins.int:0, builtins.int:3)), '
                 'tuple(builtins.int:3, tuple(builtins.int:22, builtins.int:25)))',
 'sel-list-dup': 'list(tuple(builtins.int:1, tuple(builtins.int:5, builtins.int:8)), '
                 'tuple(builtins.int:1, tuple(builtins.int:5, builtins.int:8)), '
                 'tuple(builtins.int:1, tuple(builtins.int:5, builtins.int:8)))',
 'sel-list-unordered': 'list(tuple(builtins.int:3, tuple(builtins.int:22, builtins.int:25)), '
                       'tuple(builtins.int:0, tuple(builtins.int:0, builtins.int:3)), '
                       'tuple(builtins.int:2, tuple(builtins.int:16, builtins.int:19)))',
 'sel-list-oob-late': 'raise builtins.IndexError: list index out of range',
 'sel-list-npint': 'list(tuple(builtins.int:2, tuple(builtins.int:16, builtins.int:19)), '
                   'tuple(builtins.int:0, tuple(builtins.int:0, builtins.int:3)))',
 'sel-list-bool': 'list(tuple(builtins.int:1, tuple(builtins.int:5, builtins.int:8)), '
                  'tuple(builtins.int:0, tuple(builtins.int:0, builtins.int:3)))',
 'sel-list-str': 'raise builtins.TypeError: list indices must be integers or slices, not str',
 'sel-list-str2': 'raise builtins.TypeError: list indices must be integers or slices, not str',
 'sel-list-float': 'raise builtins.TypeError: list indices must be integers or slices, not float',
 'sel-list-float2': 'raise builtins.TypeError: list indices must be integers or slices, not float',
 'sel-list-none': 'raise builtins.TypeError: list indices must be integers or slices, not NoneType',
 'sel-list-slice': 'list(list(tuple(builtins.int:0, tuple(builtins.int:0, builtins.int:3)), '
                   'tuple(builtins.int:1, tuple(builtins.int:5, builtins.int:8))))',
 'sel-list-slices': 'list(list(tuple(builtins.int:0, tuple(builtins.int:0, builtins.int:3)), '
                    'tuple(builtins.int:1, tuple(builtins.int:5, builtins.int:8))), '
                    'tuple(builtins.int:3, tuple(builtins.int:22, builtins.int:25)))',
 'sel-list-nested': 'raise builtins.TypeError: list indices must be integers or slices, not list',
 'sel-list-nested2': 'raise builtins.TypeError: list indices must be integers or slices, not list',
 'sel-tuple': 'list(tuple(builtins.int:0, tuple(builtins.int:0, builtins.int:3)), '
              'tuple(builtins.int:3, tuple(builtins.int:22, builtins.int:25)))',
 'sel-tuple-empty': 'list()',
 'sel-range': 'list(tuple(builtins.int:1, tuple(builtins.int:5, builtins.int:8)), '
              'tuple(builtins.int:2, tuple(builtins.int:16, builtins.int:19)))',
 'sel-array': 'list(tuple(builtins.int:0, tuple(builtins.int:0, builtins.int:3)), '
              'tuple(builtins.int:3, tuple(builtins.int:22, builtins.int:25)), '
              'tuple(builtins.int:1, tuple(builtins.int:5, builtins.int:8)))',
 'sel-array-empty': 'list()',
 'sel-array-bool': 'raise builtins.TypeError: list indices must be integers or slices, not '
                   'numpy.bool',
 'sel-array-0d': 'raise builtins.TypeError: iteration over a 0-d array',
 'sel-array-2d': 'raise builtins.TypeError: only integer scalar arrays can be converted to a '
                 'scalar index',
 'sel-array-float': 'raise builtins.TypeError: list indices must be integers or slices, not '
                    'numpy.float64',
 'sel-gen': 'list(tuple(builtins.int:2, tuple(builtins.int:16, builtins.int:19)), '
            'tuple(builtins.int:0, tuple(builtins.int:0, builtins.int:3)))',
 'sel-str': 'raise builtins.TypeError: list indices must be integers or slices, not str',
 'sel-none': "raise builtins.TypeError: 'NoneType' object is not iterable",
 'sel-float': "raise builtins.TypeError: 'float' object is not iterable",
 'sel-dict': 'list(tuple(builtins.int:1, tuple(builtins.int:5, builtins.int:8)), '
             'tuple(builtins.int:0, tuple(builtins.int:0, builtins.int:3)))',
 'sel-slice-all': 'list(tuple(builtins.int:0, tuple(builtins.int:0, builtins.int:3)), '
                  'tuple(builtins.int:1, tuple(builtins.int:5, builtins.int:8)), '
                  'tuple(builtins.int:2, tuple(builtins.int:16, builtins.int:19)), '
                  'tuple(builtins.int:3, tuple(builtins.int:22, builtins.int:25)))',
 'sel-slice-0-1': 'list(tuple(builtins.int:0, tuple(builtins.int:0, builtins.int:3)))',
 'sel-slice-2-': 'list(tuple(builtins.int:2, tuple(builtins.int:16, builtins.int:19)), '
                 'tuple(builtins.int:3, tuple(builtins.int:22, builtins.int:25)))',
 'sel-slice--2': 'list(tuple(builtins.int:0, tuple(builtins.int:0, builtins.int:3)), '
                 'tuple(builtins.int:1, tuple(builtins.int:5, builtins.int:8)))',
 'sel-slice-step2': 'list(tuple(builtins.int:0, tuple(builtins.int:0, builtins.int:3)), '
                    'tuple(builtins.int:2, tuple(builtins.int:16, builtins.int:19)))',
 'sel-slice-neg-step': 'list(tuple(builtins.int:3, tuple(builtins.int:22, builtins.int:25)), '
                       'tuple(builtins.int:1, tuple(builtins.int:5, builtins.int:8)))',
 'sel-slice-rev': 'list(tuple(builtins.int:3, tuple(builtins.int:22, builtins.int:25)), '
                  'tuple(builtins.int:2, tuple(builtins.int:16, builtins.int:19)), '
                  'tuple(builtins.int:1, tuple(builtins.int:5, builtins.int:8)), '
                  'tuple(builtins.int:0, tuple(builtins.int:0, builtins.int:3)))',
 'sel-slice-empty': 'list()',
 'sel-slice-oob': 'list(tuple(builtins.int:2, tuple(builtins.int:16, builtins.int:19)), '
                  'tuple(builtins.int:3, tuple(builtins.int:22, builtins.int:25)))',
 'sel-slice-neg-oob': 'list(tuple(builtins.int:0, tuple(builtins.int:0, builtins.int:3)), '
                      'tuple(builtins.int:1, tuple(builtins.int:5, builtins.int:8)))',
 'sel-slice-step0': 'raise builtins.ValueError: slice step cannot be zero',
 'sel-slice-float': 'raise builtins.TypeError: slice indices must be integers or None or have an '
                    '__index__ method',
 'sel-slice-npint': 'list(tuple(builtins.int:1, tuple(builtins.int:5, builtins.int:8)), '
                    'tuple(builtins.int:2, tuple(builtins.int:16, builtins.int:19)))',
 'sel-ellipsis': "raise builtins.TypeError: 'ellipsis' object is not iterable",
 'sel-tuple-ranges-int': 'list(tuple(builtins.int:1, tuple(builtins.int:5, builtins.int:8)))',
 'sel-no-ranges-int': 'raise builtins.IndexError: list index out of range',
 'sel-sized-ranges-int': 'list(tuple(builtins.int:1, tuple(builtins.int:5, builtins.int:8)))',
 'sel-gen-ranges-int': "raise builtins.TypeError: object of type 'generator' has no len()",
 'sel-array-ranges-int': 'list(tuple(builtins.int:1, '
                         'ndarray[<i8|(2,)|05000000000000000800000000000000]))',
 'sel-none-ranges-int': "raise builtins.TypeError: object of type 'NoneType' has no len()",
 'sel-str-ranges-int': "list(tuple(builtins.int:1, builtins.str:'b'))",
 'sel-tuple-ranges-list': 'list(tuple(builtins.int:0, tuple(builtins.int:0, builtins.int:3)), '
                          'tuple(builtins.int:3, tuple(builtins.int:22, builtins.int:25)))',
 'sel-no-ranges-list': 'raise builtins.IndexError: list index out of range',
 'sel-sized-ranges-list': 'list(tuple(builtins.int:0, tuple(builtins.int:0, builtins.int:3)), '
                          'tuple(builtins.int:3, tuple(builtins.int:22, builtins.int:25)))',
 'sel-gen-ranges-list': "raise builtins.TypeError: object of type 'generator' has no len()",
 'sel-array-ranges-list': 'list(tuple(builtins.int:0, '
                          'ndarray[<i8|(2,)|00000000000000000300000000000000]), '
                          'tuple(builtins.int:3, '
                          'ndarray[<i8|(2,)|16000000000000001900000000000000]))',
 'sel-none-ranges-list': "raise builtins.TypeError: object of type 'NoneType' has no len()",
 'sel-str-ranges-list': "list(tuple(builtins.int:0, builtins.str:'a'), tuple(builtins.int:3, "
                        "builtins.str:'d'))",
 'sel-tuple-ranges-slice': 'list(tuple(builtins.int:1, tuple(builtins.int:5, builtins.int:8)), '
                           'tuple(builtins.int:2, tuple(builtins.int:16, builtins.int:19)), '
                           'tuple(builtins.int:3, tuple(builtins.int:22, builtins.int:25)))',
 'sel-no-ranges-slice': 'list()',
 'sel-sized-ranges-slice': 'list(tuple(builtins.int:1, tuple(builtins.int:5, builtins.int:8)), '
                           'tuple(builtins.int:2, tuple(builtins.int:16, builtins.int:19)), '
                           'tuple(builtins.int:3, tuple(builtins.int:22, builtins.int:25)))',
 'sel-gen-ranges-slice': "raise builtins.TypeError: object of type 'generator' has no len()",
 'sel-array-ranges-slice': 'list(tuple(builtins.int:1, '
                           'ndarray[<i8|(2,)|05000000000000000800000000000000]), '
                           'tuple(builtins.int:2, '
                           'ndarray[<i8|(2,)|10000000000000001300000000000000]), '
                           'tuple(builtins.int:3, '
                           'ndarray[<i8|(2,)|16000000000000001900000000000000]))',
 'sel-none-ranges-slice': "raise builtins.TypeError: object of type 'NoneType' has no len()",
 'sel-str-ranges-slice': "list(tuple(builtins.int:1, builtins.str:'b'), tuple(builtins.int:2, "
                         "builtins.str:'c'), tuple(builtins.int:3, builtins.str:'d'))",
 'sel-tuple-ranges-empty': 'list()',
 'sel-no-ranges-empty': 'list()',
 'sel-sized-ranges-empty': 'list()',
 'sel-gen-ranges-empty': "raise builtins.TypeError: object of type 'generator' has no len()",
 'sel-array-ranges-empty': 'list()',
 'sel-none-ranges-empty': "raise builtins.TypeError: object of type 'NoneType' has no len()",
 'sel-str-ranges-empty': 'list()',
 'sel-kw': 'list(tuple(builtins.int:1, tuple(builtins.int:5, builtins.int:8)))',
 'sel-identity': "list(builtins.str:'list', list(builtins.str:'tuple', builtins.str:'tuple', "
                 "builtins.str:'tuple'), list(builtins.bool:True, builtins.bool:True, "
                 'builtins.bool:True))',
 'grp-all-1': 'dict{builtins.int:0: list(tuple(builtins.int:0, builtins.int:3)), builtins.int:1: '
              'list(tuple(builtins.int:3, builtins.int:6)), builtins.int:2: '
              'list(tuple(builtins.int:6, builtins.int:9)), builtins.int:3: '
              'list(tuple(builtins.int:9, builtins.int:12)), builtins.int:4: '
              'list(tuple(builtins.int:12, builtins.int:15)), builtins.int:5: '
              'list(tuple(builtins.int:15, builtins.int:18))}',
 'grp-all-2': 'dict{builtins.int:0: list(tuple(builtins.int:0, builtins.int:3), '
              'tuple(builtins.int:3, builtins.int:6)), builtins.int:1: list(tuple(builtins.int:6, '
              'builtins.int:9), tuple(builtins.int:9, builtins.int:12)), builtins.int:2: '
              'list(tuple(builtins.int:12, builtins.int:15), tuple(builtins.int:15, '
              'builtins.int:18))}',
 'grp-all-3': 'dict{builtins.int:0: list(tuple(builtins.int:0, builtins.int:3), '
              'tuple(builtins.int:3, builtins.int:6), tuple(builtins.int:6, builtins.int:9)), '
              'builtins.int:1: list(tuple(builtins.int:9, builtins.int:12), tuple(builtins.int:12, '
              'builtins.int:15), tuple(builtins.int:15, builtins.int:18))}',
 'grp-all-4': 'dict{builtins.int:0: list(tuple(builtins.int:0, builtins.int:3), '
              'tuple(builtins.int:3, builtins.int:6), tuple(builtins.int:6, builtins.int:9), '
              'tuple(builtins.int:9, builtins.int:12)), builtins.int:1: '
              'list(tuple(builtins.int:12, builtins.int:15), tuple(builtins.int:15, '
              'builtins.int:18))}',
 'grp-all-6': 'dict{builtins.int:0: list(tuple(builtins.int:0, builtins.int:3), '
              'tuple(builtins.int:3, builtins.int:6), tuple(builtins.int:6, builtins.int:9), '
              'tuple(builtins.int:9, builtins.int:12), tuple(builtins.int:12, builtins.int:15), '
              'tuple(builtins.int:15, builtins.int:18))}',
 'grp-all-7': 'dict{builtins.int:0: list(tuple(builtins.int:0, builtins.int:3), '
              'tuple(builtins.int:3, builtins.int:6), tuple(builtins.int:6, builtins.int:9), '
              'tuple(builtins.int:9, builtins.int:12), tuple(builtins.int:12, builtins.int:15), '
              'tuple(builtins.int:15, builtins.int:18))}',
 'grp-all-100': 'dict{builtins.int:0: list(tuple(builtins.int:0, builtins.int:3), '
                'tuple(builtins.int:3, builtins.int:6), tuple(builtins.int:6, builtins.int:9), '
                'tuple(builtins.int:9, builtins.int:12), tuple(builtins.int:12, builtins.int:15), '
                'tuple(builtins.int:15, builtins.int:18))}',
 'grp-all--1': 'dict{builtins.int:0: list(tuple(builtins.int:0, builtins.int:3)), builtins.int:-1: '
               'list(tuple(builtins.int:3, builtins.int:6)), builtins.int:-2: '
               'list(tuple(builtins.int:6, builtins.int:9)), builtins.int:-3: '
               'list(tuple(builtins.int:9, builtins.int:12)), builtins.int:-4: '
               'list(tuple(builtins.int:12, builtins.int:15)), builtins.int:-5: '
               'list(tuple(builtins.int:15, builtins.int:18))}',
 'grp-all--2': 'dict{builtins.int:0: list(tuple(builtins.int:0, builtins.int:3)), builtins.int:-1: '
               'list(tuple(builtins.int:3, builtins.int:6), tuple(builtins.int:6, '
               'builtins.int:9)), builtins.int:-2: list(tuple(builtins.int:9, builtins.int:12), '
               'tuple(builtins.int:12, builtins.int:15)), builtins.int:-3: '
               'list(tuple(builtins.int:15, builtins.int:18))}',
 'grp-all-0': 'raise builtins.ZeroDivisionError: integer division or modulo by zero',
 'grp-all-2.0': 'dict{builtins.float:0.0: list(tuple(builtins.int:0, builtins.int:3), '
                'tuple(builtins.int:3, builtins.int:6)), builtins.float:1.0: '
                'list(tuple(builtins.int:6, builtins.int:9), tuple(builtins.int:9, '
                'builtins.int:12)), builtins.float:2.0: list(tuple(builtins.int:12, '
                'builtins.int:15), tuple(builtins.int:15, builtins.int:18))}',
 'grp-all-0.5': 'dict{builtins.float:0.0: list(tuple(builtins.int:0, builtins.int:3)), '
                'builtins.float:2.0: list(tuple(builtins.int:3, builtins.int:6)), '
                'builtins.float:4.0: list(tuple(builtins.int:6, builtins.int:9)), '
                'builtins.float:6.0: list(tuple(builtins.int:9, builtins.int:12)), '
                'builtins.float:8.0: list(tuple(builtins.int:12, builtins.int:15)), '
                'builtins.float:10.0: list(tuple(builtins.int:15, builtins.int:18))}',
 'grp-all-np.int64(2)': 'dict{numpy.int64(np.int64(0)): list(tuple(builtins.int:0, '
                        'builtins.int:3), tuple(builtins.int:3, builtins.int:6)), '
                        'numpy.int64(np.int64(1)): list(tuple(builtins.int:6, builtins.int:9), '
                        'tuple(builtins.int:9, builtins.int:12)), numpy.int64(np.int64(2)): '
                        'list(tuple(builtins.int:12, builtins.int:15), tuple(builtins.int:15, '
                        'builtins.int:18))}',
 'grp-all-None': "raise builtins.TypeError: unsupported operand type(s) for //: 'int' and "
                 "'NoneType'",
 "grp-all-'2'": "raise builtins.TypeError: unsupported operand type(s) for //: 'int' and 'str'",
 'grp-all-True': 'dict{builtins.int:0: list(tuple(builtins.int:0, builtins.int:3)), '
                 'builtins.int:1: list(tuple(builtins.int:3, builtins.int:6)), builtins.int:2: '
                 'list(tuple(builtins.int:6, builtins.int:9)), builtins.int:3: '
                 'list(tuple(builtins.int:9, builtins.int:12)), builtins.int:4: '
                 'list(tuple(builtins.int:12, builtins.int:15)), builtins.int:5: '
                 'list(tuple(builtins.int:15, builtins.int:18))}',
 'grp-all-inf': 'dict{builtins.float:0.0: list(tuple(builtins.int:0, builtins.int:3), '
                'tuple(builtins.int:3, builtins.int:6), tuple(builtins.int:6, builtins.int:9), '
                'tuple(builtins.int:9, builtins.int:12), tuple(builtins.int:12, builtins.int:15), '
                'tuple(builtins.int:15, builtins.int:18))}',
 'grp-all-nan': 'dict{builtins.float:nan: list(tuple(builtins.int:0, builtins.int:3)), '
                'builtins.float:nan: list(tuple(builtins.int:3, builtins.int:6)), '
                'builtins.float:nan: list(tuple(builtins.int:6, builtins.int:9)), '
                'builtins.float:nan: list(tuple(builtins.int:9, builtins.int:12)), '
                'builtins.float:nan: list(tuple(builtins.int:12, builtins.int:15)), '
                'builtins.float:nan: list(tuple(builtins.int:15, builtins.int:18))}',
 'grp-empty-2': 'dict{}',
 'grp-empty-3': 'dict{}',
 'grp-one-2': 'dict{builtins.int:2: list(tuple(builtins.int:12, builtins.int:15))}',
 'grp-one-3': 'dict{builtins.int:1: list(tuple(builtins.int:12, builtins.int:15))}',
 'grp-rev-2': 'dict{builtins.int:2: list(tuple(builtins.int:15, builtins.int:18), '
              'tuple(builtins.int:12, builtins.int:15)), builtins.int:1: '
              'list(tuple(builtins.int:9, builtins.int:12), tuple(builtins.int:6, '
              'builtins.int:9)), builtins.int:0: list(tuple(builtins.int:3, builtins.int:6), '
              'tuple(builtins.int:0, builtins.int:3))}',
 'grp-rev-3': 'dict{builtins.int:1: list(tuple(builtins.int:15, builtins.int:18), '
              'tuple(builtins.int:12, builtins.int:15), tuple(builtins.int:9, builtins.int:12)), '
              'builtins.int:0: list(tuple(builtins.int:6, builtins.int:9), tuple(builtins.int:3, '
              'builtins.int:6), tuple(builtins.int:0, builtins.int:3))}',
 'grp-interleaved-2': 'dict{builtins.int:2: list(tuple(builtins.int:15, builtins.int:18), '
                      'tuple(builtins.int:12, builtins.int:15)), builtins.int:0: '
                      'list(tuple(builtins.int:0, builtins.int:3), tuple(builtins.int:3, '
                      'builtins.int:6)), builtins.int:1: list(tuple(builtins.int:9, '
                      'builtins.int:12), tuple(builtins.int:6, builtins.int:9))}',
 'grp-interleaved-3': 'dict{builtins.int:1: list(tuple(builtins.int:15, builtins.int:18), '
                      'tuple(builtins.int:9, builtins.int:12), tuple(builtins.int:12, '
                      'builtins.int:15)), builtins.int:0: list(tuple(builtins.int:0, '
                      'builtins.int:3), tuple(builtins.int:3, builtins.int:6), '
                      'tuple(builtins.int:6, builtins.int:9))}',
 'grp-dup-2': 'dict{builtins.int:0: list(tuple(builtins.int:3, builtins.int:6), '
              'tuple(builtins.int:3, builtins.int:6), tuple(builtins.int:3, builtins.int:6)), '
              'builtins.int:2: list(tuple(builtins.int:12, builtins.int:15))}',
 'grp-dup-3': 'dict{builtins.int:0: list(tuple(builtins.int:3, builtins.int:6), '
              'tuple(builtins.int:3, builtins.int:6), tuple(builtins.int:3, builtins.int:6)), '
              'builtins.int:1: list(tuple(builtins.int:12, builtins.int:15))}',
 'grp-tuple-2': 'dict{builtins.int:0: list(tuple(builtins.int:0, builtins.int:3), '
                'tuple(builtins.int:3, builtins.int:6)), builtins.int:1: '
                'list(tuple(builtins.int:6, builtins.int:9), tuple(builtins.int:9, '
                'builtins.int:12)), builtins.int:2: list(tuple(builtins.int:12, builtins.int:15), '
                'tuple(builtins.int:15, builtins.int:18))}',
 'grp-tuple-3': 'dict{builtins.int:0: list(tuple(builtins.int:0, builtins.int:3), '
                'tuple(builtins.int:3, builtins.int:6), tuple(builtins.int:6, builtins.int:9)), '
                'builtins.int:1: list(tuple(builtins.int:9, builtins.int:12), '
                'tuple(builtins.int:12, builtins.int:15), tuple(builtins.int:15, '
                'builtins.int:18))}',
 'grp-lists-2': 'dict{builtins.int:0: list(tuple(builtins.int:0, builtins.int:3), '
                'tuple(builtins.int:3, builtins.int:6)), builtins.int:1: '
                'list(tuple(builtins.int:6, builtins.int:9), tuple(builtins.int:9, '
                'builtins.int:12)), builtins.int:2: list(tuple(builtins.int:12, builtins.int:15), '
                'tuple(builtins.int:15, builtins.int:18))}',
 'grp-lists-3': 'dict{builtins.int:0: list(tuple(builtins.int:0, builtins.int:3), '
                'tuple(builtins.int:3, builtins.int:6), tuple(builtins.int:6, builtins.int:9)), '
                'builtins.int:1: list(tuple(builtins.int:9, builtins.int:12), '
                'tuple(builtins.int:12, builtins.int:15), tuple(builtins.int:15, '
                'builtins.int:18))}',
 'grp-neg-rows-2': 'dict{builtins.int:-1: list(tuple(builtins.int:0, builtins.int:1), '
                   'tuple(builtins.int:1, builtins.int:2)), builtins.int:-2: '
                   'list(tuple(builtins.int:2, builtins.int:3)), builtins.int:0: '
                   'list(tuple(builtins.int:3, builtins.int:4))}',
 'grp-neg-rows-3': 'dict{builtins.int:-1: list(tuple(builtins.int:0, builtins.int:1), '
                   'tuple(builtins.int:1, builtins.int:2), tuple(builtins.int:2, builtins.int:3)), '
                   'builtins.int:0: list(tuple(builtins.int:3, builtins.int:4))}',
 'grp-float-rows-2': 'dict{builtins.float:0.0: list(tuple(builtins.int:0, builtins.int:1)), '
                     'builtins.float:1.0: list(tuple(builtins.int:1, builtins.int:2), '
                     'tuple(builtins.int:2, builtins.int:3))}',
 'grp-float-rows-3': 'dict{builtins.float:0.0: list(tuple(builtins.int:0, builtins.int:1), '
                     'tuple(builtins.int:1, builtins.int:2)), builtins.float:1.0: '
                     'list(tuple(builtins.int:2, builtins.int:3))}',
 'grp-nan-rows-2': 'dict{builtins.float:nan: list(tuple(builtins.int:0, builtins.int:1)), '
                   'builtins.float:nan: list(tuple(builtins.int:1, builtins.int:2))}',
 'grp-nan-rows-3': 'dict{builtins.float:nan: list(tuple(builtins.int:0, builtins.int:1)), '
                   'builtins.float:nan: list(tuple(builtins.int:1, builtins.int:2))}',
 'grp-np-rows-2': 'dict{numpy.int64(np.int64(0)): list(tuple(builtins.int:0, builtins.int:3), '
                  'tuple(builtins.int:3, builtins.int:6)), numpy.int64(np.int64(1)): '
                  'list(tuple(builtins.int:6, builtins.int:9), tuple(builtins.int:9, '
                  'builtins.int:12)), numpy.int64(np.int64(2)): list(tuple(builtins.int:12, '
                  'builtins.int:15), tuple(builtins.int:15, builtins.int:18))}',
 'grp-np-rows-3': 'dict{numpy.int64(np.int64(0)): list(tuple(builtins.int:0, builtins.int:3), '
                  'tuple(builtins.int:3, builtins.int:6), tuple(builtins.int:6, builtins.int:9)), '
                  'numpy.int64(np.int64(1)): list(tuple(builtins.int:9, builtins.int:12), '
                  'tuple(builtins.int:12, builtins.int:15), tuple(builtins.int:15, '
                  'builtins.int:18))}',
 'grp-three-items-2': 'raise builtins.ValueError: too many values to unpack (expected 2)',
 'grp-three-items-3': 'raise builtins.ValueError: too many values to unpack (expected 2)',
 'grp-one-item-2': 'raise builtins.ValueError: not enough values to unpack (expected 2, got 1)',
 'grp-one-item-3': 'raise builtins.ValueError: not enough values to unpack (expected 2, got 1)',
 'grp-late-bad-key-2': "raise builtins.TypeError: unsupported operand type(s) for //: 'str' and "
                       "'int'",
 'grp-late-bad-key-3': "raise builtins.TypeError: unsupported operand type(s) for //: 'str' and "
                       "'int'",
 'grp-late-short-2': "raise builtins.TypeError: unsupported operand type(s) for //: 'str' and "
                     "'int'",
 'grp-late-short-3': "raise builtins.TypeError: unsupported operand type(s) for //: 'str' and "
                     "'int'",
 'grp-str-items-2': "raise builtins.TypeError: unsupported operand type(s) for //: 'str' and 'int'",
 'grp-str-items-3': "raise builtins.TypeError: unsupported operand type(s) for //: 'str' and 'int'",
 'grp-bytes-items-2': 'dict{builtins.int:0: list(builtins.int:1), builtins.int:2: '
                      'list(builtins.int:2)}',
 'grp-bytes-items-3': 'dict{builtins.int:0: list(builtins.int:1), builtins.int:1: '
                      'list(builtins.int:2)}',
 'grp-int-items-2': "raise builtins.TypeError: 'int' object is not subscriptable",
 'grp-int-items-3': "raise builtins.TypeError: 'int' object is not subscriptable",
 'grp-none-item-2': "raise builtins.TypeError: 'NoneType' object is not subscriptable",
 'grp-none-item-3': "raise builtins.TypeError: 'NoneType' object is not subscriptable",
 'grp-unhashable-key-2': "raise builtins.TypeError: unhashable type: 'numpy.ndarray'",
 'grp-unhashable-key-3': "raise builtins.TypeError: unhashable type: 'numpy.ndarray'",
 'grp-dict-items-2': 'dict{builtins.int:2: list(builtins.int:1)}',
 'grp-dict-items-3': 'dict{builtins.int:1: list(builtins.int:1)}',
 'grp-range-values-2': 'dict{builtins.int:0: list(builtins.range:range(0, 3), '
                       'builtins.range:range(0, 4)), builtins.int:1: list(builtins.NoneType:None)}',
 'grp-range-values-3': 'dict{builtins.int:0: list(builtins.range:range(0, 3), '
                       'builtins.range:range(0, 4), builtins.NoneType:None)}',
 'grp-gen': 'dict{builtins.int:0: list(tuple(builtins.int:0, builtins.int:3), '
            'tuple(builtins.int:3, builtins.int:6), tuple(builtins.int:6, builtins.int:9), '
            'tuple(builtins.int:9, builtins.int:12)), builtins.int:1: list(tuple(builtins.int:12, '
            'builtins.int:15), tuple(builtins.int:15, builtins.int:18))}',
 'grp-dict': "raise builtins.TypeError: 'int' object is not subscriptable",
 'grp-none': "raise builtins.TypeError: 'NoneType' object is not iterable",
 'grp-int': "raise builtins.TypeError: 'int' object is not iterable",
 'grp-kw': 'dict{builtins.int:0: list(tuple(builtins.int:0, builtins.int:3), tuple(builtins.int:3, '
           'builtins.int:6), tuple(builtins.int:6, builtins.int:9), tuple(builtins.int:9, '
           'builtins.int:12), tuple(builtins.int:12, builtins.int:15)), builtins.int:1: '
           'list(tuple(builtins.int:15, builtins.int:18))}',
 'grp-kw-pos': 'dict{builtins.int:0: list(tuple(builtins.int:0, builtins.int:3), '
               'tuple(builtins.int:3, builtins.int:6), tuple(builtins.int:6, builtins.int:9), '
               'tuple(builtins.int:9, builtins.int:12)), builtins.int:1: '
               'list(tuple(builtins.int:12, builtins.int:15), tuple(builtins.int:15, '
               'builtins.int:18))}',
 'grp-identity': "list(builtins.str:'dict', list(builtins.int:0, builtins.int:1), "
                 "list(builtins.str:'list', builtins.str:'list'), list(builtins.bool:True))"}


# --------------------------------------------------------------------------
# harness: canonical description of results, comparison against EXPECTED
# --------------------------------------------------------------------------
import sys
import warnings


def describe(value):
    """canonical, type-aware text form of a result"""
    import numpy as _np

    if isinstance(value, BaseException):
        return f"raise {type(value).__module__}.{type(value).__qualname__}: {value}"
    if isinstance(value, _np.ndarray):
        if value.dtype == object:
            body = repr(value.tolist())
        else:
            body = value.tobytes().hex()
        return f"ndarray[{value.dtype.str}|{value.shape}|{body}]"
    if isinstance(value, _np.generic):
        return f"{type(value).__module__}.{type(value).__name__}({value!r})"
    if isinstance(value, dict):
        items = ", ".join(f"{describe(k)}: {describe(v)}" for k, v in value.items())
        return f"{type(value).__name__}{{{items}}}"
    if isinstance(value, (list, tuple)):
        items = ", ".join(describe(v) for v in value)
        return f"{type(value).__name__}({items})"
    return f"{type(value).__module__}.{type(value).__qualname__}:{value!r}"


def run_case(thunk):
    with warnings.catch_warnings():
        warnings.simplefilter("ignore")
        try:
            return describe(thunk())
        except Exception as e:  # noqa: BLE001
            return describe(e)


def collect():
    results = {}
    for name, thunk in cases():
        if name in results:
            raise RuntimeError(f"duplicate case name: {name}")
        results[name] = run_case(thunk)
    return results


def main(argv):
    results = collect()
    if "--record" in argv:
        import pprint

        pprint.pprint(results, width=100, sort_dicts=False)
        return 0

    failures = []
    for name, actual in results.items():
        expected = EXPECTED.get(name, "<missing>")
        if actual != expected:
            failures.append((name, expected, actual))
    missing = sorted(set(EXPECTED) - set(results))
    for name, expected, actual in failures:
        print(f"MISMATCH {name}\n  expected: {expected}\n  actual:   {actual}")
    for name in missing:
        print(f"NOT RUN {name}")
    n_raise = sum(1 for v in results.values() if v.startswith("raise "))
    print(f"{len(results)} cases ({n_raise} raising), {len(failures)} mismatches, {len(missing)} not run")
    return 1 if failures or missing else 0


def test_equivalence():
    assert main([]) == 0


if __name__ == "__main__":
    sys.exit(main(sys.argv[1:]))
