"""Equivalence check for refactoring 1 (ceos_alos2/utils.py).

Run as

    cd /tmp/wt8/e68 && PYTHONPATH=/tmp/wt8/e68 /venv/bin/python _eq/1/equiv.py

(or through pytest). ``EXPECTED`` was recorded from the unchanged code at HEAD
with ``equiv.py --record``; the script has to pass with and without the patch.
"""

import collections
import datetime
import pprint
import sys

import construct
from construct import EnumIntegerString
from construct.lib.containers import Container, ListContainer

from ceos_alos2 import utils


def canon(obj):
    """type-preserving, order-preserving textual form"""
    if isinstance(obj, dict):
        items = ", ".join(f"{canon(k)}: {canon(v)}" for k, v in obj.items())
        return f"{type(obj).__name__}{{{items}}}"
    if isinstance(obj, (list, tuple)):
        items = ", ".join(canon(v) for v in obj)
        return f"{type(obj).__name__}[{items}]"
    return f"{type(obj).__name__}:{obj!r}"


def outcome(func, *args, **kwargs):
    try:
        result = func(*args, **kwargs)
    except Exception as e:  # noqa: BLE001
        cause = type(e.__cause__).__name__ if e.__cause__ is not None else None
        return f"raises {type(e).__name__}({str(e)!r}) cause={cause}"
    return canon(result)


class Point(tuple):
    pass


class MyList(list):
    pass


class MyInt(int):
    pass


class MyStr(str):
    pass


class MyDict(dict):
    pass


class Weird:
    def items(self):
        return iter([("_io", 1), ("x", (1, [2, b"3"])), ("y", Weird2())])


class Weird2:
    pass


Named = collections.namedtuple("Named", ["a", "b"])


def parsed_struct():
    struct = construct.Struct(
        "a" / construct.Int8ub,
        "b" / construct.Enum(construct.Int8ub, one=1, two=2),
        "c" / construct.Array(2, construct.Struct("d" / construct.Int16ub, "e" / construct.Bytes(1))),
        "f" / construct.Struct("g" / construct.PaddedString(3, "ascii"), "h" / construct.Float32b),
        "i" / construct.Computed(lambda ctx: datetime.datetime(2020, 1, 2, 3, 4, 5)),
    )
    data = b"\x07\x02\x00\x01a\x00\x02bxyz\x3f\x80\x00\x00"
    return struct.parse(data)


to_dict_cases = {
    "enum": lambda: EnumIntegerString.new(1, "value"),
    "int": lambda: 1,
    "bool": lambda: True,
    "myint": lambda: MyInt(3),
    "float": lambda: 1.5,
    "str": lambda: "abc",
    "mystr": lambda: MyStr("abc"),
    "bytes": lambda: b"abc",
    "complex": lambda: 1j,
    "datetime": lambda: datetime.datetime(1999, 1, 1),
    "date": lambda: datetime.date(1999, 1, 1),
    "none": lambda: None,
    "bytearray": lambda: bytearray(b"ab"),
    "set": lambda: {1},
    "empty-list": lambda: [],
    "empty-tuple": lambda: (),
    "empty-dict": lambda: {},
    "empty-listcontainer": lambda: ListContainer(),
    "list": lambda: [1, "a", [2, (3, 4)], {"_io": 1, "b": [EnumIntegerString.new(2, "two")]}],
    "tuple": lambda: (1, [2], {"a": (3,)}),
    "tuple-subclass": lambda: Point((1, [2, 3])),
    "list-subclass": lambda: MyList([1, (2,), ListContainer([3])]),
    "namedtuple": lambda: Named(1, 2),
    "listcontainer": lambda: ListContainer([{"a": 1, "_io": None}, ListContainer([1, 2]), (1,)]),
    "only-io": lambda: {"_io": object()},
    "nested-io": lambda: {"a": {"_io": 1, "b": {"_io": 2, "c": 3}}, "_io": 4, "d": 5},
    "order": lambda: {"z": 1, "_io": 0, "a": 2, "m": {"y": 1, "b": 2}},
    "non-str-keys": lambda: {1: "a", (1, 2): [1], None: None},
    "container": lambda: Container(a=1, b=Container(c=ListContainer([Container(d=2)])), _io=3),
    "mydict": lambda: MyDict(a=MyDict(b=1), _io=2),
    "ordereddict": lambda: collections.OrderedDict([("b", 1), ("_io", 2), ("a", (1, 2))]),
    "items-duck": lambda: Weird(),
    "nested-none": lambda: {"a": None},
    "nested-set": lambda: [1, {2}],
    "parsed": parsed_struct,
    "test-suite": lambda: {
        "_io": None,
        "a": {
            "aa": EnumIntegerString.new(1, "value"),
            "ab": 1,
            "ac": "ac",
            "ad": b"ad",
            "ae": 1j,
            "af": datetime.datetime(1999, 1, 1, 0, 0, 0),
        },
        "b": ListContainer([{"ba1": 1}, {"ba2": 1}]),
        "c": (1, 2, 3),
        "d": [1, 2, 3],
    },
}

rename_cases = {
    "empty": ({}, {}),
    "no-translations": ({"a": 1, "b": 2}, {}),
    "simple": ({"a": 1, "b": 2, "c": 3}, {"a": "x", "c": "z"}),
    "unused-translations": ({"a": 1}, {"q": "r"}),
    "collision-later-wins": ({"a": 1, "b": 2}, {"a": "b"}),
    "collision-order": ({"b": 1, "a": 2, "c": 3}, {"a": "b"}),
    "swap": ({"a": 1, "b": 2}, {"a": "b", "b": "a"}),
    "non-str": ({1: "a", (1, 2): "b", None: "c"}, {1: 2, None: (3,)}),
    "to-none": ({"a": 1, "b": 2}, {"a": None}),
    "unhashable-target": ({"a": 1}, {"a": []}),
    "values-untouched": ({"a": {"a": 1}, "b": [1]}, {"a": "x"}),
    "ordereddict": (collections.OrderedDict([("b", 1), ("a", 2)]), {"b": "c"}),
    "container": (Container(a=1, b=2), {"b": "c"}),
    "defaultdict-translations": ({"a": 1}, collections.defaultdict(lambda: "never")),
    "mapping-none": (None, {}),
    "mapping-list": ([("a", 1)], {}),
    "translations-none": ({"a": 1}, None),
    "translations-none-empty": ({}, None),
}

nesting_cases = {
    "empty": {},
    "flat": {"a": 1, "b": [1, 2], "c": None},
    "one-layer": {"a": {"aa": 1, "ab": 2}, "b": 3},
    "two-layers": {"a": {"aa": {"aaa": 1}, "ab": 2}, "b": {"ba": {}}},
    "empty-nested": {"a": {}, "b": 1},
    "all-empty-nested": {"a": {}, "b": {}},
    "collision-inner-after": {"x": 1, "a": {"x": 2, "y": 3}},
    "collision-inner-before": {"a": {"x": 2, "y": 3}, "x": 1, "z": 0},
    "collision-inner-inner": {"a": {"x": 1, "y": 2}, "b": {"y": 3, "x": 4}},
    "collision-own-key": {"a": {"a": 1}, "b": {"a": {"c": 2}}},
    "order": {"z": 1, "m": {"y": 1, "b": 2}, "a": 3, "n": {"c": 4}},
    "dict-subclasses": {"a": MyDict(b=1), "c": Container(d=2), "e": collections.OrderedDict(f=3)},
    "non-dict-mappings": {"a": collections.UserDict(b=1), "c": [("d", 1)]},
    "outer-container": Container(a=Container(b=1), c=2),
    "outer-userdict": collections.UserDict(a={"b": 1}, c=2),
    "non-str-keys": {1: {2: 3, (4,): 5}, None: 6},
    "not-a-mapping": None,
    "a-list": [("a", {"b": 1})],
}

parse_bytes_cases = [
    "100", "100 MB", "100M", "5kB", "5.4 kB", "1kiB", "1Mi", "1e6", "1e6 kB", "MB", 123,
    ".5GB", "123 def", "abc# GB", "", " ", "   ", "B", "b", "k", "K", "kb", "KB", "Ki", "ki",
    "kib", "KIB", "m", "g", "t", "p", "gi", "ti", "pi", "pib", "PB", "1 PiB", "0", "0kB",
    "-1kB", "- 1 kB", "+2MB", "1.5", "1.5e3MB", "1e", "1e3e", "1E3", "1e+3kB", "1e-3kB",
    "5 foos", "1 k B", "1kB ", " 1 kB", "1\tkB", "1\nkB", "1_000kB", "1,5kB", "0x10", "0x10kB",
    "inf", "infkB", "nan", "1inf", "1nan", "nan1", "inf1", "1e400", "1e400kB", "12abc34", "12abc34kB",
    "abc", "abc1", "1abc", "#", "#1", "1#", "1#kB", "kB1", "k1B", "1.", "1.kB", ".", ".kB",
    "²", "2²", "²kB", "１００MB", "١٢", "1é", "1µB",
    "1μB", "1K", "1KB", "1kıB", "①", "①kB", "1①", "1 0 0 M B", "9" * 30,
    "9" * 30 + "PiB", "1" + "k" * 50, 0, -3, 1.9, -1.9, 1e20, True, False, float("inf"), float("nan"),
    None, b"1kB", [1], ("1kB",), 1 + 0j, bytearray(b"1"),
]


def collect():
    results = {}
    for name, make in to_dict_cases.items():
        results[f"to_dict/{name}"] = outcome(utils.to_dict, make())
    # identity for the passthrough types
    for name in ["int", "bool", "myint", "float", "str", "mystr", "bytes", "complex", "datetime"]:
        value = to_dict_cases[name]()
        results[f"to_dict-identity/{name}"] = str(utils.to_dict(value) is value)

    for name, (mapping, translations) in rename_cases.items():
        results[f"rename/{name}"] = outcome(utils.rename, mapping, translations)
    mapping = {"a": [1], "b": {"c": 1}}
    renamed = utils.rename(mapping, {"a": "x"})
    results["rename/new-object"] = str(
        (renamed is not mapping, renamed["x"] is mapping["a"], mapping == {"a": [1], "b": {"c": 1}})
    )

    for name, mapping in nesting_cases.items():
        results[f"remove_nesting_layer/{name}"] = outcome(utils.remove_nesting_layer, mapping)
    inner = {"b": [1]}
    mapping = {"a": inner, "c": 2}
    flattened = utils.remove_nesting_layer(mapping)
    results["remove_nesting_layer/new-object"] = str(
        (flattened is not mapping, flattened["b"] is inner["b"], mapping == {"a": {"b": [1]}, "c": 2})
    )

    for index, value in enumerate(parse_bytes_cases):
        results[f"parse_bytes/{index}/{value!r}"] = outcome(utils.parse_bytes, value)

    # every known unit, in different spellings and with different numbers
    for unit in utils.byte_sizes:
        for spelled in (unit, unit.upper(), unit.title()):
            for number in ("", "3", "2.5 ", "1e2"):
                text = f"{number}{spelled}"
                results[f"parse_bytes/unit/{text!r}"] = outcome(utils.parse_bytes, text)

    results["byte_sizes"] = canon(utils.byte_sizes)
    results["unique"] = outcome(utils.unique, "aaceajde")
    results["starcall"] = outcome(utils.starcall, lambda x, y: x + y, (2,), y=2)
    results["names"] = str(
        sorted(name for name in ("unique", "starcall", "to_dict", "rename", "remove_nesting_layer",
                                 "byte_sizes", "parse_bytes") if hasattr(utils, name))
    )
    return results


EXPECTED = {'to_dict/enum': "str:'value'",
 'to_dict/int': 'int:1',
 'to_dict/bool': 'bool:True',
 'to_dict/myint': 'MyInt:3',
 'to_dict/float': 'float:1.5',
 'to_dict/str': "str:'abc'",
 'to_dict/mystr': "MyStr:'abc'",
 'to_dict/bytes': "bytes:b'abc'",
 'to_dict/complex': 'complex:1j',
 'to_dict/datetime': 'datetime:datetime.datetime(1999, 1, 1, 0, 0)',
 'to_dict/date': 'raises AttributeError("\'datetime.date\' object has no attribute \'items\'") cause=None',
 'to_dict/none': 'raises AttributeError("\'NoneType\' object has no attribute \'items\'") cause=None',
 'to_dict/bytearray': 'raises AttributeError("\'bytearray\' object has no attribute \'items\'") cause=None',
 'to_dict/set': 'raises AttributeError("\'set\' object has no attribute \'items\'") cause=None',
 'to_dict/empty-list': 'list[]',
 'to_dict/empty-tuple': 'tuple[]',
 'to_dict/empty-dict': 'dict{}',
 'to_dict/empty-listcontainer': 'list[]',
 'to_dict/list': "list[int:1, str:'a', list[int:2, tuple[int:3, int:4]], dict{str:'b': list[str:'two']}]",
 'to_dict/tuple': "tuple[int:1, list[int:2], dict{str:'a': tuple[int:3]}]",
 'to_dict/tuple-subclass': 'Point[int:1, list[int:2, int:3]]',
 'to_dict/list-subclass': 'MyList[int:1, tuple[int:2], list[int:3]]',
 'to_dict/namedtuple': 'raises TypeError("Named.__new__() missing 1 required positional argument: \'b\'") cause=None',
 'to_dict/listcontainer': "list[dict{str:'a': int:1}, list[int:1, int:2], tuple[int:1]]",
 'to_dict/only-io': 'dict{}',
 'to_dict/nested-io': "dict{str:'a': dict{str:'b': dict{str:'c': int:3}}, str:'d': int:5}",
 'to_dict/order': "dict{str:'z': int:1, str:'a': int:2, str:'m': dict{str:'y': int:1, str:'b': int:2}}",
 'to_dict/non-str-keys': 'raises AttributeError("\'NoneType\' object has no attribute \'items\'") cause=None',
 'to_dict/container': "dict{str:'a': int:1, str:'b': dict{str:'c': list[dict{str:'d': int:2}]}}",
 'to_dict/mydict': "dict{str:'a': dict{str:'b': int:1}}",
 'to_dict/ordereddict': "dict{str:'b': int:1, str:'a': tuple[int:1, int:2]}",
 'to_dict/items-duck': 'raises AttributeError("\'Weird2\' object has no attribute \'items\'") cause=None',
 'to_dict/nested-none': 'raises AttributeError("\'NoneType\' object has no attribute \'items\'") cause=None',
 'to_dict/nested-set': 'raises AttributeError("\'set\' object has no attribute \'items\'") cause=None',
 'to_dict/parsed': "dict{str:'a': int:7, str:'b': str:'two', str:'c': list[dict{str:'d': int:1, str:'e': bytes:b'a'}, "
                   "dict{str:'d': int:2, str:'e': bytes:b'b'}], str:'f': dict{str:'g': str:'xyz', str:'h': float:1.0}, "
                   "str:'i': datetime:datetime.datetime(2020, 1, 2, 3, 4, 5)}",
 'to_dict/test-suite': "dict{str:'a': dict{str:'aa': str:'value', str:'ab': int:1, str:'ac': str:'ac', str:'ad': "
                       "bytes:b'ad', str:'ae': complex:1j, str:'af': datetime:datetime.datetime(1999, 1, 1, 0, 0)}, "
                       "str:'b': list[dict{str:'ba1': int:1}, dict{str:'ba2': int:1}], str:'c': tuple[int:1, int:2, "
                       "int:3], str:'d': list[int:1, int:2, int:3]}",
 'to_dict-identity/int': 'True',
 'to_dict-identity/bool': 'True',
 'to_dict-identity/myint': 'True',
 'to_dict-identity/float': 'True',
 'to_dict-identity/str': 'True',
 'to_dict-identity/mystr': 'True',
 'to_dict-identity/bytes': 'True',
 'to_dict-identity/complex': 'True',
 'to_dict-identity/datetime': 'True',
 'rename/empty': 'dict{}',
 'rename/no-translations': "dict{str:'a': int:1, str:'b': int:2}",
 'rename/simple': "dict{str:'x': int:1, str:'b': int:2, str:'z': int:3}",
 'rename/unused-translations': "dict{str:'a': int:1}",
 'rename/collision-later-wins': "dict{str:'b': int:2}",
 'rename/collision-order': "dict{str:'b': int:2, str:'c': int:3}",
 'rename/swap': "dict{str:'b': int:1, str:'a': int:2}",
 'rename/non-str': "dict{int:2: str:'a', tuple[int:1, int:2]: str:'b', tuple[int:3]: str:'c'}",
 'rename/to-none': "dict{NoneType:None: int:1, str:'b': int:2}",
 'rename/unhashable-target': 'raises TypeError("unhashable type: \'list\'") cause=None',
 'rename/values-untouched': "dict{str:'x': dict{str:'a': int:1}, str:'b': list[int:1]}",
 'rename/ordereddict': "dict{str:'c': int:1, str:'a': int:2}",
 'rename/container': "dict{str:'a': int:1, str:'c': int:2}",
 'rename/defaultdict-translations': "dict{str:'a': int:1}",
 'rename/mapping-none': 'raises AttributeError("\'NoneType\' object has no attribute \'keys\'") cause=None',
 'rename/mapping-list': 'raises AttributeError("\'list\' object has no attribute \'keys\'") cause=None',
 'rename/translations-none': 'raises AttributeError("\'NoneType\' object has no attribute \'get\'") cause=None',
 'rename/translations-none-empty': 'dict{}',
 'rename/new-object': '(True, True, True)',
 'remove_nesting_layer/empty': 'dict{}',
 'remove_nesting_layer/flat': "dict{str:'a': int:1, str:'b': list[int:1, int:2], str:'c': NoneType:None}",
 'remove_nesting_layer/one-layer': "dict{str:'aa': int:1, str:'ab': int:2, str:'b': int:3}",
 'remove_nesting_layer/two-layers': "dict{str:'aa': dict{str:'aaa': int:1}, str:'ab': int:2, str:'ba': dict{}}",
 'remove_nesting_layer/empty-nested': "dict{str:'b': int:1}",
 'remove_nesting_layer/all-empty-nested': 'dict{}',
 'remove_nesting_layer/collision-inner-after': "dict{str:'x': int:2, str:'y': int:3}",
 'remove_nesting_layer/collision-inner-before': "dict{str:'x': int:1, str:'y': int:3, str:'z': int:0}",
 'remove_nesting_layer/collision-inner-inner': "dict{str:'x': int:4, str:'y': int:3}",
 'remove_nesting_layer/collision-own-key': "dict{str:'a': dict{str:'c': int:2}}",
 'remove_nesting_layer/order': "dict{str:'z': int:1, str:'y': int:1, str:'b': int:2, str:'a': int:3, str:'c': int:4}",
 'remove_nesting_layer/dict-subclasses': "dict{str:'b': int:1, str:'d': int:2, str:'f': int:3}",
 'remove_nesting_layer/non-dict-mappings': "dict{str:'a': UserDict:{'b': 1}, str:'c': list[tuple[str:'d', int:1]]}",
 'remove_nesting_layer/outer-container': "dict{str:'b': int:1, str:'c': int:2}",
 'remove_nesting_layer/outer-userdict': "dict{str:'b': int:1, str:'c': int:2}",
 'remove_nesting_layer/non-str-keys': 'dict{int:2: int:3, tuple[int:4]: int:5, NoneType:None: int:6}',
 'remove_nesting_layer/not-a-mapping': 'raises AttributeError("\'NoneType\' object has no attribute \'items\'") '
                                       'cause=None',
 'remove_nesting_layer/a-list': 'raises AttributeError("\'list\' object has no attribute \'items\'") cause=None',
 'remove_nesting_layer/new-object': '(True, True, True)',
 "parse_bytes/0/'100'": 'int:100',
 "parse_bytes/1/'100 MB'": 'int:100000000',
 "parse_bytes/2/'100M'": 'int:100000000',
 "parse_bytes/3/'5kB'": 'int:5000',
 "parse_bytes/4/'5.4 kB'": 'int:5400',
 "parse_bytes/5/'1kiB'": 'int:1024',
 "parse_bytes/6/'1Mi'": 'int:1048576',
 "parse_bytes/7/'1e6'": 'int:1000000',
 "parse_bytes/8/'1e6 kB'": 'int:1000000000',
 "parse_bytes/9/'MB'": 'int:1000000',
 'parse_bytes/10/123': 'int:123',
 "parse_bytes/11/'.5GB'": 'int:500000000',
 "parse_bytes/12/'123 def'": 'raises ValueError("Could not interpret \'def\' as a byte unit") cause=KeyError',
 "parse_bytes/13/'abc# GB'": 'raises ValueError("Could not interpret \'1abc#\' as a number") cause=ValueError',
 "parse_bytes/14/''": 'int:1',
 "parse_bytes/15/' '": 'int:1',
 "parse_bytes/16/'   '": 'int:1',
 "parse_bytes/17/'B'": 'int:1',
 "parse_bytes/18/'b'": 'int:1',
 "parse_bytes/19/'k'": 'int:1000',
 "parse_bytes/20/'K'": 'int:1000',
 "parse_bytes/21/'kb'": 'int:1000',
 "parse_bytes/22/'KB'": 'int:1000',
 "parse_bytes/23/'Ki'": 'int:1024',
 "parse_bytes/24/'ki'": 'int:1024',
 "parse_bytes/25/'kib'": 'int:1024',
 "parse_bytes/26/'KIB'": 'int:1024',
 "parse_bytes/27/'m'": 'int:1000000',
 "parse_bytes/28/'g'": 'int:1000000000',
 "parse_bytes/29/'t'": 'int:1000000000000',
 "parse_bytes/30/'p'": 'int:1000000000000000',
 "parse_bytes/31/'gi'": 'int:1073741824',
 "parse_bytes/32/'ti'": 'int:1099511627776',
 "parse_bytes/33/'pi'": 'int:1125899906842624',
 "parse_bytes/34/'pib'": 'int:1125899906842624',
 "parse_bytes/35/'PB'": 'int:1000000000000000',
 "parse_bytes/36/'1 PiB'": 'int:1125899906842624',
 "parse_bytes/37/'0'": 'int:0',
 "parse_bytes/38/'0kB'": 'int:0',
 "parse_bytes/39/'-1kB'": 'int:-1000',
 "parse_bytes/40/'- 1 kB'": 'int:-1000',
 "parse_bytes/41/'+2MB'": 'int:2000000',
 "parse_bytes/42/'1.5'": 'int:1',
 "parse_bytes/43/'1.5e3MB'": 'int:1500000000',
 "parse_bytes/44/'1e'": 'raises ValueError("Could not interpret \'e\' as a byte unit") cause=KeyError',
 "parse_bytes/45/'1e3e'": 'raises ValueError("Could not interpret \'e\' as a byte unit") cause=KeyError',
 "parse_bytes/46/'1E3'": 'int:1000',
 "parse_bytes/47/'1e+3kB'": 'int:1000000',
 "parse_bytes/48/'1e-3kB'": 'int:1',
 "parse_bytes/49/'5 foos'": 'raises ValueError("Could not interpret \'foos\' as a byte unit") cause=KeyError',
 "parse_bytes/50/'1 k B'": 'int:1000',
 "parse_bytes/51/'1kB '": 'int:1000',
 "parse_bytes/52/' 1 kB'": 'int:1000',
 "parse_bytes/53/'1\\tkB'": 'int:1000',
 "parse_bytes/54/'1\\nkB'": 'int:1000',
 "parse_bytes/55/'1_000kB'": 'int:1000000',
 "parse_bytes/56/'1,5kB'": 'raises ValueError("Could not interpret \'1,5\' as a number") cause=ValueError',
 "parse_bytes/57/'0x10'": 'raises ValueError("Could not interpret \'0x10\' as a number") cause=ValueError',
 "parse_bytes/58/'0x10kB'": 'raises ValueError("Could not interpret \'0x10\' as a number") cause=ValueError',
 "parse_bytes/59/'inf'": 'raises ValueError("Could not interpret \'inf\' as a byte unit") cause=KeyError',
 "parse_bytes/60/'infkB'": 'raises ValueError("Could not interpret \'infkB\' as a byte unit") cause=KeyError',
 "parse_bytes/61/'nan'": 'raises ValueError("Could not interpret \'nan\' as a byte unit") cause=KeyError',
 "parse_bytes/62/'1inf'": 'raises ValueError("Could not interpret \'inf\' as a byte unit") cause=KeyError',
 "parse_bytes/63/'1nan'": 'raises ValueError("Could not interpret \'nan\' as a byte unit") cause=KeyError',
 "parse_bytes/64/'nan1'": 'raises ValueError("Could not interpret \'nan1\' as a number") cause=ValueError',
 "parse_bytes/65/'inf1'": 'raises ValueError("Could not interpret \'inf1\' as a number") cause=ValueError',
 "parse_bytes/66/'1e400'": "raises OverflowError('cannot convert float infinity to integer') cause=None",
 "parse_bytes/67/'1e400kB'": "raises OverflowError('cannot convert float infinity to integer') cause=None",
 "parse_bytes/68/'12abc34'": 'raises ValueError("Could not interpret \'12abc34\' as a number") cause=ValueError',
 "parse_bytes/69/'12abc34kB'": 'raises ValueError("Could not interpret \'12abc34\' as a number") cause=ValueError',
 "parse_bytes/70/'abc'": 'raises ValueError("Could not interpret \'abc\' as a byte unit") cause=KeyError',
 "parse_bytes/71/'abc1'": 'raises ValueError("Could not interpret \'abc1\' as a number") cause=ValueError',
 "parse_bytes/72/'1abc'": 'raises ValueError("Could not interpret \'abc\' as a byte unit") cause=KeyError',
 "parse_bytes/73/'#'": 'raises ValueError("Could not interpret \'1#\' as a number") cause=ValueError',
 "parse_bytes/74/'#1'": 'raises ValueError("Could not interpret \'#1\' as a number") cause=ValueError',
 "parse_bytes/75/'1#'": 'raises ValueError("Could not interpret \'1#\' as a number") cause=ValueError',
 "parse_bytes/76/'1#kB'": 'raises ValueError("Could not interpret \'1#\' as a number") cause=ValueError',
 "parse_bytes/77/'kB1'": 'raises ValueError("Could not interpret \'kB1\' as a number") cause=ValueError',
 "parse_bytes/78/'k1B'": 'raises ValueError("Could not interpret \'k1\' as a number") cause=ValueError',
 "parse_bytes/79/'1.'": 'int:1',
 "parse_bytes/80/'1.kB'": 'int:1000',
 "parse_bytes/81/'.'": 'int:1',
 "parse_bytes/82/'.kB'": 'int:1000',
 "parse_bytes/83/'²'": 'raises ValueError("Could not interpret \'²\' as a number") cause=ValueError',
 "parse_bytes/84/'2²'": 'raises ValueError("Could not interpret \'2²\' as a number") cause=ValueError',
 "parse_bytes/85/'²kB'": 'raises ValueError("Could not interpret \'²\' as a number") cause=ValueError',
 "parse_bytes/86/'１００MB'": 'int:100000000',
 "parse_bytes/87/'١٢'": 'int:12',
 "parse_bytes/88/'1é'": 'raises ValueError("Could not interpret \'é\' as a byte unit") cause=KeyError',
 "parse_bytes/89/'1µB'": 'raises ValueError("Could not interpret \'µB\' as a byte unit") cause=KeyError',
 "parse_bytes/90/'1μB'": 'raises ValueError("Could not interpret \'μB\' as a byte unit") cause=KeyError',
 "parse_bytes/91/'1K'": 'int:1000',
 "parse_bytes/92/'1KB'": 'int:1000',
 "parse_bytes/93/'1kıB'": 'raises ValueError("Could not interpret \'kıB\' as a byte unit") cause=KeyError',
 "parse_bytes/94/'①'": 'raises ValueError("Could not interpret \'①\' as a number") cause=ValueError',
 "parse_bytes/95/'①kB'": 'raises ValueError("Could not interpret \'①\' as a number") cause=ValueError',
 "parse_bytes/96/'1①'": 'raises ValueError("Could not interpret \'1①\' as a number") cause=ValueError',
 "parse_bytes/97/'1 0 0 M B'": 'int:100000000',
 "parse_bytes/98/'999999999999999999999999999999'": 'int:1000000000000000019884624838656',
 "parse_bytes/99/'999999999999999999999999999999PiB'": 'int:1125899906842624022388097253443317686383673344',
 "parse_bytes/100/'1kkkkkkkkkkkkkkkkkkkkkkkkkkkkkkkkkkkkkkkkkkkkkkkkkk'": 'raises ValueError("Could not interpret '
                                                                          "'kkkkkkkkkkkkkkkkkkkkkkkkkkkkkkkkkkkkkkkkkkkkkkkkkk' "
                                                                          'as a byte unit") cause=KeyError',
 'parse_bytes/101/0': 'int:0',
 'parse_bytes/102/-3': 'int:-3',
 'parse_bytes/103/1.9': 'int:1',
 'parse_bytes/104/-1.9': 'int:-1',
 'parse_bytes/105/1e+20': 'int:100000000000000000000',
 'parse_bytes/106/True': 'int:1',
 'parse_bytes/107/False': 'int:0',
 'parse_bytes/108/inf': "raises OverflowError('cannot convert float infinity to integer') cause=None",
 'parse_bytes/109/nan': "raises ValueError('cannot convert float NaN to integer') cause=None",
 'parse_bytes/110/None': 'raises AttributeError("\'NoneType\' object has no attribute \'replace\'") cause=None',
 "parse_bytes/111/b'1kB'": 'raises TypeError("a bytes-like object is required, not \'str\'") cause=None',
 'parse_bytes/112/[1]': 'raises AttributeError("\'list\' object has no attribute \'replace\'") cause=None',
 "parse_bytes/113/('1kB',)": 'raises AttributeError("\'tuple\' object has no attribute \'replace\'") cause=None',
 'parse_bytes/114/(1+0j)': 'raises AttributeError("\'complex\' object has no attribute \'replace\'") cause=None',
 "parse_bytes/115/bytearray(b'1')": 'raises TypeError("a bytes-like object is required, not \'str\'") cause=None',
 "parse_bytes/unit/'kb'": 'int:1000',
 "parse_bytes/unit/'3kb'": 'int:3000',
 "parse_bytes/unit/'2.5 kb'": 'int:2500',
 "parse_bytes/unit/'1e2kb'": 'int:100000',
 "parse_bytes/unit/'KB'": 'int:1000',
 "parse_bytes/unit/'3KB'": 'int:3000',
 "parse_bytes/unit/'2.5 KB'": 'int:2500',
 "parse_bytes/unit/'1e2KB'": 'int:100000',
 "parse_bytes/unit/'Kb'": 'int:1000',
 "parse_bytes/unit/'3Kb'": 'int:3000',
 "parse_bytes/unit/'2.5 Kb'": 'int:2500',
 "parse_bytes/unit/'1e2Kb'": 'int:100000',
 "parse_bytes/unit/'mb'": 'int:1000000',
 "parse_bytes/unit/'3mb'": 'int:3000000',
 "parse_bytes/unit/'2.5 mb'": 'int:2500000',
 "parse_bytes/unit/'1e2mb'": 'int:100000000',
 "parse_bytes/unit/'MB'": 'int:1000000',
 "parse_bytes/unit/'3MB'": 'int:3000000',
 "parse_bytes/unit/'2.5 MB'": 'int:2500000',
 "parse_bytes/unit/'1e2MB'": 'int:100000000',
 "parse_bytes/unit/'Mb'": 'int:1000000',
 "parse_bytes/unit/'3Mb'": 'int:3000000',
 "parse_bytes/unit/'2.5 Mb'": 'int:2500000',
 "parse_bytes/unit/'1e2Mb'": 'int:100000000',
 "parse_bytes/unit/'gb'": 'int:1000000000',
 "parse_bytes/unit/'3gb'": 'int:3000000000',
 "parse_bytes/unit/'2.5 gb'": 'int:2500000000',
 "parse_bytes/unit/'1e2gb'": 'int:100000000000',
 "parse_bytes/unit/'GB'": 'int:1000000000',
 "parse_bytes/unit/'3GB'": 'int:3000000000',
 "parse_bytes/unit/'2.5 GB'": 'int:2500000000',
 "parse_bytes/unit/'1e2GB'": 'int:100000000000',
 "parse_bytes/unit/'Gb'": 'int:1000000000',
 "parse_bytes/unit/'3Gb'": 'int:3000000000',
 "parse_bytes/unit/'2.5 Gb'": 'int:2500000000',
 "parse_bytes/unit/'1e2Gb'": 'int:100000000000',
 "parse_bytes/unit/'tb'": 'int:1000000000000',
 "parse_bytes/unit/'3tb'": 'int:3000000000000',
 "parse_bytes/unit/'2.5 tb'": 'int:2500000000000',
 "parse_bytes/unit/'1e2tb'": 'int:100000000000000',
 "parse_bytes/unit/'TB'": 'int:1000000000000',
 "parse_bytes/unit/'3TB'": 'int:3000000000000',
 "parse_bytes/unit/'2.5 TB'": 'int:2500000000000',
 "parse_bytes/unit/'1e2TB'": 'int:100000000000000',
 "parse_bytes/unit/'Tb'": 'int:1000000000000',
 "parse_bytes/unit/'3Tb'": 'int:3000000000000',
 "parse_bytes/unit/'2.5 Tb'": 'int:2500000000000',
 "parse_bytes/unit/'1e2Tb'": 'int:100000000000000',
 "parse_bytes/unit/'pb'": 'int:1000000000000000',
 "parse_bytes/unit/'3pb'": 'int:3000000000000000',
 "parse_bytes/unit/'2.5 pb'": 'int:2500000000000000',
 "parse_bytes/unit/'1e2pb'": 'int:100000000000000000',
 "parse_bytes/unit/'PB'": 'int:1000000000000000',
 "parse_bytes/unit/'3PB'": 'int:3000000000000000',
 "parse_bytes/unit/'2.5 PB'": 'int:2500000000000000',
 "parse_bytes/unit/'1e2PB'": 'int:100000000000000000',
 "parse_bytes/unit/'Pb'": 'int:1000000000000000',
 "parse_bytes/unit/'3Pb'": 'int:3000000000000000',
 "parse_bytes/unit/'2.5 Pb'": 'int:2500000000000000',
 "parse_bytes/unit/'1e2Pb'": 'int:100000000000000000',
 "parse_bytes/unit/'kib'": 'int:1024',
 "parse_bytes/unit/'3kib'": 'int:3072',
 "parse_bytes/unit/'2.5 kib'": 'int:2560',
 "parse_bytes/unit/'1e2kib'": 'int:102400',
 "parse_bytes/unit/'KIB'": 'int:1024',
 "parse_bytes/unit/'3KIB'": 'int:3072',
 "parse_bytes/unit/'2.5 KIB'": 'int:2560',
 "parse_bytes/unit/'1e2KIB'": 'int:102400',
 "parse_bytes/unit/'Kib'": 'int:1024',
 "parse_bytes/unit/'3Kib'": 'int:3072',
 "parse_bytes/unit/'2.5 Kib'": 'int:2560',
 "parse_bytes/unit/'1e2Kib'": 'int:102400',
 "parse_bytes/unit/'mib'": 'int:1048576',
 "parse_bytes/unit/'3mib'": 'int:3145728',
 "parse_bytes/unit/'2.5 mib'": 'int:2621440',
 "parse_bytes/unit/'1e2mib'": 'int:104857600',
 "parse_bytes/unit/'MIB'": 'int:1048576',
 "parse_bytes/unit/'3MIB'": 'int:3145728',
 "parse_bytes/unit/'2.5 MIB'": 'int:2621440',
 "parse_bytes/unit/'1e2MIB'": 'int:104857600',
 "parse_bytes/unit/'Mib'": 'int:1048576',
 "parse_bytes/unit/'3Mib'": 'int:3145728',
 "parse_bytes/unit/'2.5 Mib'": 'int:2621440',
 "parse_bytes/unit/'1e2Mib'": 'int:104857600',
 "parse_bytes/unit/'gib'": 'int:1073741824',
 "parse_bytes/unit/'3gib'": 'int:3221225472',
 "parse_bytes/unit/'2.5 gib'": 'int:2684354560',
 "parse_bytes/unit/'1e2gib'": 'int:107374182400',
 "parse_bytes/unit/'GIB'": 'int:1073741824',
 "parse_bytes/unit/'3GIB'": 'int:3221225472',
 "parse_bytes/unit/'2.5 GIB'": 'int:2684354560',
 "parse_bytes/unit/'1e2GIB'": 'int:107374182400',
 "parse_bytes/unit/'Gib'": 'int:1073741824',
 "parse_bytes/unit/'3Gib'": 'int:3221225472',
 "parse_bytes/unit/'2.5 Gib'": 'int:2684354560',
 "parse_bytes/unit/'1e2Gib'": 'int:107374182400',
 "parse_bytes/unit/'tib'": 'int:1099511627776',
 "parse_bytes/unit/'3tib'": 'int:3298534883328',
 "parse_bytes/unit/'2.5 tib'": 'int:2748779069440',
 "parse_bytes/unit/'1e2tib'": 'int:109951162777600',
 "parse_bytes/unit/'TIB'": 'int:1099511627776',
 "parse_bytes/unit/'3TIB'": 'int:3298534883328',
 "parse_bytes/unit/'2.5 TIB'": 'int:2748779069440',
 "parse_bytes/unit/'1e2TIB'": 'int:109951162777600',
 "parse_bytes/unit/'Tib'": 'int:1099511627776',
 "parse_bytes/unit/'3Tib'": 'int:3298534883328',
 "parse_bytes/unit/'2.5 Tib'": 'int:2748779069440',
 "parse_bytes/unit/'1e2Tib'": 'int:109951162777600',
 "parse_bytes/unit/'pib'": 'int:1125899906842624',
 "parse_bytes/unit/'3pib'": 'int:3377699720527872',
 "parse_bytes/unit/'2.5 pib'": 'int:2814749767106560',
 "parse_bytes/unit/'1e2pib'": 'int:112589990684262400',
 "parse_bytes/unit/'PIB'": 'int:1125899906842624',
 "parse_bytes/unit/'3PIB'": 'int:3377699720527872',
 "parse_bytes/unit/'2.5 PIB'": 'int:2814749767106560',
 "parse_bytes/unit/'1e2PIB'": 'int:112589990684262400',
 "parse_bytes/unit/'Pib'": 'int:1125899906842624',
 "parse_bytes/unit/'3Pib'": 'int:3377699720527872',
 "parse_bytes/unit/'2.5 Pib'": 'int:2814749767106560',
 "parse_bytes/unit/'1e2Pib'": 'int:112589990684262400',
 "parse_bytes/unit/'b'": 'int:1',
 "parse_bytes/unit/'3b'": 'int:3',
 "parse_bytes/unit/'2.5 b'": 'int:2',
 "parse_bytes/unit/'1e2b'": 'int:100',
 "parse_bytes/unit/'B'": 'int:1',
 "parse_bytes/unit/'3B'": 'int:3',
 "parse_bytes/unit/'2.5 B'": 'int:2',
 "parse_bytes/unit/'1e2B'": 'int:100',
 "parse_bytes/unit/''": 'int:1',
 "parse_bytes/unit/'3'": 'int:3',
 "parse_bytes/unit/'2.5 '": 'int:2',
 "parse_bytes/unit/'1e2'": 'int:100',
 "parse_bytes/unit/'k'": 'int:1000',
 "parse_bytes/unit/'3k'": 'int:3000',
 "parse_bytes/unit/'2.5 k'": 'int:2500',
 "parse_bytes/unit/'1e2k'": 'int:100000',
 "parse_bytes/unit/'K'": 'int:1000',
 "parse_bytes/unit/'3K'": 'int:3000',
 "parse_bytes/unit/'2.5 K'": 'int:2500',
 "parse_bytes/unit/'1e2K'": 'int:100000',
 "parse_bytes/unit/'m'": 'int:1000000',
 "parse_bytes/unit/'3m'": 'int:3000000',
 "parse_bytes/unit/'2.5 m'": 'int:2500000',
 "parse_bytes/unit/'1e2m'": 'int:100000000',
 "parse_bytes/unit/'M'": 'int:1000000',
 "parse_bytes/unit/'3M'": 'int:3000000',
 "parse_bytes/unit/'2.5 M'": 'int:2500000',
 "parse_bytes/unit/'1e2M'": 'int:100000000',
 "parse_bytes/unit/'g'": 'int:1000000000',
 "parse_bytes/unit/'3g'": 'int:3000000000',
 "parse_bytes/unit/'2.5 g'": 'int:2500000000',
 "parse_bytes/unit/'1e2g'": 'int:100000000000',
 "parse_bytes/unit/'G'": 'int:1000000000',
 "parse_bytes/unit/'3G'": 'int:3000000000',
 "parse_bytes/unit/'2.5 G'": 'int:2500000000',
 "parse_bytes/unit/'1e2G'": 'int:100000000000',
 "parse_bytes/unit/'t'": 'int:1000000000000',
 "parse_bytes/unit/'3t'": 'int:3000000000000',
 "parse_bytes/unit/'2.5 t'": 'int:2500000000000',
 "parse_bytes/unit/'1e2t'": 'int:100000000000000',
 "parse_bytes/unit/'T'": 'int:1000000000000',
 "parse_bytes/unit/'3T'": 'int:3000000000000',
 "parse_bytes/unit/'2.5 T'": 'int:2500000000000',
 "parse_bytes/unit/'1e2T'": 'int:100000000000000',
 "parse_bytes/unit/'p'": 'int:1000000000000000',
 "parse_bytes/unit/'3p'": 'int:3000000000000000',
 "parse_bytes/unit/'2.5 p'": 'int:2500000000000000',
 "parse_bytes/unit/'1e2p'": 'int:100000000000000000',
 "parse_bytes/unit/'P'": 'int:1000000000000000',
 "parse_bytes/unit/'3P'": 'int:3000000000000000',
 "parse_bytes/unit/'2.5 P'": 'int:2500000000000000',
 "parse_bytes/unit/'1e2P'": 'int:100000000000000000',
 "parse_bytes/unit/'ki'": 'int:1024',
 "parse_bytes/unit/'3ki'": 'int:3072',
 "parse_bytes/unit/'2.5 ki'": 'int:2560',
 "parse_bytes/unit/'1e2ki'": 'int:102400',
 "parse_bytes/unit/'KI'": 'int:1024',
 "parse_bytes/unit/'3KI'": 'int:3072',
 "parse_bytes/unit/'2.5 KI'": 'int:2560',
 "parse_bytes/unit/'1e2KI'": 'int:102400',
 "parse_bytes/unit/'Ki'": 'int:1024',
 "parse_bytes/unit/'3Ki'": 'int:3072',
 "parse_bytes/unit/'2.5 Ki'": 'int:2560',
 "parse_bytes/unit/'1e2Ki'": 'int:102400',
 "parse_bytes/unit/'mi'": 'int:1048576',
 "parse_bytes/unit/'3mi'": 'int:3145728',
 "parse_bytes/unit/'2.5 mi'": 'int:2621440',
 "parse_bytes/unit/'1e2mi'": 'int:104857600',
 "parse_bytes/unit/'MI'": 'int:1048576',
 "parse_bytes/unit/'3MI'": 'int:3145728',
 "parse_bytes/unit/'2.5 MI'": 'int:2621440',
 "parse_bytes/unit/'1e2MI'": 'int:104857600',
 "parse_bytes/unit/'Mi'": 'int:1048576',
 "parse_bytes/unit/'3Mi'": 'int:3145728',
 "parse_bytes/unit/'2.5 Mi'": 'int:2621440',
 "parse_bytes/unit/'1e2Mi'": 'int:104857600',
 "parse_bytes/unit/'gi'": 'int:1073741824',
 "parse_bytes/unit/'3gi'": 'int:3221225472',
 "parse_bytes/unit/'2.5 gi'": 'int:2684354560',
 "parse_bytes/unit/'1e2gi'": 'int:107374182400',
 "parse_bytes/unit/'GI'": 'int:1073741824',
 "parse_bytes/unit/'3GI'": 'int:3221225472',
 "parse_bytes/unit/'2.5 GI'": 'int:2684354560',
 "parse_bytes/unit/'1e2GI'": 'int:107374182400',
 "parse_bytes/unit/'Gi'": 'int:1073741824',
 "parse_bytes/unit/'3Gi'": 'int:3221225472',
 "parse_bytes/unit/'2.5 Gi'": 'int:2684354560',
 "parse_bytes/unit/'1e2Gi'": 'int:107374182400',
 "parse_bytes/unit/'ti'": 'int:1099511627776',
 "parse_bytes/unit/'3ti'": 'int:3298534883328',
 "parse_bytes/unit/'2.5 ti'": 'int:2748779069440',
 "parse_bytes/unit/'1e2ti'": 'int:109951162777600',
 "parse_bytes/unit/'TI'": 'int:1099511627776',
 "parse_bytes/unit/'3TI'": 'int:3298534883328',
 "parse_bytes/unit/'2.5 TI'": 'int:2748779069440',
 "parse_bytes/unit/'1e2TI'": 'int:109951162777600',
 "parse_bytes/unit/'Ti'": 'int:1099511627776',
 "parse_bytes/unit/'3Ti'": 'int:3298534883328',
 "parse_bytes/unit/'2.5 Ti'": 'int:2748779069440',
 "parse_bytes/unit/'1e2Ti'": 'int:109951162777600',
 "parse_bytes/unit/'pi'": 'int:1125899906842624',
 "parse_bytes/unit/'3pi'": 'int:3377699720527872',
 "parse_bytes/unit/'2.5 pi'": 'int:2814749767106560',
 "parse_bytes/unit/'1e2pi'": 'int:112589990684262400',
 "parse_bytes/unit/'PI'": 'int:1125899906842624',
 "parse_bytes/unit/'3PI'": 'int:3377699720527872',
 "parse_bytes/unit/'2.5 PI'": 'int:2814749767106560',
 "parse_bytes/unit/'1e2PI'": 'int:112589990684262400',
 "parse_bytes/unit/'Pi'": 'int:1125899906842624',
 "parse_bytes/unit/'3Pi'": 'int:3377699720527872',
 "parse_bytes/unit/'2.5 Pi'": 'int:2814749767106560',
 "parse_bytes/unit/'1e2Pi'": 'int:112589990684262400',
 'byte_sizes': "dict{str:'kb': int:1000, str:'mb': int:1000000, str:'gb': int:1000000000, str:'tb': int:1000000000000, "
               "str:'pb': int:1000000000000000, str:'kib': int:1024, str:'mib': int:1048576, str:'gib': "
               "int:1073741824, str:'tib': int:1099511627776, str:'pib': int:1125899906842624, str:'b': int:1, str:'': "
               "int:1, str:'k': int:1000, str:'m': int:1000000, str:'g': int:1000000000, str:'t': int:1000000000000, "
               "str:'p': int:1000000000000000, str:'ki': int:1024, str:'mi': int:1048576, str:'gi': int:1073741824, "
               "str:'ti': int:1099511627776, str:'pi': int:1125899906842624}",
 'unique': "list[str:'a', str:'c', str:'e', str:'j', str:'d']",
 'starcall': 'int:4',
 'names': "['byte_sizes', 'parse_bytes', 'remove_nesting_layer', 'rename', 'starcall', 'to_dict', 'unique']"}  # @@EXPECTED@@


def test_equivalence():
    results = collect()
    assert list(results) == list(EXPECTED)
    mismatches = {k: (v, EXPECTED[k]) for k, v in results.items() if v != EXPECTED[k]}
    assert not mismatches, pprint.pformat(mismatches)


if __name__ == "__main__":
    if "--record" in sys.argv:
        pprint.pprint(collect(), sort_dicts=False, width=120)
    else:
        test_equivalence()
        print(f"ok: {len(EXPECTED)} recorded results reproduced")
