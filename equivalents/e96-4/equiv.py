"""Equivalence check for refactoring 4 (ceos_alos2.sar_image.signal_data).

Run as a script (``python equiv.py``) or through pytest.  Every expectation
below was recorded from the unchanged code at HEAD.
"""

import datetime
import hashlib
import io
import json
import random
import struct

from construct import (
    Construct,
    Container,
    ListContainer,
    Renamed,
    Struct,
    Subconstruct,
)

from ceos_alos2.datatypes import Factor, Metadata
from ceos_alos2.sar_image import io as sar_io
from ceos_alos2.sar_image import signal_data
from ceos_alos2.sar_image.signal_data import signal_data_record
from ceos_alos2.utils import to_dict

HEADER_SIZE = 544


def outcome(func, *args, **kwargs):
    """Normalised description of a call: value with its type, or the exception."""
    try:
        value = func(*args, **kwargs)
    except Exception as exc:  # noqa: BLE001
        cause = type(exc.__cause__).__name__
        context = type(exc.__context__).__name__
        return ("raise", type(exc).__name__, str(exc), cause, context)
    return ("value", type(value).__name__, repr(value))


def describe(obj):
    """Everything that defines a construct: classes, names, parameters, children."""
    if isinstance(obj, Construct):
        state = {k: describe(v) for k, v in sorted(vars(obj).items()) if k not in ("docs", "parsed")}
        return {"<class>": f"{type(obj).__module__}.{type(obj).__qualname__}", **state}
    if isinstance(obj, (list, tuple)):
        return [describe(v) for v in obj]
    if isinstance(obj, dict):
        return [[f"{type(k).__name__}:{k!s}", describe(v)] for k, v in obj.items()]
    return f"{type(obj).__name__}:{obj!r}"


def walk(con, path=()):
    """All the constructs of a tree, with the names leading to them."""
    yield path, con
    if isinstance(con, Struct):
        for sub in con.subcons:
            yield from walk(sub, path)
    elif isinstance(con, Renamed):
        yield from walk(con.subcon, path + (con.name,))
    elif isinstance(con, Subconstruct):
        yield from walk(con.subcon, path)


def plain(obj):
    """Parsing results as plain, comparable data (types spelled out)."""
    if isinstance(obj, (Container, dict)):
        return {k: plain(v) for k, v in obj.items() if k != "_io"}
    if isinstance(obj, (ListContainer, list)):
        return [plain(v) for v in obj]
    if isinstance(obj, tuple):
        return ("tuple", *[plain(v) for v in obj])
    if isinstance(obj, (datetime.datetime, bytes)):
        return repr(obj)
    return f"{type(obj).__name__}:{obj!s}"


def digest(obj):
    text = json.dumps(obj, sort_keys=False, indent=1)
    return hashlib.sha256(text.encode()).hexdigest()


def record_bytes(seed, n_pixels=6, length=None, kind=10):
    """A signal data record with reproducible, arbitrary contents."""
    rng = random.Random(seed)
    body = bytearray(rng.randbytes(HEADER_SIZE))
    if length is None:
        length = HEADER_SIZE + n_pixels
    body[0:12] = struct.pack(">IBBBBI", seed, 50, kind, 18, 20, length)
    body[36:48] = struct.pack(">III", 1990 + seed % 60, 1 + seed % 365, rng.randrange(86400000))
    body[84:92] = struct.pack(">Q", rng.randrange(86400000000))
    return bytes(body) + rng.randbytes(n_pixels)


def fixed_record():
    """A record with hand-picked values in the fields touched by the refactoring."""
    body = bytearray(HEADER_SIZE)
    body[0:12] = struct.pack(">IBBBBI", 7, 50, 10, 18, 20, HEADER_SIZE + 4)
    body[36:48] = struct.pack(">III", 2014, 217, 40669000)
    body[84:92] = struct.pack(">Q", 40669123456)
    body[100:116] = struct.pack(">IIII", 31, 32, 41, 42)  # elevation / squint angles
    body[132:140] = struct.pack(">II", 35123456, 139654321)  # platform latitude / longitude
    body[148:172] = struct.pack(">IIIIII", 1, 2, 3, 4, 5, 6)  # velocity / acceleration
    body[172:180] = struct.pack(">II", 90000000, 4294967295)  # track angles
    body[180:192] = struct.pack(">III", 1000000, 1, 0)  # attitude
    body[192:216] = struct.pack(">IIIIII", 1500000, 2500000, 3500000, 3, 30, 300)
    return bytes(body) + b"\x01\x02\x03\x04"


EXPECTED = {'definition': 'de3a06b612a89919f395d0c1156bd82cc8efccdbc7f9ad272d715aa0f30b6362',
 'field-names': ['record_start',
                 'preamble',
                 'sar_image_data_line_number',
                 'sar_image_data_record_index',
                 'actual_count_of_left_fill_pixels',
                 'actual_count_of_data_pixels',
                 'actual_count_of_right_fill_pixels',
                 'sensor_parameters_update_flag',
                 'sensor_acquisition_date',
                 'sar_channel_id',
                 'sar_channel_code',
                 'transmitted_pulse_polarization',
                 'received_pulse_polarization',
                 'prf',
                 'scan_id',
                 'onboard_range_compressed_flag',
                 'chirp_type_designator',
                 'chirp_length',
                 'chirp_constant_coefficient',
                 'chirp_linear_coefficient',
                 'chirp_quadratic_coefficient',
                 'sensor_acquisition_date_microseconds',
                 'receiver_gain',
                 'invalid_line_flag',
                 'elevation_angle_at_nadir_of_antenna',
                 'antenna_squint_angle',
                 'slant_range_to_first_data_sample',
                 'data_record_window_position',
                 'blanks1',
                 'platform_position_parameters_update_flag',
                 'platform_latitude',
                 'platform_longitude',
                 'platform_altitude',
                 'platform_ground_speed',
                 'platform_velocity',
                 'platform_acceleration',
                 'platform_track_angle',
                 'platform_true_track_angle',
                 'platform_attitude',
                 'latitude_of_first_pixel',
                 'latitude_of_center_pixel',
                 'latitude_of_last_pixel',
                 'longitude_of_first_pixel',
                 'longitude_of_center_pixel',
                 'longitude_of_last_pixel',
                 'burst_number',
                 'line_number_in_this_burst',
                 'blanks2',
                 'alos2_frame_number',
                 'palsar_auxiliary_data',
                 'data'],
 'nested-names': {'preamble': ['record_sequence_number',
                               'first_record_subtype',
                               'record_type',
                               'second_record_subtype',
                               'third_record_subtype',
                               'record_length'],
                  'elevation_angle_at_nadir_of_antenna': ['electronic', 'mechanic'],
                  'antenna_squint_angle': ['electronic', 'mechanic'],
                  'platform_velocity': ['x', 'y', 'z'],
                  'platform_acceleration': ['x', 'y', 'z'],
                  'platform_attitude': ['pitch', 'roll', 'yaw'],
                  'data': ['start', 'size', 'stop']},
 'sizeof': ('raise',
            'SizeofError',
            'Error in path (sizeof) -> data -> stop\n'
            'Seek only moves the stream, size is not meaningful',
            'NoneType',
            'NoneType'),
 'metadata': [('prf', {'units': 'mHz'}, 'FormatField'),
              ('chirp_length', {'units': 'ns'}, 'FormatField'),
              ('chirp_constant_coefficient', {'units': 'Hz'}, 'FormatField'),
              ('chirp_linear_coefficient', {'units': 'Hz/µs'}, 'FormatField'),
              ('chirp_quadratic_coefficient', {'units': 'Hz/µs^2'}, 'FormatField'),
              ('receiver_gain', {'units': 'dB'}, 'FormatField'),
              ('elevation_angle_at_nadir_of_antenna.electronic', {'units': 'deg'}, 'FormatField'),
              ('elevation_angle_at_nadir_of_antenna.mechanic', {'units': 'deg'}, 'FormatField'),
              ('antenna_squint_angle.electronic', {'units': 'deg'}, 'FormatField'),
              ('antenna_squint_angle.mechanic', {'units': 'deg'}, 'FormatField'),
              ('slant_range_to_first_data_sample', {'units': 'm'}, 'FormatField'),
              ('data_record_window_position', {'units': 'ns'}, 'FormatField'),
              ('platform_latitude', {'units': 'deg'}, 'Factor'),
              ('platform_longitude', {'units': 'deg'}, 'Factor'),
              ('platform_altitude', {'units': 'deg'}, 'FormatField'),
              ('platform_ground_speed', {'units': 'cm/s'}, 'FormatField'),
              ('platform_velocity.x', {'units': 'cm/s'}, 'FormatField'),
              ('platform_velocity.y', {'units': 'cm/s'}, 'FormatField'),
              ('platform_velocity.z', {'units': 'cm/s'}, 'FormatField'),
              ('platform_acceleration.x', {'units': 'cm/s^2'}, 'FormatField'),
              ('platform_acceleration.y', {'units': 'cm/s^2'}, 'FormatField'),
              ('platform_acceleration.z', {'units': 'cm/s^2'}, 'FormatField'),
              ('platform_track_angle', {'units': 'deg'}, 'Factor'),
              ('platform_true_track_angle', {'units': 'deg'}, 'Factor'),
              ('platform_attitude.pitch', {'units': 'deg'}, 'Factor'),
              ('platform_attitude.roll', {'units': 'deg'}, 'Factor'),
              ('platform_attitude.yaw', {'units': 'deg'}, 'Factor'),
              ('latitude_of_first_pixel', {'units': 'deg'}, 'Factor'),
              ('latitude_of_center_pixel', {'units': 'deg'}, 'Factor'),
              ('latitude_of_last_pixel', {'units': 'deg'}, 'Factor'),
              ('longitude_of_first_pixel', {'units': 'deg'}, 'Factor'),
              ('longitude_of_center_pixel', {'units': 'deg'}, 'Factor'),
              ('longitude_of_last_pixel', {'units': 'deg'}, 'Factor')],
 'factors': [('platform_latitude', '1e-06', 'FormatField'),
             ('platform_longitude', '1e-06', 'FormatField'),
             ('platform_track_angle', '1e-06', 'FormatField'),
             ('platform_true_track_angle', '1e-06', 'FormatField'),
             ('platform_attitude.pitch', '1e-06', 'FormatField'),
             ('platform_attitude.roll', '1e-06', 'FormatField'),
             ('platform_attitude.yaw', '1e-06', 'FormatField'),
             ('latitude_of_first_pixel', '1e-06', 'FormatField'),
             ('latitude_of_center_pixel', '1e-06', 'FormatField'),
             ('latitude_of_last_pixel', '1e-06', 'FormatField'),
             ('longitude_of_first_pixel', '1e-06', 'FormatField'),
             ('longitude_of_center_pixel', '1e-06', 'FormatField'),
             ('longitude_of_last_pixel', '1e-06', 'FormatField')],
 'distinct': [33, 33, 33, 13, 13, 9],
 'module-record-is-same': True,
 'record-types': [10, 11],
 'fixed': {'record_start': 'int:0',
           'preamble': {'record_sequence_number': 'int:7',
                        'first_record_subtype': 'int:50',
                        'record_type': 'int:10',
                        'second_record_subtype': 'int:18',
                        'third_record_subtype': 'int:20',
                        'record_length': 'int:548'},
           'sar_image_data_line_number': 'int:0',
           'sar_image_data_record_index': 'int:0',
           'actual_count_of_left_fill_pixels': 'int:0',
           'actual_count_of_data_pixels': 'int:0',
           'actual_count_of_right_fill_pixels': 'int:0',
           'sensor_parameters_update_flag': 'int:0',
           'sensor_acquisition_date': 'datetime.datetime(2014, 8, 5, 11, 17, 49)',
           'sar_channel_id': 'EnumInteger:0',
           'sar_channel_code': 'EnumIntegerString:L',
           'transmitted_pulse_polarization': 'EnumIntegerString:horizontal',
           'received_pulse_polarization': 'EnumIntegerString:horizontal',
           'prf': ('tuple', 'int:0', {'units': 'str:mHz'}),
           'scan_id': 'int:0',
           'onboard_range_compressed_flag': 'bool:False',
           'chirp_type_designator': 'EnumIntegerString:linear_fm_chirp',
           'chirp_length': ('tuple', 'int:0', {'units': 'str:ns'}),
           'chirp_constant_coefficient': ('tuple', 'int:0', {'units': 'str:Hz'}),
           'chirp_linear_coefficient': ('tuple', 'int:0', {'units': 'str:Hz/µs'}),
           'chirp_quadratic_coefficient': ('tuple', 'int:0', {'units': 'str:Hz/µs^2'}),
           'sensor_acquisition_date_microseconds': 'datetime.datetime(2014, 8, 5, 11, 17, 49, '
                                                   '123456)',
           'receiver_gain': ('tuple', 'int:0', {'units': 'str:dB'}),
           'invalid_line_flag': 'bool:False',
           'elevation_angle_at_nadir_of_antenna': {'electronic': ('tuple',
                                                                  'int:31',
                                                                  {'units': 'str:deg'}),
                                                   'mechanic': ('tuple',
                                                                'int:32',
                                                                {'units': 'str:deg'})},
           'antenna_squint_angle': {'electronic': ('tuple', 'int:41', {'units': 'str:deg'}),
                                    'mechanic': ('tuple', 'int:42', {'units': 'str:deg'})},
           'slant_range_to_first_data_sample': ('tuple', 'int:0', {'units': 'str:m'}),
           'data_record_window_position': ('tuple', 'int:0', {'units': 'str:ns'}),
           'blanks1': 'int:0',
           'platform_position_parameters_update_flag': 'EnumIntegerString:repeat',
           'platform_latitude': ('tuple', 'float:35.123456', {'units': 'str:deg'}),
           'platform_longitude': ('tuple', 'float:139.65432099999998', {'units': 'str:deg'}),
           'platform_altitude': ('tuple', 'int:0', {'units': 'str:deg'}),
           'platform_ground_speed': ('tuple', 'int:0', {'units': 'str:cm/s'}),
           'platform_velocity': {'x': ('tuple', 'int:1', {'units': 'str:cm/s'}),
                                 'y': ('tuple', 'int:2', {'units': 'str:cm/s'}),
                                 'z': ('tuple', 'int:3', {'units': 'str:cm/s'})},
           'platform_acceleration': {'x': ('tuple', 'int:4', {'units': 'str:cm/s^2'}),
                                     'y': ('tuple', 'int:5', {'units': 'str:cm/s^2'}),
                                     'z': ('tuple', 'int:6', {'units': 'str:cm/s^2'})},
           'platform_track_angle': ('tuple', 'float:90.0', {'units': 'str:deg'}),
           'platform_true_track_angle': ('tuple', 'float:4294.9672949999995', {'units': 'str:deg'}),
           'platform_attitude': {'pitch': ('tuple', 'float:1.0', {'units': 'str:deg'}),
                                 'roll': ('tuple', 'float:1e-06', {'units': 'str:deg'}),
                                 'yaw': ('tuple', 'float:0.0', {'units': 'str:deg'})},
           'latitude_of_first_pixel': ('tuple', 'float:1.5', {'units': 'str:deg'}),
           'latitude_of_center_pixel': ('tuple', 'float:2.5', {'units': 'str:deg'}),
           'latitude_of_last_pixel': ('tuple', 'float:3.5', {'units': 'str:deg'}),
           'longitude_of_first_pixel': ('tuple', 'float:3e-06', {'units': 'str:deg'}),
           'longitude_of_center_pixel': ('tuple',
                                         'float:2.9999999999999997e-05',
                                         {'units': 'str:deg'}),
           'longitude_of_last_pixel': ('tuple', 'float:0.0003', {'units': 'str:deg'}),
           'burst_number': 'int:0',
           'line_number_in_this_burst': 'int:0',
           'blanks2': "b''",
           'alos2_frame_number': 'int:0',
           'palsar_auxiliary_data': "b''",
           'data': {'start': 'int:544', 'size': 'int:4', 'stop': 'int:548'}},
 'fixed-to-dict': "{'record_start': 0, 'preamble': {'record_sequence_number': 7, "
                  "'first_record_subtype': 50, 'record_type': 10, 'second_record_subtype': 18, "
                  "'third_record_subtype': 20, 'record_length': 548}, "
                  "'sar_image_data_line_number': 0, 'sar_image_data_record_index': 0, "
                  "'actual_count_of_left_fill_pixels': 0, 'actual_count_of_data_pixels': 0, "
                  "'actual_count_of_right_fill_pixels': 0, 'sensor_parameters_update_flag': 0, "
                  "'sensor_acquisition_date': datetime.datetime(2014, 8, 5, 11, 17, 49), "
                  "'sar_channel_id': 0, 'sar_channel_code': 'L', 'transmitted_pulse_polarization': "
                  "'horizontal', 'received_pulse_polarization': 'horizontal', 'prf': (0, {'units': "
                  "'mHz'}), 'scan_id': 0, 'onboard_range_compressed_flag': False, "
                  "'chirp_type_designator': 'linear_fm_chirp', 'chirp_length': (0, {'units': "
                  "'ns'}), 'chirp_constant_coefficient': (0, {'units': 'Hz'}), "
                  "'chirp_linear_coefficient': (0, {'units': 'Hz/µs'}), "
                  "'chirp_quadratic_coefficient': (0, {'units': 'Hz/µs^2'}), "
                  "'sensor_acquisition_date_microseconds': datetime.datetime(2014, 8, 5, 11, 17, "
                  "49, 123456), 'receiver_gain': (0, {'units': 'dB'}), 'invalid_line_flag': False, "
                  "'elevation_angle_at_nadir_of_antenna': {'electronic': (31, {'units': 'deg'}), "
                  "'mechanic': (32, {'units': 'deg'})}, 'antenna_squint_angle': {'electronic': "
                  "(41, {'units': 'deg'}), 'mechanic': (42, {'units': 'deg'})}, "
                  "'slant_range_to_first_data_sample': (0, {'units': 'm'}), "
                  "'data_record_window_position': (0, {'units': 'ns'}), 'blanks1': 0, "
                  "'platform_position_parameters_update_flag': 'repeat', 'platform_latitude': "
                  "(35.123456, {'units': 'deg'}), 'platform_longitude': (139.65432099999998, "
                  "{'units': 'deg'}), 'platform_altitude': (0, {'units': 'deg'}), "
                  "'platform_ground_speed': (0, {'units': 'cm/s'}), 'platform_velocity': {'x': (1, "
                  "{'units': 'cm/s'}), 'y': (2, {'units': 'cm/s'}), 'z': (3, {'units': 'cm/s'})}, "
                  "'platform_acceleration': {'x': (4, {'units': 'cm/s^2'}), 'y': (5, {'units': "
                  "'cm/s^2'}), 'z': (6, {'units': 'cm/s^2'})}, 'platform_track_angle': (90.0, "
                  "{'units': 'deg'}), 'platform_true_track_angle': (4294.9672949999995, {'units': "
                  "'deg'}), 'platform_attitude': {'pitch': (1.0, {'units': 'deg'}), 'roll': "
                  "(1e-06, {'units': 'deg'}), 'yaw': (0.0, {'units': 'deg'})}, "
                  "'latitude_of_first_pixel': (1.5, {'units': 'deg'}), 'latitude_of_center_pixel': "
                  "(2.5, {'units': 'deg'}), 'latitude_of_last_pixel': (3.5, {'units': 'deg'}), "
                  "'longitude_of_first_pixel': (3e-06, {'units': 'deg'}), "
                  "'longitude_of_center_pixel': (2.9999999999999997e-05, {'units': 'deg'}), "
                  "'longitude_of_last_pixel': (0.0003, {'units': 'deg'}), 'burst_number': 0, "
                  "'line_number_in_this_burst': 0, 'blanks2': b'', 'alos2_frame_number': 0, "
                  "'palsar_auxiliary_data': b'', 'data': {'start': 544, 'size': 4, 'stop': 548}}",
 'random': ['e6774b04779e44e8989d50defdc39d461e0760fc37fec6391e661114a03a3769',
            '6db0f05f89a9629a8b7124c601e0bebc47b2ab90b6de0e11c5f7b7a1fb9673ad',
            '4fb8f145fc9b0f91e1d08077a1d16f0112bc85823bf2f883b99e193beb4f1a4d',
            'f1bdc68d6ebc53793cfc66261c6b5d806a6ef9b6fa9bd8f131ac5fd5ad854bc9',
            '9b6d5a1c80567fe85f074d2cee91021778463176b81354a2823f7e5c09481b25',
            'e067398028db492c38a965d3ecdee856863cd34083f3a01c431860e2927b8b66',
            '14b9a93a00b6c8d0a3eb247efb0cdc21716b0447044dfba79820c7d1707e8e1e',
            '0317ea25b4d3a5e4e0c398ffbfe2f13e0a31e22c952a9af7f61ecc8965aa0d76',
            '1b80ac782bc583bc91bc0f164ad9c3d62bd179fcf938b544a5245d2a7f1bae77',
            '5c5c52b8f794719ff267d5a2260930274ac07087fce7f05ef12d124a564c15eb',
            'ebba6fe745f7b9fafc182868e8ecc508ce0c15598cc67f8b127cf5fb7f868f9f',
            'e1db522dbda420280c5b9ad889cab43cb0515fe4dabe5b6c38b01d9c6d0a0cc5',
            '8f94d98baad412a41a136e675d2bc10dcc99bad6d2adc2c3e3e72164dbbd7f76',
            'e606f5175fa1b725382826071f1ce75cb2b266a0c6ad93faeb7ed5043b12da15',
            '151a5f8b2fa1678b367ef23dd40afa28e3532e5fa0e315c2d4e9e75bf5cd3a22',
            '846b45e327acec6d9a782c20b6a849208123701e44222bb50c741eeb0003ff48',
            'd5d86c7821d2f505adab93e6739f0f8db738f0f4a0d04b51e0ce9da5f76313fd',
            '8dbe227e49f70dee5e53177e4a6043eefb488e846e886a44a68072cb35a3b365',
            '451f685b94f288ed49b5b70e38b1697ce135713ee90f02ac86dbec70b2b1cf95',
            '1c14bdb6df97031730238691af204aff34d540552732cafdd441416ddfc0a8ea',
            '8d0808b66715d23a17227058140d177bb3b0e12a1b3872adab5fdee95c6f1ae2',
            '62d9a69987a5d6557444320e6afdd67aaba8227844a2c425fe54a3ac78ee69d4',
            'e22d59eb6e9af1060440463879927ec647dd01bf76e56cabbbd7e1b460871b29',
            '2a0240f400c7b77c695a90e6644b148e0b2dee34c80c4ddb192e9b19741daa30',
            'a41f4248f04c079e02587d217c1a01bb44da5a11727ee05239ba5b1b74d92b03',
            '8082671c5dfcdf85efd6bd895b91b0e98d9898b09d058434304429e56f9fd482',
            'aa7a4231ea77b832d8df31d7f60808ecaf6de558f62dcb5d86a3d0a3a180e8e5',
            'c6e63cce17dcc37811d1e871541a0cfd03377ce5231874152c0ed99a35b82f1b',
            '3256e0c75ac3bb86396d3a7acd42dfbffaf4e0e050739de21350ff1d6fa95c7f',
            '1d36adfa79a49474467c25b80687b1cb5f584db3c4e5c7bc31146613493ec91c',
            'fa912284ed8a004969f8753e504eb297b77eef4e0ed0d22bd5e23393d34fc6bf',
            '8181936f7ecb8853c917fb46491adf76fb4d154912481a0b9742bdd8ffa3fede',
            'e4fc721b4da4f6daac3ae770a112d47ffdf51221cc5d018ed730926ed224e4dd',
            'ae91978d1003b7b986e2fc6c8c20a2b6e24ff97f5c37e110d382227a6619d325',
            '09577c9f1a3b4e84c4f5a8afd783033676a0ed1eb160a5c3f05a8260bcb4bca1',
            '50644ed5d9c03f2bfa5b092b83873e8dfe8abedb64fca5627297dac0f57a7f45',
            '35259e136640af24e03ecc9502bb03cb46caee1ee09260cf3fae39e9a0dd9213',
            '8331df2755e200117754a5e14cedd24bcc1094a153272c400f8a0735cc3b89c7',
            '9242ae33edab0bd386564e4f6d09ef911bc9a5afbaf3fb70eafc5c13dec6e509'],
 'random-sample': {'record_start': 'int:0',
                   'preamble': {'record_sequence_number': 'int:3',
                                'first_record_subtype': 'int:50',
                                'record_type': 'int:10',
                                'second_record_subtype': 'int:18',
                                'third_record_subtype': 'int:20',
                                'record_length': 'int:550'},
                   'sar_image_data_line_number': 'int:1768121121',
                   'sar_image_data_record_index': 'int:2757866846',
                   'actual_count_of_left_fill_pixels': 'int:4116413418',
                   'actual_count_of_data_pixels': 'int:4253063834',
                   'actual_count_of_right_fill_pixels': 'int:2660391801',
                   'sensor_parameters_update_flag': 'int:2788437920',
                   'sensor_acquisition_date': 'datetime.datetime(1993, 1, 4, 3, 18, 0, 697000)',
                   'sar_channel_id': 'EnumInteger:9722',
                   'sar_channel_code': 'EnumInteger:24067',
                   'transmitted_pulse_polarization': 'EnumInteger:40786',
                   'received_pulse_polarization': 'EnumInteger:43240',
                   'prf': ('tuple', 'int:2841601238', {'units': 'str:mHz'}),
                   'scan_id': 'int:1486626680',
                   'onboard_range_compressed_flag': 'bool:True',
                   'chirp_type_designator': 'EnumInteger:25922',
                   'chirp_length': ('tuple', 'int:3963093133', {'units': 'str:ns'}),
                   'chirp_constant_coefficient': ('tuple', 'int:857603387', {'units': 'str:Hz'}),
                   'chirp_linear_coefficient': ('tuple', 'int:656676401', {'units': 'str:Hz/µs'}),
                   'chirp_quadratic_coefficient': ('tuple',
                                                   'int:1989468926',
                                                   {'units': 'str:Hz/µs^2'}),
                   'sensor_acquisition_date_microseconds': 'datetime.datetime(1993, 1, 4, 15, 35, '
                                                           '20, 671269)',
                   'receiver_gain': ('tuple', 'int:3041099146', {'units': 'str:dB'}),
                   'invalid_line_flag': 'bool:True',
                   'elevation_angle_at_nadir_of_antenna': {'electronic': ('tuple',
                                                                          'int:3617633420',
                                                                          {'units': 'str:deg'}),
                                                           'mechanic': ('tuple',
                                                                        'int:2957570681',
                                                                        {'units': 'str:deg'})},
                   'antenna_squint_angle': {'electronic': ('tuple',
                                                           'int:2191305317',
                                                           {'units': 'str:deg'}),
                                            'mechanic': ('tuple',
                                                         'int:720935331',
                                                         {'units': 'str:deg'})},
                   'slant_range_to_first_data_sample': ('tuple',
                                                        'int:3790695388',
                                                        {'units': 'str:m'}),
                   'data_record_window_position': ('tuple', 'int:1171033638', {'units': 'str:ns'}),
                   'blanks1': 'int:2252169019',
                   'platform_position_parameters_update_flag': 'EnumInteger:2134541986',
                   'platform_latitude': ('tuple', 'float:1153.028134', {'units': 'str:deg'}),
                   'platform_longitude': ('tuple', 'float:2218.21155', {'units': 'str:deg'}),
                   'platform_altitude': ('tuple', 'int:3029140461', {'units': 'str:deg'}),
                   'platform_ground_speed': ('tuple', 'int:808775557', {'units': 'str:cm/s'}),
                   'platform_velocity': {'x': ('tuple', 'int:2430915171', {'units': 'str:cm/s'}),
                                         'y': ('tuple', 'int:2578367165', {'units': 'str:cm/s'}),
                                         'z': ('tuple', 'int:329834499', {'units': 'str:cm/s'})},
                   'platform_acceleration': {'x': ('tuple',
                                                   'int:1486873003',
                                                   {'units': 'str:cm/s^2'}),
                                             'y': ('tuple',
                                                   'int:1054537926',
                                                   {'units': 'str:cm/s^2'}),
                                             'z': ('tuple',
                                                   'int:1365074960',
                                                   {'units': 'str:cm/s^2'})},
                   'platform_track_angle': ('tuple', 'float:611.307048', {'units': 'str:deg'}),
                   'platform_true_track_angle': ('tuple',
                                                 'float:2455.772098',
                                                 {'units': 'str:deg'}),
                   'platform_attitude': {'pitch': ('tuple',
                                                   'float:579.280629',
                                                   {'units': 'str:deg'}),
                                         'roll': ('tuple',
                                                  'float:1783.452311',
                                                  {'units': 'str:deg'}),
                                         'yaw': ('tuple',
                                                 'float:3526.94785',
                                                 {'units': 'str:deg'})},
                   'latitude_of_first_pixel': ('tuple', 'float:2682.265421', {'units': 'str:deg'}),
                   'latitude_of_center_pixel': ('tuple', 'float:3642.209223', {'units': 'str:deg'}),
                   'latitude_of_last_pixel': ('tuple', 'float:3462.590471', {'units': 'str:deg'}),
                   'longitude_of_first_pixel': ('tuple',
                                                'float:1132.7789619999999',
                                                {'units': 'str:deg'}),
                   'longitude_of_center_pixel': ('tuple',
                                                 'float:1613.8618529999999',
                                                 {'units': 'str:deg'}),
                   'longitude_of_last_pixel': ('tuple', 'float:1283.062084', {'units': 'str:deg'}),
                   'burst_number': 'int:2517960313',
                   'line_number_in_this_burst': 'int:394346904',
                   'blanks2': "b' "
                              "\\xd8\\x04\\xb8Ob\\x8f\\xeb8\\xe0\\xf9\\xe0\\xeeP:c\\x890\\xd1\\xb6p\\x80\\xc1\\xc9^\\x1f\\xcd\\xeb\\xdb\\x9aKmSR\\x1ce\\xb3vf\\xbaq[\\x08\\xcd\\x04Z\\xb0\\x93r\\xaf\\xd2q\\n\\xd9\\xce\\xf6\\x88\\x9c\\x82\\xef'",
                   'alos2_frame_number': 'int:2677561122',
                   'palsar_auxiliary_data': 'b\'\\xddg\\xfd\\xe0C\\xb2\\x92]\\x1c\\xc4\\xf2\\x18\\xdf\\xdd/\\t\\xfb\\xda\\xce"\\xf4\\xad\\xb0~\\xdct\\x8c7\\xbe\\x0e\\x0bB\\xc8\\xb4)\\xf7\\xe2\\xe4\\n\\xac\\xcaM\\xa8oC\\xbfj\\xc7\\xa1\\x05l\\xa0[\\x10\\xf0\\xda\\x8f\\r\\x10M\\x8bc\\xd0k\\x10\\xad\\xda\\x81\\xa5\\xc1^\\xd5\\x85!\\xc8b{\\\'\\xf3\\x92\\x05E\\xd5Y\\xd9\\xfa\\xba\\x88\\xb4j\\xc7\\x95[\\xe4Vh\\x94\\x86\\x91\\x95\\x04\\xae};p\\xc4y\\xe7K;6V\\x93a\\x96\\xaeGUm\\xea\\ta\\xcf\\xed1IV\\x07P\\x11=\\xdbk{\\x99GT\\x7f\\xb1\\xfd\\t\\xf8\\x16\\x9b,\\x95\\xd8\\xab\\x07\\x93\\x10\\xb2\\x96\\xe5\\xc0)^}\\xd8\\xb2\\xca\\xbdR\\xdcNP\\x8eSA/\\xf2\\xf62,\\xb1\\x8a\\xe6\\\'\\x9a\\xe7\\xaf\\xaek\\x92\\x8e\\x07\\xb1\\x91@\\xb6\\xa4\\x1aO\\xb6\\xbc\\xb6\\xd7\\x94\\xcf\\xa7yI\\x0c6|\\xb5\\n\\xa2\\xc3A\\xe4\\xd4\\xf3I\\xf2\\xfc:\\x04\\xd3\\x92*\\xad_D\\xed\\xf8\\xf2H%\\xf6\\xda\\x1f\\xc2\\xf3>\\x10\\xe2qd{\\x8c\\xf9\\x9b\\xdaK\\xac\\x85\\xa3[\\xedc\\xfd\\x83:\\xc7{\'',
                   'data': {'start': 'int:544', 'size': 'int:6', 'stop': 'int:550'}},
 'attrs-identity': [True, False, False, False],
 'truncated': [('raise',
                'StreamError',
                'Error in path (parsing) -> preamble -> record_sequence_number\n'
                'stream read less than specified amount, expected 4, found 0',
                'NoneType',
                'NoneType'),
               ('raise',
                'StreamError',
                'Error in path (parsing) -> preamble -> record_length\n'
                'stream read less than specified amount, expected 4, found 3',
                'NoneType',
                'NoneType'),
               ('raise',
                'StreamError',
                'Error in path (parsing) -> sar_image_data_line_number\n'
                'stream read less than specified amount, expected 4, found 0',
                'NoneType',
                'NoneType'),
               ('raise',
                'StreamError',
                'Error in path (parsing) -> invalid_line_flag\n'
                'stream read less than specified amount, expected 4, found 3',
                'NoneType',
                'NoneType'),
               ('raise',
                'StreamError',
                'Error in path (parsing) -> elevation_angle_at_nadir_of_antenna -> electronic\n'
                'stream read less than specified amount, expected 4, found 0',
                'NoneType',
                'NoneType'),
               ('raise',
                'StreamError',
                'Error in path (parsing) -> elevation_angle_at_nadir_of_antenna -> mechanic\n'
                'stream read less than specified amount, expected 4, found 0',
                'NoneType',
                'NoneType'),
               ('raise',
                'StreamError',
                'Error in path (parsing) -> antenna_squint_angle -> mechanic\n'
                'stream read less than specified amount, expected 4, found 0',
                'NoneType',
                'NoneType'),
               ('raise',
                'StreamError',
                'Error in path (parsing) -> platform_position_parameters_update_flag\n'
                'stream read less than specified amount, expected 4, found 3',
                'NoneType',
                'NoneType'),
               ('raise',
                'StreamError',
                'Error in path (parsing) -> platform_latitude\n'
                'stream read less than specified amount, expected 4, found 3',
                'NoneType',
                'NoneType'),
               ('raise',
                'StreamError',
                'Error in path (parsing) -> platform_ground_speed\n'
                'stream read less than specified amount, expected 4, found 3',
                'NoneType',
                'NoneType'),
               ('raise',
                'StreamError',
                'Error in path (parsing) -> platform_velocity -> x\n'
                'stream read less than specified amount, expected 4, found 2',
                'NoneType',
                'NoneType'),
               ('raise',
                'StreamError',
                'Error in path (parsing) -> platform_acceleration -> x\n'
                'stream read less than specified amount, expected 4, found 0',
                'NoneType',
                'NoneType'),
               ('raise',
                'StreamError',
                'Error in path (parsing) -> platform_acceleration -> z\n'
                'stream read less than specified amount, expected 4, found 3',
                'NoneType',
                'NoneType'),
               ('raise',
                'StreamError',
                'Error in path (parsing) -> platform_track_angle\n'
                'stream read less than specified amount, expected 4, found 3',
                'NoneType',
                'NoneType'),
               ('raise',
                'StreamError',
                'Error in path (parsing) -> platform_attitude -> pitch\n'
                'stream read less than specified amount, expected 4, found 1',
                'NoneType',
                'NoneType'),
               ('raise',
                'StreamError',
                'Error in path (parsing) -> platform_attitude -> yaw\n'
                'stream read less than specified amount, expected 4, found 3',
                'NoneType',
                'NoneType'),
               ('raise',
                'StreamError',
                'Error in path (parsing) -> longitude_of_last_pixel\n'
                'stream read less than specified amount, expected 4, found 3',
                'NoneType',
                'NoneType'),
               ('raise',
                'StreamError',
                'Error in path (parsing) -> burst_number\n'
                'stream read less than specified amount, expected 4, found 0',
                'NoneType',
                'NoneType'),
               ('raise',
                'StreamError',
                'Error in path (parsing) -> palsar_auxiliary_data\n'
                'stream read less than specified amount, expected 256, found 255',
                'NoneType',
                'NoneType'),
               ('value',
                'Container',
                'Container(record_start=0, preamble=Container(record_sequence_number=7, '
                'first_record_subtype=50, record_type=10, second_record_subtype=18, '
                'third_record_subtype=20, record_length=548), sar_image_data_line_number=0, '
                'sar_image_data_record_index=0, actual_count_of_left_fill_pixels=0, '
                'actual_count_of_data_pixels=0, actual_count_of_right_fill_pixels=0, '
                'sensor_parameters_update_flag=0, sensor_acquisition_date=datetime.datetime(2014, '
                '8, 5, 11, 17, 49), sar_channel_id=0, sar_channel_code=uEnumIntegerString.new(0, '
                "'L'), transmitted_pulse_polarization=uEnumIntegerString.new(0, 'horizontal'), "
                "received_pulse_polarization=uEnumIntegerString.new(0, 'horizontal'), prf=(0, "
                "{'units': 'mHz'}), scan_id=0, onboard_range_compressed_flag=False, "
                "chirp_type_designator=uEnumIntegerString.new(0, 'linear_fm_chirp'), "
                "chirp_length=(0, {'units': 'ns'}), chirp_constant_coefficient=(0, {'units': "
                "'Hz'}), chirp_linear_coefficient=(0, {'units': 'Hz/µs'}), "
                "chirp_quadratic_coefficient=(0, {'units': 'Hz/µs^2'}), "
                'sensor_acquisition_date_microseconds=datetime.datetime(2014, 8, 5, 11, 17, 49, '
                "123456), receiver_gain=(0, {'units': 'dB'}), invalid_line_flag=False, "
                "elevation_angle_at_nadir_of_antenna=Container(electronic=(31, {'units': 'deg'}), "
                "mechanic=(32, {'units': 'deg'})), antenna_squint_angle=Container(electronic=(41, "
                "{'units': 'deg'}), mechanic=(42, {'units': 'deg'})), "
                "slant_range_to_first_data_sample=(0, {'units': 'm'}), "
                "data_record_window_position=(0, {'units': 'ns'}), blanks1=0, "
                "platform_position_parameters_update_flag=uEnumIntegerString.new(0, 'repeat'), "
                "platform_latitude=(35.123456, {'units': 'deg'}), "
                "platform_longitude=(139.65432099999998, {'units': 'deg'}), platform_altitude=(0, "
                "{'units': 'deg'}), platform_ground_speed=(0, {'units': 'cm/s'}), "
                "platform_velocity=Container(x=(1, {'units': 'cm/s'}), y=(2, {'units': 'cm/s'}), "
                "z=(3, {'units': 'cm/s'})), platform_acceleration=Container(x=(4, {'units': "
                "'cm/s^2'}), y=(5, {'units': 'cm/s^2'}), z=(6, {'units': 'cm/s^2'})), "
                "platform_track_angle=(90.0, {'units': 'deg'}), "
                "platform_true_track_angle=(4294.9672949999995, {'units': 'deg'}), "
                "platform_attitude=Container(pitch=(1.0, {'units': 'deg'}), roll=(1e-06, {'units': "
                "'deg'}), yaw=(0.0, {'units': 'deg'})), latitude_of_first_pixel=(1.5, {'units': "
                "'deg'}), latitude_of_center_pixel=(2.5, {'units': 'deg'}), "
                "latitude_of_last_pixel=(3.5, {'units': 'deg'}), longitude_of_first_pixel=(3e-06, "
                "{'units': 'deg'}), longitude_of_center_pixel=(2.9999999999999997e-05, {'units': "
                "'deg'}), longitude_of_last_pixel=(0.0003, {'units': 'deg'}), burst_number=0, "
                "line_number_in_this_burst=0, blanks2=b'', alos2_frame_number=0, "
                "palsar_auxiliary_data=b'', data=Container(start=544, size=4, stop=548))"),
               ('value',
                'Container',
                'Container(record_start=0, preamble=Container(record_sequence_number=7, '
                'first_record_subtype=50, record_type=10, second_record_subtype=18, '
                'third_record_subtype=20, record_length=548), sar_image_data_line_number=0, '
                'sar_image_data_record_index=0, actual_count_of_left_fill_pixels=0, '
                'actual_count_of_data_pixels=0, actual_count_of_right_fill_pixels=0, '
                'sensor_parameters_update_flag=0, sensor_acquisition_date=datetime.datetime(2014, '
                '8, 5, 11, 17, 49), sar_channel_id=0, sar_channel_code=uEnumIntegerString.new(0, '
                "'L'), transmitted_pulse_polarization=uEnumIntegerString.new(0, 'horizontal'), "
                "received_pulse_polarization=uEnumIntegerString.new(0, 'horizontal'), prf=(0, "
                "{'units': 'mHz'}), scan_id=0, onboard_range_compressed_flag=False, "
                "chirp_type_designator=uEnumIntegerString.new(0, 'linear_fm_chirp'), "
                "chirp_length=(0, {'units': 'ns'}), chirp_constant_coefficient=(0, {'units': "
                "'Hz'}), chirp_linear_coefficient=(0, {'units': 'Hz/µs'}), "
                "chirp_quadratic_coefficient=(0, {'units': 'Hz/µs^2'}), "
                'sensor_acquisition_date_microseconds=datetime.datetime(2014, 8, 5, 11, 17, 49, '
                "123456), receiver_gain=(0, {'units': 'dB'}), invalid_line_flag=False, "
                "elevation_angle_at_nadir_of_antenna=Container(electronic=(31, {'units': 'deg'}), "
                "mechanic=(32, {'units': 'deg'})), antenna_squint_angle=Container(electronic=(41, "
                "{'units': 'deg'}), mechanic=(42, {'units': 'deg'})), "
                "slant_range_to_first_data_sample=(0, {'units': 'm'}), "
                "data_record_window_position=(0, {'units': 'ns'}), blanks1=0, "
                "platform_position_parameters_update_flag=uEnumIntegerString.new(0, 'repeat'), "
                "platform_latitude=(35.123456, {'units': 'deg'}), "
                "platform_longitude=(139.65432099999998, {'units': 'deg'}), platform_altitude=(0, "
                "{'units': 'deg'}), platform_ground_speed=(0, {'units': 'cm/s'}), "
                "platform_velocity=Container(x=(1, {'units': 'cm/s'}), y=(2, {'units': 'cm/s'}), "
                "z=(3, {'units': 'cm/s'})), platform_acceleration=Container(x=(4, {'units': "
                "'cm/s^2'}), y=(5, {'units': 'cm/s^2'}), z=(6, {'units': 'cm/s^2'})), "
                "platform_track_angle=(90.0, {'units': 'deg'}), "
                "platform_true_track_angle=(4294.9672949999995, {'units': 'deg'}), "
                "platform_attitude=Container(pitch=(1.0, {'units': 'deg'}), roll=(1e-06, {'units': "
                "'deg'}), yaw=(0.0, {'units': 'deg'})), latitude_of_first_pixel=(1.5, {'units': "
                "'deg'}), latitude_of_center_pixel=(2.5, {'units': 'deg'}), "
                "latitude_of_last_pixel=(3.5, {'units': 'deg'}), longitude_of_first_pixel=(3e-06, "
                "{'units': 'deg'}), longitude_of_center_pixel=(2.9999999999999997e-05, {'units': "
                "'deg'}), longitude_of_last_pixel=(0.0003, {'units': 'deg'}), burst_number=0, "
                "line_number_in_this_burst=0, blanks2=b'', alos2_frame_number=0, "
                "palsar_auxiliary_data=b'', data=Container(start=544, size=4, stop=548))")],
 'lengths': [('value',
              'str',
              '"{\'start\': \'int:544\', \'size\': \'int:-544\', \'stop\': \'int:0\'}"'),
             ('value',
              'str',
              '"{\'start\': \'int:544\', \'size\': \'int:-532\', \'stop\': \'int:12\'}"'),
             ('value',
              'str',
              '"{\'start\': \'int:544\', \'size\': \'int:-1\', \'stop\': \'int:543\'}"'),
             ('value',
              'str',
              '"{\'start\': \'int:544\', \'size\': \'int:0\', \'stop\': \'int:544\'}"'),
             ('value',
              'str',
              '"{\'start\': \'int:544\', \'size\': \'int:6\', \'stop\': \'int:550\'}"'),
             ('value',
              'str',
              '"{\'start\': \'int:544\', \'size\': \'int:7\', \'stop\': \'int:551\'}"'),
             ('value',
              'str',
              '"{\'start\': \'int:544\', \'size\': \'int:9456\', \'stop\': \'int:10000\'}"'),
             ('value',
              'str',
              '"{\'start\': \'int:544\', \'size\': \'int:4294966751\', \'stop\': '
              '\'int:4294967295\'}"')],
 'array': [(0, 544, 6, 550, 1703.5509849999999),
           (550, 1094, 6, 1100, 1937.2600109999998),
           (1100, 1644, 6, 1650, 1037.553519)],
 'array-short': ('raise',
                 'StreamError',
                 'Error in path (parsing) -> preamble -> record_sequence_number\n'
                 'stream read less than specified amount, expected 4, found 0',
                 'NoneType',
                 'NoneType'),
 'build': ('raise', 'NotImplementedError', '', 'NoneType', 'NoneType'),
 'parse-chunk': '6f9b080cd74c71b07164d18962f8975535044c72143677b9e328f09e51a4eacb',
 'parse-chunk-mismatch': ('raise',
                          'ValueError',
                          'sizes mismatch: chunksize is 1644 but got 2191 bytes',
                          'NoneType',
                          'NoneType'),
 'parse-chunk-unknown': ('raise',
                         'ValueError',
                         'unknown record type code: 12',
                         'NoneType',
                         'NoneType'),
 'read-metadata-5-2': ('value',
                       'str',
                       '"[\'d2cfb1ffc1f5bb5c6b5d352a66447a01540cadc81bf72593c216f4b956457bd5\', '
                       "'8c200dbaec463cf9e04e5b71588727fd3769560ab624c63007bc85c495c0c81b', 5, "
                       '[(720, 1264, 1272), (1272, 1816, 1824), (1824, 2368, 2376), (2376, 2920, '
                       '2928), (2928, 3472, 3480)]]"'),
 'read-metadata-4-4': ('value',
                       'str',
                       '"[\'953ffdedc588c075d630a78066bac1a4cc5dac506bbb54f666a5edebf4363358\', '
                       "'25a1d67ce08ea1d9ebd2f65c666f99a0c9ef2341d5dd3f4198864038ed80f5e3', 4, "
                       '[(720, 1264, 1272), (1272, 1816, 1824), (1824, 2368, 2376), (2376, 2920, '
                       '2928)]]"'),
 'read-metadata-1-1024': ('value',
                          'str',
                          '"[\'c4d6ec27033ac6e1eef902d3d195e1a7a69a92dcdd3ebc0a8f10b1f6b6376a78\', '
                          "'2bf1d9e637d449e046c43a30694e236376c100b9ce191962cff199cdb087f996', 1, "
                          '[(720, 1264, 1272)]]"'),
 'read-metadata-0-3': ('value',
                       'str',
                       '"[\'46e2b6a622b04612dcaa8297d7e8b630be8694ad30e6ba76d88717180d5427ce\', '
                       "'4f53cda18c2baa0c0354bb5f9a3ecbe5ed12ab4d8e11ba873c2f11161202b945', 0, "
                       '[]]"')}


def file_bytes(n_records, n_pixels):
    size = HEADER_SIZE + n_pixels
    header = bytearray(b" " * 720)
    header[0:12] = struct.pack(">IBBBBI", 1, 50, 192, 18, 18, 720)
    header[180:186] = f"{n_records:6d}".encode()
    header[186:192] = f"{size:6d}".encode()
    return bytes(header) + b"".join(record_bytes(seed, n_pixels) for seed in range(1, n_records + 1))


def collect():
    results = {}

    # definition
    results["definition"] = digest(describe(signal_data_record))
    results["field-names"] = [sub.name for sub in signal_data_record.subcons]
    results["nested-names"] = {
        sub.name: [inner.name for inner in sub.subcon.subcons]
        for sub in signal_data_record.subcons
        if hasattr(sub.subcon, "subcons")
    }
    results["sizeof"] = outcome(signal_data_record.sizeof)
    metadata = [(path, con) for path, con in walk(signal_data_record) if isinstance(con, Metadata)]
    factors = [(path, con) for path, con in walk(signal_data_record) if isinstance(con, Factor)]
    results["metadata"] = [
        (".".join(path), dict(con.attrs), type(con.subcon).__name__) for path, con in metadata
    ]
    results["factors"] = [
        (".".join(path), repr(con.factor), type(con.subcon).__name__) for path, con in factors
    ]
    # nothing is shared between fields
    results["distinct"] = [
        len(metadata),
        len({id(con) for _, con in metadata}),
        len({id(con.attrs) for _, con in metadata}),
        len(factors),
        len({id(con) for _, con in factors}),
        len({id(con) for _, con in walk(signal_data_record) if isinstance(con, Struct)}),
    ]
    results["module-record-is-same"] = signal_data.signal_data_record is sar_io.signal_data_record
    results["record-types"] = sorted(sar_io.record_types)

    # parsing
    parsed = signal_data_record.parse(fixed_record())
    results["fixed"] = plain(parsed)
    results["fixed-to-dict"] = repr(to_dict(parsed))
    results["random"] = [digest(plain(signal_data_record.parse(record_bytes(seed)))) for seed in range(1, 40)]
    results["random-sample"] = plain(signal_data_record.parse(record_bytes(3)))
    results["attrs-identity"] = [
        signal_data_record.parse(record_bytes(1)).platform_latitude[1]
        is signal_data_record.parse(record_bytes(2)).platform_latitude[1],
        parsed.platform_latitude[1] is parsed.platform_longitude[1],
        parsed.platform_velocity.x[1] is parsed.platform_velocity.y[1],
        parsed.platform_attitude.pitch[1] is parsed.latitude_of_first_pixel[1],
    ]

    results["truncated"] = [
        outcome(signal_data_record.parse, fixed_record()[:n])
        for n in (0, 11, 12, 99, 100, 104, 112, 131, 135, 147, 150, 160, 171, 175, 181, 191, 215,
                  216, 543, 544, 545)
    ]
    results["lengths"] = [
        outcome(lambda length=length: plain(signal_data_record.parse(record_bytes(5, 6, length)).data).__repr__())
        for length in (0, 12, 543, 544, 550, 551, 10000, 2**32 - 1)
    ]
    array = signal_data_record[3].parse(b"".join(record_bytes(seed) for seed in (11, 12, 13)))
    results["array"] = [
        (r.record_start, r.data.start, r.data.size, r.data.stop, r.platform_attitude.yaw[0]) for r in array
    ]
    results["array-short"] = outcome(signal_data_record[3].parse, record_bytes(1) + record_bytes(2))
    results["build"] = outcome(signal_data_record.build, dict(parsed))

    # through the reader of the image files
    chunk = b"".join(record_bytes(seed, 4) for seed in range(1, 5))
    results["parse-chunk"] = digest(plain(sar_io.parse_chunk(chunk, HEADER_SIZE + 4)))
    results["parse-chunk-mismatch"] = outcome(sar_io.parse_chunk, chunk[:-1], HEADER_SIZE + 4)
    results["parse-chunk-unknown"] = outcome(
        sar_io.parse_chunk, record_bytes(1, 4, kind=12), HEADER_SIZE + 4
    )
    for n_records, per_chunk in ((5, 2), (4, 4), (1, 1024), (0, 3)):
        def read(n_records=n_records, per_chunk=per_chunk):
            header, metadata = sar_io.read_metadata(io.BytesIO(file_bytes(n_records, 8)), per_chunk)
            return repr([digest(plain(header)), digest(plain(metadata)), len(metadata),
                         [(m["record_start"], m["data"]["start"], m["data"]["stop"]) for m in metadata]])
        results[f"read-metadata-{n_records}-{per_chunk}"] = outcome(read)
    return results


def test_equivalent():
    results = collect()
    assert sorted(results) == sorted(EXPECTED)
    for key, expected in EXPECTED.items():
        assert results[key] == expected, key


if __name__ == "__main__":
    import sys

    if sys.argv[1:] == ["--record"]:
        import pprint

        pprint.pprint(collect(), width=100, sort_dicts=False)
    else:
        test_equivalent()
        print("ok")
