"""Equivalence check for refactoring 2 (size validation of `sar_image.enums.Flag`).

Run as a script (`python equiv.py`) or through pytest. The expected observations
were recorded from the unchanged code with `python equiv.py --record`.
"""

import decimal
import fractions
import io
import pathlib
import pprint
import sys

import construct
import numpy as np
from construct import Adapter, Int8ub, Int16ub, Int24ub, Int32ub, Int64ub, Struct

from ceos_alos2.sar_image import enums

def canon(value):
    if isinstance(value, dict):
        items = ", ".join(f"{k}={canon(v)}" for k, v in value.items() if k != "_io")
        return f"{type(value).__name__}({items})"
    if isinstance(value, (list, tuple)):
        return f"{type(value).__name__}[{', '.join(canon(v) for v in value)}]"
    return f"{type(value).__name__}:{value!r}"


def outcome(func, *args, **kwargs):
    try:
        result = func(*args, **kwargs)
    except BaseException as e:  # noqa: B902
        return (
            f"raise {type(e).__module__}.{type(e).__qualname__} args={e.args!r} str={str(e)!r}"
            f" cause={type(e.__cause__).__name__} context={type(e.__context__).__name__}"
            f" suppress={e.__suppress_context__}"
        )
    return "ok " + canon(result)


class Counting:
    """hashable size that counts how it is looked up and formatted"""

    def __init__(self, value):
        self.value = value
        self.calls = []

    def __hash__(self):
        self.calls.append("hash")
        return hash(self.value)

    def __eq__(self, other):
        self.calls.append("eq")
        return self.value == other

    def __format__(self, spec):
        self.calls.append(f"format[{spec}]")
        return f"<counting {self.value}>"

    def __str__(self):
        self.calls.append("str")
        return f"str {self.value}"

    def __repr__(self):
        self.calls.append("repr")
        return f"Counting({self.value})"


class OnlyStr:
    def __str__(self):
        return "only-str"

    def __repr__(self):
        return "OnlyStr()"


class BadFormat:
    def __format__(self, spec):
        raise RuntimeError("cannot format")


class BadHash:
    def __hash__(self):
        raise RuntimeError("cannot hash")


SIZES = {
    "1": 1,
    "2": 2,
    "4": 4,
    "8": 8,
    "True": True,
    "False": False,
    "1.0": 1.0,
    "2.0": 2.0,
    "2.5": 2.5,
    "np.int64(4)": np.int64(4),
    "np.uint8(8)": np.uint8(8),
    "np.float32(2)": np.float32(2),
    "Fraction(8, 1)": fractions.Fraction(8, 1),
    "Decimal(4)": decimal.Decimal(4),
    "complex(2, 0)": complex(2, 0),
    "0": 0,
    "3": 3,
    "-1": -1,
    "16": 16,
    "2**70": 2**70,
    "None": None,
    "'1'": "1",
    "'x'": "x",
    "''": "",
    "b'\\x01'": b"\x01",
    "(1, 2)": (1, 2),
    "()": (),
    "(4,)": (4,),
    "nan": float("nan"),
    "inf": float("inf"),
    "frozenset": frozenset({1}),
    "[1]": [1],
    "{}": {},
    "{1}": {1},
    "OnlyStr": OnlyStr(),
    "BadFormat": BadFormat(),
    "BadHash": BadHash(),
    "Int8ub": Int8ub,
    "Ellipsis": ...,
}


def construct_flag(cls, size):
    flag = cls(size)
    names = {id(Int8ub): "Int8ub", id(Int16ub): "Int16ub", id(Int24ub): "Int24ub"}
    names.update({id(Int32ub): "Int32ub", id(Int64ub): "Int64ub"})
    return [type(flag).__name__, names.get(id(flag.subcon), repr(flag.subcon)), flag.sizeof()]


def observe():
    obs = {}
    Flag = enums.Flag

    obs["class identity"] = canon([Flag.__name__, Flag.__qualname__, Flag.__module__])
    obs["class mro"] = canon([f"{c.__module__}.{c.__qualname__}" for c in Flag.__mro__])
    obs["bases table keys"] = canon(list(Flag.bases))
    obs["bases table type"] = canon(type(Flag.bases).__name__)
    obs["bases table values"] = canon(
        [Flag.bases[1] is Int8ub, Flag.bases[2] is Int16ub, Flag.bases[4] is Int32ub]
        + [Flag.bases[8] is Int64ub]
    )
    obs["bases defined on the class"] = canon("bases" in vars(Flag))
    obs["names importable from enums"] = canon(
        [
            name
            for name in ["Adapter", "Enum", "Int8ub", "Int16ub", "Int32ub", "Int64ub", "Flag"]
            + ["sar_channel_id", "sar_channel_code", "pulse_polarization"]
            + ["chirp_type_designator", "platform_position_parameters_update"]
            if hasattr(enums, name)
        ]
    )
    obs["enums.Int8ub is construct's"] = canon(enums.Int8ub is construct.Int8ub)

    for label, size in SIZES.items():
        obs[f"Flag({label})"] = outcome(construct_flag, Flag, size)

    # keyword form and arity errors
    obs["Flag(size=2)"] = outcome(lambda: construct_flag_kw(Flag, size=2))
    obs["Flag(size=3)"] = outcome(lambda: construct_flag_kw(Flag, size=3))
    obs["Flag()"] = outcome(Flag)
    obs["Flag(1, 2)"] = outcome(Flag, 1, 2)
    obs["Flag(bases=...)"] = outcome(lambda: Flag(bases={}))

    # the message goes through format(), exactly once, and the table is searched once
    for value in (2, 3):
        size = Counting(value)
        obs[f"Flag(Counting({value}))"] = outcome(construct_flag, Flag, size)
        obs[f"Flag(Counting({value})) protocol calls"] = canon(size.calls)

    # failed construction does not run the construct initialiser
    instance = Flag.__new__(Flag)
    obs["failed init"] = outcome(instance.__init__, 5)
    obs["failed init leaves no state"] = canon(sorted(vars(instance)))
    instance = Flag.__new__(Flag)
    obs["successful init"] = outcome(instance.__init__, 4)
    obs["successful init state"] = canon(sorted(vars(instance)))

    # the table is read through the instance: subclasses and patched tables are honoured
    class Wide(Flag):
        bases = {3: Int24ub, 1: None, 0: Int8ub, None: Int16ub}

    for label, size in [("3", 3), ("1", 1), ("0", 0), ("None", None), ("2", 2), ("4", 4)]:
        obs[f"Wide({label})"] = outcome(construct_flag, Wide, size)

    class Inherits(Flag):
        pass

    obs["Inherits(8)"] = outcome(construct_flag, Inherits, 8)
    obs["Inherits(7)"] = outcome(construct_flag, Inherits, 7)
    obs["Inherits.bases is Flag.bases"] = canon(Inherits.bases is Flag.bases)

    class NoGet(Flag):
        bases = [Int8ub, Int16ub]

    obs["NoGet(1)"] = outcome(construct_flag, NoGet, 1)

    original = dict(Flag.bases)
    try:
        Flag.bases[3] = Int24ub
        del Flag.bases[8]
        obs["mutated table: Flag(3)"] = outcome(construct_flag, Flag, 3)
        obs["mutated table: Flag(8)"] = outcome(construct_flag, Flag, 8)
        obs["mutated table: Inherits(3)"] = outcome(construct_flag, Inherits, 3)
    finally:
        Flag.bases.clear()
        Flag.bases.update(original)
    obs["restored table: Flag(8)"] = outcome(construct_flag, Flag, 8)
    obs["restored table: Flag(3)"] = outcome(construct_flag, Flag, 3)

    # parsing and building
    for size in (1, 2, 4, 8):
        flag = Flag(size)
        for data in [b"\x00" * size, b"\x00" * (size - 1) + b"\x01", b"\xff" * size]:
            obs[f"Flag({size}).parse({data!r})"] = outcome(flag.parse, data)
        obs[f"Flag({size}).parse(short)"] = outcome(flag.parse, b"\x00" * (size - 1))
        obs[f"Flag({size}).parse(long)"] = outcome(flag.parse, b"\x00" * size + b"\x01")
        for value in [True, False, 0, 1, 2, 255, 256, -1, 1.9, "1", "abc", None, b"1", 2**64]:
            obs[f"Flag({size}).build({value!r})"] = outcome(flag.build, value)
        obs[f"Flag({size}).build(np.bool_(True))"] = outcome(flag.build, np.bool_(True))

    record = Struct("a" / Flag(2), "b" / Flag(4), "c" / Int8ub)
    obs["struct parse"] = outcome(record.parse, b"\x00\x01\x00\x00\x00\x00\x07")
    obs["struct parse truncated"] = outcome(record.parse, b"\x00\x01\x00\x00")
    obs["struct build"] = outcome(record.build, {"a": False, "b": True, "c": 9})
    stream = io.BytesIO()
    obs["struct build bad"] = outcome(record.build_stream, {"a": True, "b": "x", "c": 9}, stream)
    obs["struct build bad wrote"] = canon(stream.getvalue())
    obs["struct sizeof"] = outcome(record.sizeof)

    obs["is adapter"] = canon([issubclass(Flag, Adapter), isinstance(Flag(1), Adapter)])
    obs["construct version"] = canon(construct.__version__)

    return obs


def construct_flag_kw(cls, **kwargs):
    flag = cls(**kwargs)
    return [type(flag).__name__, flag.sizeof()]


# --- recorded from the unchanged code -----------------------------------------
# EXPECTED-BEGIN
EXPECTED = {"Flag('')": "raise builtins.ValueError args=('unsupported size: ',) str='unsupported size: ' "
             'cause=NoneType context=NoneType suppress=False',
 "Flag('1')": "raise builtins.ValueError args=('unsupported size: 1',) str='unsupported size: 1' "
              'cause=NoneType context=NoneType suppress=False',
 "Flag('x')": "raise builtins.ValueError args=('unsupported size: x',) str='unsupported size: x' "
              'cause=NoneType context=NoneType suppress=False',
 'Flag(())': "raise builtins.ValueError args=('unsupported size: ()',) str='unsupported size: ()' "
             'cause=NoneType context=NoneType suppress=False',
 'Flag((1, 2))': "raise builtins.ValueError args=('unsupported size: (1, 2)',) str='unsupported "
                 "size: (1, 2)' cause=NoneType context=NoneType suppress=False",
 'Flag((4,))': "raise builtins.ValueError args=('unsupported size: (4,)',) str='unsupported size: "
               "(4,)' cause=NoneType context=NoneType suppress=False",
 'Flag()': 'raise builtins.TypeError args=("Flag.__init__() missing 1 required positional '
           'argument: \'size\'",) str="Flag.__init__() missing 1 required positional argument: '
           '\'size\'" cause=NoneType context=NoneType suppress=False',
 'Flag(-1)': "raise builtins.ValueError args=('unsupported size: -1',) str='unsupported size: -1' "
             'cause=NoneType context=NoneType suppress=False',
 'Flag(0)': "raise builtins.ValueError args=('unsupported size: 0',) str='unsupported size: 0' "
            'cause=NoneType context=NoneType suppress=False',
 'Flag(1)': "ok list[str:'Flag', str:'Int8ub', int:1]",
 "Flag(1).build('1')": "ok bytes:b'\\x01'",
 "Flag(1).build('abc')": 'raise builtins.ValueError args=("invalid literal for int() with base 10: '
                         '\'abc\'",) str="invalid literal for int() with base 10: \'abc\'" '
                         'cause=NoneType context=NoneType suppress=False',
 'Flag(1).build(-1)': 'raise construct.core.FormatFieldError args=("Error in path '
                      '(building)\\nstruct \'>B\' error during building, given value -1",) '
                      'str="Error in path (building)\\nstruct \'>B\' error during building, given '
                      'value -1" cause=NoneType context=error suppress=False',
 'Flag(1).build(0)': "ok bytes:b'\\x00'",
 'Flag(1).build(1)': "ok bytes:b'\\x01'",
 'Flag(1).build(1.9)': "ok bytes:b'\\x01'",
 'Flag(1).build(18446744073709551616)': 'raise construct.core.FormatFieldError args=("Error in '
                                        "path (building)\\nstruct '>B' error during building, "
                                        'given value 18446744073709551616",) str="Error in path '
                                        "(building)\\nstruct '>B' error during building, given "
                                        'value 18446744073709551616" cause=NoneType context=error '
                                        'suppress=False',
 'Flag(1).build(2)': "ok bytes:b'\\x02'",
 'Flag(1).build(255)': "ok bytes:b'\\xff'",
 'Flag(1).build(256)': 'raise construct.core.FormatFieldError args=("Error in path '
                       '(building)\\nstruct \'>B\' error during building, given value 256",) '
                       'str="Error in path (building)\\nstruct \'>B\' error during building, given '
                       'value 256" cause=NoneType context=error suppress=False',
 'Flag(1).build(False)': "ok bytes:b'\\x00'",
 'Flag(1).build(None)': 'raise builtins.TypeError args=("int() argument must be a string, a '
                        'bytes-like object or a real number, not \'NoneType\'",) str="int() '
                        'argument must be a string, a bytes-like object or a real number, not '
                        '\'NoneType\'" cause=NoneType context=NoneType suppress=False',
 'Flag(1).build(True)': "ok bytes:b'\\x01'",
 "Flag(1).build(b'1')": "ok bytes:b'\\x01'",
 'Flag(1).build(np.bool_(True))': "ok bytes:b'\\x01'",
 "Flag(1).parse(b'\\x00')": 'ok bool:False',
 "Flag(1).parse(b'\\x01')": 'ok bool:True',
 "Flag(1).parse(b'\\xff')": 'ok bool:True',
 'Flag(1).parse(long)': 'ok bool:False',
 'Flag(1).parse(short)': "raise construct.core.StreamError args=('Error in path (parsing)\\nstream "
                         "read less than specified amount, expected 1, found 0',) str='Error in "
                         'path (parsing)\\nstream read less than specified amount, expected 1, '
                         "found 0' cause=NoneType context=NoneType suppress=False",
 'Flag(1, 2)': "raise builtins.TypeError args=('Flag.__init__() takes 2 positional arguments but 3 "
               "were given',) str='Flag.__init__() takes 2 positional arguments but 3 were given' "
               'cause=NoneType context=NoneType suppress=False',
 'Flag(1.0)': "ok list[str:'Flag', str:'Int8ub', int:1]",
 'Flag(16)': "raise builtins.ValueError args=('unsupported size: 16',) str='unsupported size: 16' "
             'cause=NoneType context=NoneType suppress=False',
 'Flag(2)': "ok list[str:'Flag', str:'Int16ub', int:2]",
 "Flag(2).build('1')": "ok bytes:b'\\x00\\x01'",
 "Flag(2).build('abc')": 'raise builtins.ValueError args=("invalid literal for int() with base 10: '
                         '\'abc\'",) str="invalid literal for int() with base 10: \'abc\'" '
                         'cause=NoneType context=NoneType suppress=False',
 'Flag(2).build(-1)': 'raise construct.core.FormatFieldError args=("Error in path '
                      '(building)\\nstruct \'>H\' error during building, given value -1",) '
                      'str="Error in path (building)\\nstruct \'>H\' error during building, given '
                      'value -1" cause=NoneType context=error suppress=False',
 'Flag(2).build(0)': "ok bytes:b'\\x00\\x00'",
 'Flag(2).build(1)': "ok bytes:b'\\x00\\x01'",
 'Flag(2).build(1.9)': "ok bytes:b'\\x00\\x01'",
 'Flag(2).build(18446744073709551616)': 'raise construct.core.FormatFieldError args=("Error in '
                                        "path (building)\\nstruct '>H' error during building, "
                                        'given value 18446744073709551616",) str="Error in path '
                                        "(building)\\nstruct '>H' error during building, given "
                                        'value 18446744073709551616" cause=NoneType context=error '
                                        'suppress=False',
 'Flag(2).build(2)': "ok bytes:b'\\x00\\x02'",
 'Flag(2).build(255)': "ok bytes:b'\\x00\\xff'",
 'Flag(2).build(256)': "ok bytes:b'\\x01\\x00'",
 'Flag(2).build(False)': "ok bytes:b'\\x00\\x00'",
 'Flag(2).build(None)': 'raise builtins.TypeError args=("int() argument must be a string, a '
                        'bytes-like object or a real number, not \'NoneType\'",) str="int() '
                        'argument must be a string, a bytes-like object or a real number, not '
                        '\'NoneType\'" cause=NoneType context=NoneType suppress=False',
 'Flag(2).build(True)': "ok bytes:b'\\x00\\x01'",
 "Flag(2).build(b'1')": "ok bytes:b'\\x00\\x01'",
 'Flag(2).build(np.bool_(True))': "ok bytes:b'\\x00\\x01'",
 "Flag(2).parse(b'\\x00\\x00')": 'ok bool:False',
 "Flag(2).parse(b'\\x00\\x01')": 'ok bool:True',
 "Flag(2).parse(b'\\xff\\xff')": 'ok bool:True',
 'Flag(2).parse(long)': 'ok bool:False',
 'Flag(2).parse(short)': "raise construct.core.StreamError args=('Error in path (parsing)\\nstream "
                         "read less than specified amount, expected 2, found 1',) str='Error in "
                         'path (parsing)\\nstream read less than specified amount, expected 2, '
                         "found 1' cause=NoneType context=NoneType suppress=False",
 'Flag(2**70)': "raise builtins.ValueError args=('unsupported size: 1180591620717411303424',) "
                "str='unsupported size: 1180591620717411303424' cause=NoneType context=NoneType "
                'suppress=False',
 'Flag(2.0)': "ok list[str:'Flag', str:'Int16ub', int:2]",
 'Flag(2.5)': "raise builtins.ValueError args=('unsupported size: 2.5',) str='unsupported size: "
              "2.5' cause=NoneType context=NoneType suppress=False",
 'Flag(3)': "raise builtins.ValueError args=('unsupported size: 3',) str='unsupported size: 3' "
            'cause=NoneType context=NoneType suppress=False',
 'Flag(4)': "ok list[str:'Flag', str:'Int32ub', int:4]",
 "Flag(4).build('1')": "ok bytes:b'\\x00\\x00\\x00\\x01'",
 "Flag(4).build('abc')": 'raise builtins.ValueError args=("invalid literal for int() with base 10: '
                         '\'abc\'",) str="invalid literal for int() with base 10: \'abc\'" '
                         'cause=NoneType context=NoneType suppress=False',
 'Flag(4).build(-1)': 'raise construct.core.FormatFieldError args=("Error in path '
                      '(building)\\nstruct \'>L\' error during building, given value -1",) '
                      'str="Error in path (building)\\nstruct \'>L\' error during building, given '
                      'value -1" cause=NoneType context=error suppress=False',
 'Flag(4).build(0)': "ok bytes:b'\\x00\\x00\\x00\\x00'",
 'Flag(4).build(1)': "ok bytes:b'\\x00\\x00\\x00\\x01'",
 'Flag(4).build(1.9)': "ok bytes:b'\\x00\\x00\\x00\\x01'",
 'Flag(4).build(18446744073709551616)': 'raise construct.core.FormatFieldError args=("Error in '
                                        "path (building)\\nstruct '>L' error during building, "
                                        'given value 18446744073709551616",) str="Error in path '
                                        "(building)\\nstruct '>L' error during building, given "
                                        'value 18446744073709551616" cause=NoneType context=error '
                                        'suppress=False',
 'Flag(4).build(2)': "ok bytes:b'\\x00\\x00\\x00\\x02'",
 'Flag(4).build(255)': "ok bytes:b'\\x00\\x00\\x00\\xff'",
 'Flag(4).build(256)': "ok bytes:b'\\x00\\x00\\x01\\x00'",
 'Flag(4).build(False)': "ok bytes:b'\\x00\\x00\\x00\\x00'",
 'Flag(4).build(None)': 'raise builtins.TypeError args=("int() argument must be a string, a '
                        'bytes-like object or a real number, not \'NoneType\'",) str="int() '
                        'argument must be a string, a bytes-like object or a real number, not '
                        '\'NoneType\'" cause=NoneType context=NoneType suppress=False',
 'Flag(4).build(True)': "ok bytes:b'\\x00\\x00\\x00\\x01'",
 "Flag(4).build(b'1')": "ok bytes:b'\\x00\\x00\\x00\\x01'",
 'Flag(4).build(np.bool_(True))': "ok bytes:b'\\x00\\x00\\x00\\x01'",
 "Flag(4).parse(b'\\x00\\x00\\x00\\x00')": 'ok bool:False',
 "Flag(4).parse(b'\\x00\\x00\\x00\\x01')": 'ok bool:True',
 "Flag(4).parse(b'\\xff\\xff\\xff\\xff')": 'ok bool:True',
 'Flag(4).parse(long)': 'ok bool:False',
 'Flag(4).parse(short)': "raise construct.core.StreamError args=('Error in path (parsing)\\nstream "
                         "read less than specified amount, expected 4, found 3',) str='Error in "
                         'path (parsing)\\nstream read less than specified amount, expected 4, '
                         "found 3' cause=NoneType context=NoneType suppress=False",
 'Flag(8)': "ok list[str:'Flag', str:'Int64ub', int:8]",
 "Flag(8).build('1')": "ok bytes:b'\\x00\\x00\\x00\\x00\\x00\\x00\\x00\\x01'",
 "Flag(8).build('abc')": 'raise builtins.ValueError args=("invalid literal for int() with base 10: '
                         '\'abc\'",) str="invalid literal for int() with base 10: \'abc\'" '
                         'cause=NoneType context=NoneType suppress=False',
 'Flag(8).build(-1)': 'raise construct.core.FormatFieldError args=("Error in path '
                      '(building)\\nstruct \'>Q\' error during building, given value -1",) '
                      'str="Error in path (building)\\nstruct \'>Q\' error during building, given '
                      'value -1" cause=NoneType context=error suppress=False',
 'Flag(8).build(0)': "ok bytes:b'\\x00\\x00\\x00\\x00\\x00\\x00\\x00\\x00'",
 'Flag(8).build(1)': "ok bytes:b'\\x00\\x00\\x00\\x00\\x00\\x00\\x00\\x01'",
 'Flag(8).build(1.9)': "ok bytes:b'\\x00\\x00\\x00\\x00\\x00\\x00\\x00\\x01'",
 'Flag(8).build(18446744073709551616)': 'raise construct.core.FormatFieldError args=("Error in '
                                        "path (building)\\nstruct '>Q' error during building, "
                                        'given value 18446744073709551616",) str="Error in path '
                                        "(building)\\nstruct '>Q' error during building, given "
                                        'value 18446744073709551616" cause=NoneType context=error '
                                        'suppress=False',
 'Flag(8).build(2)': "ok bytes:b'\\x00\\x00\\x00\\x00\\x00\\x00\\x00\\x02'",
 'Flag(8).build(255)': "ok bytes:b'\\x00\\x00\\x00\\x00\\x00\\x00\\x00\\xff'",
 'Flag(8).build(256)': "ok bytes:b'\\x00\\x00\\x00\\x00\\x00\\x00\\x01\\x00'",
 'Flag(8).build(False)': "ok bytes:b'\\x00\\x00\\x00\\x00\\x00\\x00\\x00\\x00'",
 'Flag(8).build(None)': 'raise builtins.TypeError args=("int() argument must be a string, a '
                        'bytes-like object or a real number, not \'NoneType\'",) str="int() '
                        'argument must be a string, a bytes-like object or a real number, not '
                        '\'NoneType\'" cause=NoneType context=NoneType suppress=False',
 'Flag(8).build(True)': "ok bytes:b'\\x00\\x00\\x00\\x00\\x00\\x00\\x00\\x01'",
 "Flag(8).build(b'1')": "ok bytes:b'\\x00\\x00\\x00\\x00\\x00\\x00\\x00\\x01'",
 'Flag(8).build(np.bool_(True))': "ok bytes:b'\\x00\\x00\\x00\\x00\\x00\\x00\\x00\\x01'",
 "Flag(8).parse(b'\\x00\\x00\\x00\\x00\\x00\\x00\\x00\\x00')": 'ok bool:False',
 "Flag(8).parse(b'\\x00\\x00\\x00\\x00\\x00\\x00\\x00\\x01')": 'ok bool:True',
 "Flag(8).parse(b'\\xff\\xff\\xff\\xff\\xff\\xff\\xff\\xff')": 'ok bool:True',
 'Flag(8).parse(long)': 'ok bool:False',
 'Flag(8).parse(short)': "raise construct.core.StreamError args=('Error in path (parsing)\\nstream "
                         "read less than specified amount, expected 8, found 7',) str='Error in "
                         'path (parsing)\\nstream read less than specified amount, expected 8, '
                         "found 7' cause=NoneType context=NoneType suppress=False",
 'Flag(BadFormat)': "raise builtins.RuntimeError args=('cannot format',) str='cannot format' "
                    'cause=NoneType context=NoneType suppress=False',
 'Flag(BadHash)': "raise builtins.RuntimeError args=('cannot hash',) str='cannot hash' "
                  'cause=NoneType context=NoneType suppress=False',
 'Flag(Counting(2))': "ok list[str:'Flag', str:'Int16ub', int:2]",
 'Flag(Counting(2)) protocol calls': "list[str:'hash', str:'eq']",
 'Flag(Counting(3))': "raise builtins.ValueError args=('unsupported size: <counting 3>',) "
                      "str='unsupported size: <counting 3>' cause=NoneType context=NoneType "
                      'suppress=False',
 'Flag(Counting(3)) protocol calls': "list[str:'hash', str:'format[]']",
 'Flag(Decimal(4))': "ok list[str:'Flag', str:'Int32ub', int:4]",
 'Flag(Ellipsis)': "raise builtins.ValueError args=('unsupported size: Ellipsis',) "
                   "str='unsupported size: Ellipsis' cause=NoneType context=NoneType "
                   'suppress=False',
 'Flag(False)': "raise builtins.ValueError args=('unsupported size: False',) str='unsupported "
                "size: False' cause=NoneType context=NoneType suppress=False",
 'Flag(Fraction(8, 1))': "ok list[str:'Flag', str:'Int64ub', int:8]",
 'Flag(Int8ub)': "raise builtins.ValueError args=('unsupported size: <FormatField>',) "
                 "str='unsupported size: <FormatField>' cause=NoneType context=NoneType "
                 'suppress=False',
 'Flag(None)': "raise builtins.ValueError args=('unsupported size: None',) str='unsupported size: "
               "None' cause=NoneType context=NoneType suppress=False",
 'Flag(OnlyStr)': "raise builtins.ValueError args=('unsupported size: only-str',) str='unsupported "
                  "size: only-str' cause=NoneType context=NoneType suppress=False",
 'Flag(True)': "ok list[str:'Flag', str:'Int8ub', int:1]",
 'Flag([1])': 'raise builtins.TypeError args=("unhashable type: \'list\'",) str="unhashable type: '
              '\'list\'" cause=NoneType context=NoneType suppress=False',
 "Flag(b'\\x01')": 'raise builtins.ValueError args=("unsupported size: b\'\\\\x01\'",) '
                   'str="unsupported size: b\'\\\\x01\'" cause=NoneType context=NoneType '
                   'suppress=False',
 'Flag(bases=...)': 'raise builtins.TypeError args=("Flag.__init__() got an unexpected keyword '
                    'argument \'bases\'",) str="Flag.__init__() got an unexpected keyword argument '
                    '\'bases\'" cause=NoneType context=NoneType suppress=False',
 'Flag(complex(2, 0))': "ok list[str:'Flag', str:'Int16ub', int:2]",
 'Flag(frozenset)': "raise builtins.ValueError args=('unsupported size: frozenset({1})',) "
                    "str='unsupported size: frozenset({1})' cause=NoneType context=NoneType "
                    'suppress=False',
 'Flag(inf)': "raise builtins.ValueError args=('unsupported size: inf',) str='unsupported size: "
              "inf' cause=NoneType context=NoneType suppress=False",
 'Flag(nan)': "raise builtins.ValueError args=('unsupported size: nan',) str='unsupported size: "
              "nan' cause=NoneType context=NoneType suppress=False",
 'Flag(np.float32(2))': "ok list[str:'Flag', str:'Int16ub', int:2]",
 'Flag(np.int64(4))': "ok list[str:'Flag', str:'Int32ub', int:4]",
 'Flag(np.uint8(8))': "ok list[str:'Flag', str:'Int64ub', int:8]",
 'Flag(size=2)': "ok list[str:'Flag', int:2]",
 'Flag(size=3)': "raise builtins.ValueError args=('unsupported size: 3',) str='unsupported size: "
                 "3' cause=NoneType context=NoneType suppress=False",
 'Flag({1})': 'raise builtins.TypeError args=("unhashable type: \'set\'",) str="unhashable type: '
              '\'set\'" cause=NoneType context=NoneType suppress=False',
 'Flag({})': 'raise builtins.TypeError args=("unhashable type: \'dict\'",) str="unhashable type: '
             '\'dict\'" cause=NoneType context=NoneType suppress=False',
 'Inherits(7)': "raise builtins.ValueError args=('unsupported size: 7',) str='unsupported size: 7' "
                'cause=NoneType context=NoneType suppress=False',
 'Inherits(8)': "ok list[str:'Inherits', str:'Int64ub', int:8]",
 'Inherits.bases is Flag.bases': 'bool:True',
 'NoGet(1)': 'raise builtins.AttributeError args=("\'list\' object has no attribute \'get\'",) '
             'str="\'list\' object has no attribute \'get\'" cause=NoneType context=NoneType '
             'suppress=False',
 'Wide(0)': "ok list[str:'Wide', str:'Int8ub', int:1]",
 'Wide(1)': "raise builtins.ValueError args=('unsupported size: 1',) str='unsupported size: 1' "
            'cause=NoneType context=NoneType suppress=False',
 'Wide(2)': "raise builtins.ValueError args=('unsupported size: 2',) str='unsupported size: 2' "
            'cause=NoneType context=NoneType suppress=False',
 'Wide(3)': "ok list[str:'Wide', str:'Int24ub', int:3]",
 'Wide(4)': "raise builtins.ValueError args=('unsupported size: 4',) str='unsupported size: 4' "
            'cause=NoneType context=NoneType suppress=False',
 'Wide(None)': "ok list[str:'Wide', str:'Int16ub', int:2]",
 'bases defined on the class': 'bool:True',
 'bases table keys': 'list[int:1, int:2, int:4, int:8]',
 'bases table type': "str:'dict'",
 'bases table values': 'list[bool:True, bool:True, bool:True, bool:True]',
 'class identity': "list[str:'Flag', str:'Flag', str:'ceos_alos2.sar_image.enums']",
 'class mro': "list[str:'ceos_alos2.sar_image.enums.Flag', str:'construct.core.Adapter', "
              "str:'construct.core.Subconstruct', str:'construct.core.Construct', "
              "str:'builtins.object']",
 'construct version': "str:'2.10.70'",
 "enums.Int8ub is construct's": 'bool:True',
 'failed init': "raise builtins.ValueError args=('unsupported size: 5',) str='unsupported size: 5' "
                'cause=NoneType context=NoneType suppress=False',
 'failed init leaves no state': 'list[]',
 'is adapter': 'list[bool:True, bool:True]',
 'mutated table: Flag(3)': "ok list[str:'Flag', str:'Int24ub', int:3]",
 'mutated table: Flag(8)': "raise builtins.ValueError args=('unsupported size: 8',) "
                           "str='unsupported size: 8' cause=NoneType context=NoneType "
                           'suppress=False',
 'mutated table: Inherits(3)': "ok list[str:'Inherits', str:'Int24ub', int:3]",
 'names importable from enums': "list[str:'Adapter', str:'Enum', str:'Int8ub', str:'Int16ub', "
                                "str:'Int32ub', str:'Int64ub', str:'Flag', str:'sar_channel_id', "
                                "str:'sar_channel_code', str:'pulse_polarization', "
                                "str:'chirp_type_designator', "
                                "str:'platform_position_parameters_update']",
 'restored table: Flag(3)': "raise builtins.ValueError args=('unsupported size: 3',) "
                            "str='unsupported size: 3' cause=NoneType context=NoneType "
                            'suppress=False',
 'restored table: Flag(8)': "ok list[str:'Flag', str:'Int64ub', int:8]",
 'struct build': "ok bytes:b'\\x00\\x00\\x00\\x00\\x00\\x01\\t'",
 'struct build bad': 'raise builtins.ValueError args=("invalid literal for int() with base 10: '
                     '\'x\'",) str="invalid literal for int() with base 10: \'x\'" cause=NoneType '
                     'context=NoneType suppress=False',
 'struct build bad wrote': "bytes:b'\\x00\\x01'",
 'struct parse': 'ok Container(a=bool:True, b=bool:False, c=int:7)',
 'struct parse truncated': "raise construct.core.StreamError args=('Error in path (parsing) -> "
                           "b\\nstream read less than specified amount, expected 4, found 2',) "
                           "str='Error in path (parsing) -> b\\nstream read less than specified "
                           "amount, expected 4, found 2' cause=NoneType context=NoneType "
                           'suppress=False',
 'struct sizeof': 'ok int:7',
 'successful init': 'ok NoneType:None',
 'successful init state': "list[str:'docs', str:'flagbuildnone', str:'name', str:'parsed', "
                          "str:'subcon']"}
# EXPECTED-END


def compare():
    actual = observe()
    problems = []
    for key in sorted(set(actual) | set(EXPECTED)):
        if key not in actual:
            problems.append(f"missing observation {key!r}")
        elif key not in EXPECTED:
            problems.append(f"unexpected observation {key!r}: {actual[key]}")
        elif actual[key] != EXPECTED[key]:
            problems.append(f"{key!r}:\n    expected {EXPECTED[key]}\n    actual   {actual[key]}")
    return actual, problems


def test_equivalence():
    actual, problems = compare()
    assert len(actual) > 50
    assert not problems, "\n".join(problems)


def record():
    path = pathlib.Path(__file__)
    source = path.read_text()
    head, rest = source.split("# EXPECTED-BEGIN\n", 1)
    _, tail = rest.split("# EXPECTED-END\n", 1)
    body = "EXPECTED = " + pprint.pformat(observe(), width=100, sort_dicts=True) + "\n"
    path.write_text(head + "# EXPECTED-BEGIN\n" + body + "# EXPECTED-END\n" + tail)


if __name__ == "__main__":
    if "--record" in sys.argv[1:]:
        record()
        print("recorded", len(observe()), "observations")
        sys.exit(0)

    actual, problems = compare()
    if problems:
        print("\n".join(problems))
        print(f"FAILED: {len(problems)} of {len(actual)} observations differ")
        sys.exit(1)
    print(f"OK: {len(actual)} observations identical to the recorded ones")
